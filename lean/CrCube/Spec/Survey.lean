/-
  Respondent-level semantics (DESIGN.md §2.4).

  A survey is a list of respondents, each with a weight and one answer per variable.
  A variable is either categorical (one raw axis; the answer is the raw position of the
  chosen category, missing categories included) or an *array* of items over a shared
  category list (two raw axes: item × category; the answer lists the chosen category
  position per item).  A multiple-response variable is an array whose category list is
  [selected, other, missing] with flags [false, false, true] — exactly what the library
  receives as MR_SUBVAR × MR_CAT.

  `cubeOf` is the TRUSTED tabulation contract of the Crunch back end: the raw cube array
  cell at a raw multi-index is the (weighted) number of respondents whose answers match
  that index on every axis.
-/
import CrCube.Model.Tensor

namespace CrCube

structure Resp where
  w : Rat
  ans : List (List Nat)      -- per variable: [c] for categorical, [c₀,…,c_{n-1}] for arrays
  deriving Repr, Inhabited

abbrev Survey := List Resp

/-- weighted number of respondents satisfying `p` -/
def wsum (s : Survey) (p : Resp → Bool) : Rat := ((s.filter p).map (·.w)).sum

/-- the same survey with every weight replaced by 1 (unweighted counting) -/
def unweight (s : Survey) : Survey := s.map (fun r => { r with w := 1 })

inductive VKind where
  | cat | arr
  deriving DecidableEq, Repr, Inhabited

structure Var where
  kind : VKind
  n : Nat                  -- categorical: number of raw categories; array: number of items
  catMissing : List Bool   -- missing flag per raw category (cat: length n; arr: per shared category)
  isMR : Bool := false     -- array whose categories are [selected, other, missing] (MR_SUBVAR × MR_CAT)
  deriving Repr, Inhabited

def Var.rank (v : Var) : Nat := match v.kind with | .cat => 1 | .arr => 2

def Var.rawShape (v : Var) : List Nat :=
  match v.kind with
  | .cat => [v.n]
  | .arr => [v.n, v.catMissing.length]

/-- does answer `a` (of this variable) fall in the raw sub-index `ix` of this variable? -/
def Var.mem (v : Var) (a : List Nat) (ix : List Nat) : Bool :=
  match v.kind, ix with
  | .cat, [c] => a == [c]
  | .arr, [k, c] => a[k]? == some c
  | _, _ => false

/-- membership of a respondent in a raw cell of a cube over `vars` -/
def memCell : List Var → List (List Nat) → List Nat → Bool
  | [], [], [] => true
  | v :: vs, a :: as, ix => v.mem a (ix.take v.rank) && memCell vs as (ix.drop v.rank)
  | _, _, _ => false

def rawShapeOf (vars : List Var) : List Nat := vars.flatMap Var.rawShape

/-- THE TABULATION CONTRACT: raw cube array of a survey over the given variables. -/
def cubeOf (vars : List Var) (s : Survey) : FT :=
  ⟨rawShapeOf vars, fun ix => .fin (wsum s (fun r => memCell vars r.ans ix))⟩

/-- flat payload (`result.measures.count.data` / `result.counts` for the unweighted survey) -/
def cubeFlat (vars : List Var) (s : Survey) : List Val := (cubeOf vars s).flat

/-- non-negative weights -/
def WeightsNonneg (s : Survey) : Prop := ∀ r ∈ s, 0 ≤ r.w

/-- respondent answers are well-formed for the design: one answer per variable, each category
    position within range -/
def Var.fits (v : Var) (a : List Nat) : Bool :=
  match v.kind with
  | .cat => a.length == 1 && a.all (· < v.n)
  | .arr => a.length == v.n && a.all (· < v.catMissing.length)

def fitsDesign : List Var → List (List Nat) → Bool
  | [], [] => true
  | v :: vs, a :: as => v.fits a && fitsDesign vs as
  | _, _ => false

def SurveyFits (vars : List Var) (s : Survey) : Prop := ∀ r ∈ s, fitsDesign vars r.ans = true

end CrCube
