/-
  Respondent-level meaning of the cells and bases of a partition (properties C01, C02).

  `elems` gives one element position (among VALID elements) per apparent dimension;
  `valid` says, per apparent dimension, whether that dimension is constrained to the element
  itself (`false`: "belongs to the element") or only to a valid answer for it (`true`:
  "eligible for the denominator": valid category for a categorical dimension, non-missing on
  that particular item for a multiple-response item; an array item is its own eligibility).
-/
import CrCube.Spec.Survey

namespace CrCube

/-- number of apparent dimensions of a variable -/
def Var.nApparent (v : Var) : Nat :=
  match v.kind with
  | .cat => 1
  | .arr => if v.isMR then 1 else 2

/-- raw position of the e-th valid category -/
def Var.vpos (v : Var) (e : Nat) : Option Nat := (validIdxs v.catMissing)[e]?

def Var.isValidPos (v : Var) (c : Nat) : Bool := (validIdxs v.catMissing).contains c

/-- respondent-level predicate contributed by one variable -/
def Var.specMem (v : Var) (a : List Nat) (elems : List Nat) (valid : List Bool) : Bool :=
  match v.kind with
  | .cat =>
    match a, elems, valid with
    | [c], [e], [m] => if m then v.isValidPos c else v.vpos e == some c
    | _, _, _ => false
  | .arr =>
    if v.isMR then
      match elems, valid with
      | [e], [m] =>
        match a[e]? with
        | some c => if m then v.isValidPos c else v.vpos 0 == some c
        | none => false
      | _, _ => false
    else
      match elems, valid with
      | [e1, e2], [_, m2] =>
        match a[e1]? with
        | some c => if m2 then v.isValidPos c else v.vpos e2 == some c
        | none => false
      | _, _ => false

def specMemAll : List Var → List (List Nat) → List Nat → List Bool → Bool
  | [], [], [], [] => true
  | v :: vs, a :: as, es, ms =>
    v.specMem a (es.take v.nApparent) (ms.take v.nApparent)
      && specMemAll vs as (es.drop v.nApparent) (ms.drop v.nApparent)
  | _, _, _, _ => false

/-- weighted number of respondents in the cell / base described by `elems`, `valid` -/
def specCount (vars : List Var) (s : Survey) (elems : List Nat) (valid : List Bool) : Rat :=
  wsum s (fun r => specMemAll vars r.ans elems valid)

end CrCube
