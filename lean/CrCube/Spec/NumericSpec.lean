/-
  What properties C01 / C02 SAY about numeric measures and numeric arrays.

  TRUSTED CONTRACT of the back end (taken from the real fixtures
  tests/fixtures/numeric_arrays/*.json together with the expectations pinned in
  tests/integration/test_numeric_array.py): a numeric measure over grouping variables `vars`
  carries one value per RAW cell of the grouping dimensions and, for a numeric array, per
  subvariable ("item"), laid out row-major as (group dimensions ..., items).

  Valid counts have respondent-level meaning: the (weighted) number of respondents of the raw
  group cell whose value on the item is not missing.  They are expressed with the ordinary
  tabulation contract `cubeOf` by appending to the design the presence variable `numVar n`:
  an array of `n` items over the categories [has a value, missing]; a respondent's answer to
  it lists 0 (value present) or 1 (missing) per item.
-/
import CrCube.Spec.SliceSpec

namespace CrCube

/-- presence variable of a numeric variable with `n` items (n = 1: a plain numeric variable) -/
def numVar (n : Nat) : Var := ⟨.arr, n, [false, true], true⟩

/-- raw shape of a numeric measure as the back end writes it -/
def backendShape (vars : List Var) (numItems : Option Nat) : List Nat :=
  rawShapeOf vars ++ numItems.toList

/-- the flat `data` list of a measure whose raw cell at index `ix` carries `f ix` -/
def backendFlat {α : Type} (vars : List Var) (numItems : Option Nat) (f : List Nat → α) : List α :=
  (allIdx (backendShape vars numItems)).map f

/-- valid counts of a numeric ARRAY measure: cell (group raw index ++ [item]) -/
def validCountsOf (vars : List Var) (n : Nat) (s : Survey) : FT :=
  ⟨rawShapeOf vars ++ [n], fun ix => (cubeOf (vars ++ [numVar n]) s).get (ix ++ [0])⟩

/-- valid counts of a plain numeric measure: cell (group raw index) -/
def validCountsScalar (vars : List Var) (s : Survey) : FT :=
  ⟨rawShapeOf vars, fun ix => (cubeOf (vars ++ [numVar 1]) s).get (ix ++ [0, 0])⟩

/-- respondent-level count / base of a cell of a cube with a numeric variable: `groupElems`
    and `groupValid` address the grouping dimensions as in `specCount`, `item` the subvariable -/
def numSpecCount (vars : List Var) (n : Nat) (s : Survey) (groupElems : List Nat)
    (groupValid : List Bool) (item : Nat) : Rat :=
  specCount (vars ++ [numVar n]) s (groupElems ++ [item]) (groupValid ++ [false])

end CrCube
