/-
  Respondent-level description of one displayed cell of a slice (shared by the specifications
  of C11, C12 and C16).

  A slice is cut from a cube over two variables (rows, columns) or three (table, rows,
  columns); every variable here is categorical-like (one raw axis) or multiple-response
  (items × [selected, other, missing]); both contribute ONE apparent dimension.

  A displayed row (column) is a base element or an inserted subtotal / difference.  Either
  way it is described by the positions — among the VALID elements of its dimension — of its
  addends and of its subtrahends (`Side`): a base element `e` is `⟨[e], []⟩`.
-/
import CrCube.Spec.SliceSpec

namespace CrCube

structure Side where
  add : List Nat
  sub : List Nat
  inserted : Bool := false
  deriving Repr, Inhabited, DecidableEq

def Side.base (e : Nat) : Side := ⟨[e], [], false⟩
def Side.isDiff (s : Side) : Bool := !s.sub.isEmpty

/-- respondent (answer `a` on variable `v`) belongs to valid element `e`:
    categorical: chose the e-th valid category;  MR: selected item e -/
def Var.inElem (v : Var) (a : List Nat) (e : Nat) : Bool := v.specMem a [e] [false]

/-- respondent is eligible for element `e`: categorical: chose a valid category (whatever `e`);
    MR: not missing on item e -/
def Var.eligibleFor (v : Var) (a : List Nat) (e : Nat) : Bool := v.specMem a [e] [true]

def Var.inAny (v : Var) (a : List Nat) (es : List Nat) : Bool := es.any (v.inElem a)

/-- eligibility for a side: that of its (first) addend, else of its first subtrahend.
    (Insertions exist on categorical dimensions only, where eligibility does not depend on the element.) -/
def Side.eligible (sd : Side) (v : Var) (a : List Nat) : Bool :=
  v.eligibleFor a ((sd.add ++ sd.sub).headD 0)

/-- the design of a slice: optional table variable with the partition number, rows, columns -/
structure SliceDesign where
  tbl : Option (Var × Nat)
  rowV : Var
  colV : Var
  deriving Repr, Inhabited

def SliceDesign.ofVars (vars : List Var) (k : Nat) : Option SliceDesign :=
  match vars with
  | [vr, vc] => some ⟨none, vr, vc⟩
  | [vt, vr, vc] => some ⟨some (vt, k), vr, vc⟩
  | _ => none

def SliceDesign.vars (d : SliceDesign) : List Var :=
  match d.tbl with
  | none => [d.rowV, d.colV]
  | some (vt, _) => [vt, d.rowV, d.colV]

/-- answers of a respondent on the table / rows / columns variable -/
def SliceDesign.rowAns (d : SliceDesign) (r : Resp) : List Nat :=
  match d.tbl with | none => r.ans.getD 0 [] | some _ => r.ans.getD 1 []
def SliceDesign.colAns (d : SliceDesign) (r : Resp) : List Nat :=
  match d.tbl with | none => r.ans.getD 1 [] | some _ => r.ans.getD 2 []

/-- respondent belongs to the table element of this partition (vacuous for a 2-variable cube) -/
def SliceDesign.inTable (d : SliceDesign) (r : Resp) : Bool :=
  match d.tbl with
  | none => true
  | some (vt, k) => vt.inElem (r.ans.getD 0 []) k

def SliceDesign.inRowAdd (d : SliceDesign) (R : Side) (r : Resp) : Bool := d.rowV.inAny (d.rowAns r) R.add
def SliceDesign.inRowSub (d : SliceDesign) (R : Side) (r : Resp) : Bool := d.rowV.inAny (d.rowAns r) R.sub
def SliceDesign.inColAdd (d : SliceDesign) (C : Side) (r : Resp) : Bool := d.colV.inAny (d.colAns r) C.add
def SliceDesign.inColSub (d : SliceDesign) (C : Side) (r : Resp) : Bool := d.colV.inAny (d.colAns r) C.sub
def SliceDesign.rowElig (d : SliceDesign) (R : Side) (r : Resp) : Bool := R.eligible d.rowV (d.rowAns r)
def SliceDesign.colElig (d : SliceDesign) (C : Side) (r : Resp) : Bool := C.eligible d.colV (d.colAns r)

inductive Dir where
  | row | col | table
  deriving DecidableEq, Repr, Inhabited

/-- the respondents in the BASE of the cell's proportion in direction `dir` (C02):
    row: members of the row (addends) eligible on the column; column: mirror image;
    table: eligible on both. -/
def SliceDesign.inBase (d : SliceDesign) (dir : Dir) (R C : Side) (r : Resp) : Bool :=
  d.inTable r &&
  match dir with
  | .row => d.inRowAdd R r && d.colElig C r
  | .col => d.rowElig R r && d.inColAdd C r
  | .table => d.rowElig R r && d.colElig C r

/-- members of the cell's addends (+1) -/
def SliceDesign.isPos (d : SliceDesign) (R C : Side) (r : Resp) : Bool :=
  d.inTable r && d.inRowAdd R r && d.inColAdd C r

/-- members of the cell's subtrahends (−1): subtrahend row × addend column, or addend row × subtrahend column -/
def SliceDesign.isNeg (d : SliceDesign) (R C : Side) (r : Resp) : Bool :=
  d.inTable r && ((d.inRowSub R r && d.inColAdd C r) || (d.inRowAdd R r && d.inColSub C r))

end CrCube
