/-
  C12 — what the property SAYS, at respondent level.

  "For any table with at least two linearly independent rows and columns, each cell's z-score
   is the adjusted standardized residual
        (count − expected) / sqrt(expected (1 − row share)(1 − column share))
   computed from that cell's own row, column and table bases, its p-value is the two-sided
   normal tail 2(1 − Φ(|z|)) in [0, 1], and for 2 × 2 tables z squared equals the Pearson
   chi-square statistic.  Tables lacking two independent rows or columns report NaN everywhere."

  The table is the base block (all valid rows × valid columns) of weighted counts.  "Fewer
  than two linearly independent rows (or columns)" is: an extent is 0, or all 2 × 2 minors vanish
  (`Props/C12.lean` proves that this is equivalent to every two rows being linearly dependent).
  A difference row (column) has no row (column) base (C04), hence no row (column) share: NaN.
-/
import CrCube.Spec.CellSpec

namespace CrCube

/-- weighted count of base cell (i, j) -/
def baseCountSpec (d : SliceDesign) (s : Survey) (i j : Nat) : Rat :=
  wsum s (d.isPos (.base i) (.base j))

def minorsVanishQ (nr nc : Nat) (m : Nat → Nat → Rat) : Bool :=
  (List.range nr).all fun i => (List.range nr).all fun k =>
    (List.range nc).all fun j => (List.range nc).all fun l =>
      decide (m i j * m k l - m i l * m k j = 0)

/-- a table of counts lacks two independent rows or columns -/
def tableDefectiveOf (nr nc : Nat) (m : Nat → Nat → Rat) : Bool :=
  nr == 0 || nc == 0 || minorsVanishQ nr nc m

/-- the table lacks two independent rows or columns -/
def tableDefectiveSpec (d : SliceDesign) (s : Survey) (nr nc : Nat) : Bool :=
  tableDefectiveOf nr nc (baseCountSpec d s)

/-- adjusted standardized residual from count n, row base r, column base c, table base t -/
def adjResidual (n r c t : Val) : Out :=
  let e := r * c / t
  .divSqrt (n - e) (e * (.fin 1 - r / t) * (.fin 1 - c / t))

/-- z-score of displayed cell (R, C), given whether the table is defective -/
def zSpecCell (defective : Bool) (d : SliceDesign) (s : Survey) (R C : Side) : Out :=
  if defective then .v .nan
  else if R.isDiff || C.isDiff then .v .nan
  else adjResidual (.fin (wsum s (d.isPos R C)))
        (.fin (wsum s (d.inBase .row R C))) (.fin (wsum s (d.inBase .col R C)))
        (.fin (wsum s (d.inBase .table R C)))

/-- z-score of displayed cell (R, C) of a table with nr × nc base cells -/
def zSpec (d : SliceDesign) (s : Survey) (nr nc : Nat) (R C : Side) : Out :=
  zSpecCell (tableDefectiveSpec d s nr nc) d s R C

def pSpec (z : Out) : Out := .normTail2 z

/-- IEEE: does `num / sqrt(rad)` evaluate to NaN?  (sqrt of a negative number, 0/0, inf/inf) -/
def divSqrtIsNan (n d : Val) : Bool :=
  match n, d with
  | .nan, _ => true
  | _, .nan => true
  | _, .ninf => true
  | .fin a, .fin b => decide (b < 0) || (decide (a = 0) && decide (b = 0))
  | .fin _, .pinf => false
  | _, .fin b => decide (b < 0)
  | _, .pinf => true

def Out.evalsToNan : Out → Bool
  | .v x => x.isNan
  | .divSqrt n d => divSqrtIsNan n d
  | _ => false

/-- Pearson chi-square of the 2 × 2 table [[a, b], [c, d]]: Σ (O − E)² / E -/
def pearsonChi2 (a b c d : Rat) : Rat :=
  let t := a + b + c + d
  let e11 := (a + b) * (a + c) / t
  let e12 := (a + b) * (b + d) / t
  let e21 := (c + d) * (a + c) / t
  let e22 := (c + d) * (b + d) / t
  (a - e11) * (a - e11) / e11 + (b - e12) * (b - e12) / e12
    + (c - e21) * (c - e21) / e21 + (d - e22) * (d - e22) / e22

end CrCube
