/-
  C11 for designs that contain a categorical ARRAY (one variable, two apparent dimensions:
  items × categories, or categories × items when rendered transposed), alone, under a table
  variable, or leading a cube.

  `Spec/VarianceSpec.lean` speaks of a slice cut from two or three one-dimension variables
  (`SliceDesign`).  An array design has no such decomposition (rows and columns can be the two
  axes of ONE variable), so the statement is made on the general respondent-level predicates of
  `Spec/SliceSpec.lean` (`specMemAll vars ans elems flags`): a cell is named by one element per
  apparent dimension (`elems`), its members by the all-`false` flags, and the base of its row /
  column / table proportion by the flags proved to be those bases in Props/C02_Arr.lean
  (`Driver/Arr.lean :: readingOf`).  Only ordinary cells exist on array designs here (no
  insertions), so the indicator is 1 for members and 0 otherwise.
-/
import CrCube.Spec.VarianceSpec
import CrCube.Model.Variance

namespace CrCube

/-- members of the cell / of a base: respondents satisfying `specMemAll` for the flags -/
def arrPred (vars : List Var) (elems : List Nat) (flags : List Bool) (r : Resp) : Bool :=
  specMemAll vars r.ans elems flags

/-- **spec**: variance of the proportion of the cell `elems` whose base is given by `fBase`:
    weighted variance, among the base respondents, of the membership indicator; NaN on an empty base -/
def arrVarianceSpec (vars : List Var) (s : Survey) (elems : List Nat) (fCell fBase : List Bool) : Val :=
  indicatorVariance s (arrPred vars elems fBase) (arrPred vars elems fCell) (fun _ => false)

/-- weighted base of that proportion -/
def arrBaseSpec (vars : List Var) (s : Survey) (elems : List Nat) (fBase : List Bool) : Rat :=
  wsum s (arrPred vars elems fBase)

/-- the library's primitives for an ordinary cell (no insertions: no negative terms, no wave terms)
    for ARBITRARY member / base predicates -/
def VarCell.ordinary (dir : Dir) (np base : Rat) : VarCell :=
  { dir := dir, R := Side.base 0, C := Side.base 0, rowsCatDate := false, colsCatDate := false
    np := .fin np, nn := .fin 0, base := .fin base }

/-- **model at respondent level**: the library's three-term formula on the counts the count / base
    blocks hold for the cell (C01_Arr / C02_Arr) -/
def VarCell.ofArr (vars : List Var) (s : Survey) (dir : Dir) (elems : List Nat) (fCell fBase : List Bool) : VarCell :=
  VarCell.ordinary dir (wsum s (arrPred vars elems fCell)) (wsum s (arrPred vars elems fBase))

end CrCube
