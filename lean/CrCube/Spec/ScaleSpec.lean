/-
  Respondent-level meaning of the scale statistics (property C14).

  A vector (row, column, subtotal row/column, or a strand's single variable) counts a list of
  respondents; each has a weight and a category on the opposing dimension (position among its
  valid elements).  Categories may carry a numeric value.  The statistics are those of the
  numeric values of the individual respondents, ignoring respondents whose category has none:

    mean    Σ w·v / Σ w                       (weighted mean)
    var     Σ w·(v − mean)² / Σ w             (population variance; std-dev = sqrt)
    stderr  sqrt(var) / sqrt(margin)          margin = Σ w over ALL respondents of the vector
            (strand: sqrt(var / Σ w over the numeric-valued respondents))
    median  middle of the sorted values (mean of the two middle ones for an even number);
            stated for unit weights / integer counts

  NaN when no respondent carries a value (the strand API turns that into None).
-/
import CrCube.Model.Scale

namespace CrCube.ScaleSpec
open CrCube.Scale

structure SResp where
  w : Rat
  cat : Nat
  deriving Repr, Inhabited

/-- numeric value of a category position -/
def valOf (vals : List (Option Rat)) (k : Nat) : Option Rat := (vals[k]?).join

/-- (weight, value) of the respondents whose category carries a numeric value -/
def valued (vals : List (Option Rat)) (rs : List SResp) : List (Rat × Rat) :=
  rs.filterMap (fun r => (valOf vals r.cat).map (fun v => (r.w, v)))

def sumW (ps : List (Rat × Rat)) : Rat := (ps.map (·.1)).sum
def sumWV (ps : List (Rat × Rat)) : Rat := (ps.map (fun p => p.1 * p.2)).sum

/-- weighted mean of the respondents' values (as a rational; meaningful when `sumW ≠ 0`) -/
def meanQ (ps : List (Rat × Rat)) : Rat := sumWV ps / sumW ps

def mean (ps : List (Rat × Rat)) : Val := if sumW ps = 0 then .nan else .fin (meanQ ps)

def varQ (ps : List (Rat × Rat)) : Rat :=
  (ps.map (fun p => p.1 * ((p.2 - meanQ ps) * (p.2 - meanQ ps)))).sum / sumW ps

def var (ps : List (Rat × Rat)) : Val := if sumW ps = 0 then .nan else .fin (varQ ps)

def stddev (ps : List (Rat × Rat)) : SOut := .sqrt (var ps)

/-- total weight of all respondents of the vector (its weighted margin) -/
def margin (rs : List SResp) : Rat := (rs.map (·.w)).sum

def stderr (ps : List (Rat × Rat)) (m : Rat) : SOut := .sqrtDivSqrt (var ps) (.fin m)

/-- strand: deviation over the root of the weighted count of numeric-valued respondents -/
def stderrStrand (ps : List (Rat × Rat)) : SOut :=
  if sumW ps = 0 then .sqrt .nan else .sqrt (.fin (varQ ps / sumW ps))

/-- median of a list of values: middle of the sorted list, mean of the two middle values for an
    even length, NaN for the empty list -/
def median (xs : List Rat) : Val :=
  let s := xs.mergeSort (fun a b => decide (a ≤ b))
  let n := s.length
  if n = 0 then .nan
  else if n % 2 = 1 then .fin (s.getD (n / 2) 0)
  else .fin ((s.getD (n / 2 - 1) 0 + s.getD (n / 2) 0) / 2)

/-- the values of the individual (unit-weight) respondents that carry one -/
def respValues (vals : List (Option Rat)) (rs : List SResp) : List Rat :=
  (valued vals rs).map (·.2)

/-- THE TABULATION (C01) restricted to one vector: weighted count per opposing category -/
def countOf (rs : List SResp) (k : Nat) : Rat := ((rs.filter (fun r => r.cat == k)).map (·.w)).sum

def countsOf (n : Nat) (rs : List SResp) : List Rat := (List.range n).map (countOf rs)

end CrCube.ScaleSpec
