/-
  What the cells and bases of the MR × ARR / straddled / fused layouts SAY (properties C01, C02),
  and the table of payload layouts of the tabulation contract.

  Straddled layouts S1 / S2 are renderings of the design [A, X]: their statements are plain
  `specCount [A, X]` values.  The fused ("scorecard") layout tabulates each of q variables of one
  design alone: `fusedCount`.
-/
import CrCube.Spec.SliceSpec
import CrCube.Model.CubeCounts

namespace CrCube

/-- fused layout, cell (element i of the common design M, variable j): does the respondent belong
    to element i of HER ANSWER TO VARIABLE j (`m = false`; for multiple response: selected item i
    of variable j) / does she have a valid answer for it (`m = true`; for multiple response: is
    non-missing on item i of variable j) -/
def fusedMem (M : Var) (i j : Nat) (m : Bool) (r : Resp) : Bool :=
  match r.ans[j]? with
  | some a => M.specMem a [i] [m]
  | none => false

/-- weighted number of such respondents -/
def fusedCount (M : Var) (s : Survey) (i j : Nat) (m : Bool) : Rat := wsum s (fusedMem M i j m)

/-! ### payload layouts of the tabulation contract

A cube response is a sequence of PIECES, optionally preceded by the numeric-array pseudo-dimension
(`Cube._numeric_array_dimension`, always first).  Each piece is one variable (or one fused group)
and contributes these apparent dimension kinds: -/

inductive Piece where
  | cat                    -- categorical-like variable
  | mr                     -- multiple response (MR_SUBVAR × MR_CAT, one apparent dimension)
  | ca                     -- categorical array, items × categories
  | caT                    -- categorical array, categories × items
  | s1 (xmr : Bool)        -- categories(A) × X × items(A), X categorical / multiple response
  | s2 (xmr : Bool)        -- items(A) × X × categories(A)
  | fusedMR                -- fused multiple-response variables: items × variables
  | fusedCA                -- fused categorical arrays / categoricals: items × categories × variables
  deriving DecidableEq, Repr

def Piece.kinds : Piece → List DK
  | .cat => [.cat]
  | .mr => [.mr]
  | .ca => [.arr, .cat]
  | .caT => [.cat, .arr]
  | .s1 xmr => [.cat, if xmr then .mr else .cat, .arr]
  | .s2 xmr => [.arr, if xmr then .mr else .cat, .cat]
  | .fusedMR => [.mr, .arr]
  | .fusedCA => [.arr, .cat, .arr]

structure PLayout where
  numArr : Bool
  pieces : List Piece
  deriving DecidableEq, Repr

def PLayout.kinds (l : PLayout) : List DK :=
  (if l.numArr then [DK.arr] else []) ++ l.pieces.flatMap Piece.kinds

/-- the (rows kind, columns kind) pair `_BaseCubeCounts.factory` looks at:
    `cube.dimension_types[-2:]` -/
def lastTwo (ks : List DK) : Option (DK × DK) :=
  match ks.reverse with
  | c :: r :: _ => some (r, c)
  | _ => none

end CrCube
