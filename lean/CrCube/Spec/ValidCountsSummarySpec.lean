/-
  What `valid_counts_summary_range` means at respondent level (a base / range quantity, C02):
  for every combination of ARRAY elements (numeric-array item, multiple-response item,
  categorical-array subvariable) the number of respondents that have a value on the item and a
  VALID answer on every grouping dimension (valid category; non-missing on that particular MR item
  / CA subvariable); the range is [min, max] over those combinations.  Without any array
  dimension it is a single number.
-/
import CrCube.Spec.NumericSpec
import CrCube.Model.SliceApi

namespace CrCube

/-- the element positions that are enumerated for a variable: nothing to choose for a categorical
    variable (position 0 is a placeholder, ignored under the `valid` flag), every item of an array -/
def Var.summaryElems (v : Var) : List (List Nat) :=
  match v.kind with
  | .cat => [[0]]
  | .arr => if v.isMR then (List.range v.n).map (fun e => [e]) else (List.range v.n).map (fun e => [e, 0])

def groupElemCombos : List Var → List (List Nat)
  | [] => [[]]
  | v :: vs => v.summaryElems.flatMap (fun e => (groupElemCombos vs).map (e ++ ·))

/-- one respondent count per array-element combination (numeric-array item outermost) -/
def summarySpecCells (vars : List Var) (numItems : Option Nat) (s : Survey) : List Rat :=
  let n := numItems.getD 1
  (List.range n).flatMap (fun item =>
    (groupElemCombos vars).map (fun ge =>
      numSpecCount vars n s ge (vars.flatMap (fun v => List.replicate v.nApparent true)) item))

/-- [min, max] over the combinations; `none` when there is none (an array without items) -/
def summarySpecRange (vars : List Var) (numItems : Option Nat) (s : Survey) : Option (Val × Val) :=
  let cells := (summarySpecCells vars numItems s).map Val.fin
  if cells = [] then none else some (MatCounts.vmin cells, MatCounts.vmax cells)

end CrCube
