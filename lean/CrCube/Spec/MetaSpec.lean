/-
  Specification side of the METADATA slice of C05 / C09 / C19: what the property statements say about
  labels, fills, hidden flags and the re-indexing of label-like outputs, written independently of the
  cascade code in `Model/Meta.lean`.

  C05  "every … label, code, alias and fill output equals the corresponding untransformed output
        re-indexed by the reported row and column display order … position i of every row-wise output
        refers to the same element … each output's extent matches the partition's reported shape"
        -> `pick` / `reindex` / `ValidOrder`: what a signed display index NAMES.
  C09  "a base element is absent from the display exactly when it is explicitly hidden …; subtotals
        disappear only when … the insertion itself is flagged hidden"
        -> `hidden`, `insertionHidden`: "explicitly hidden" means the flag is the JSON value `true`.
  C19  "an item may be referenced by its alias, its sub-variable id, or its numeric element id written
        as int or string … in hide / rename transforms all these spellings resolve to the same item and
        give identical output … references that match nothing are ignored"
        -> `entryFor`: the transform of item k is the entry whose key DENOTES k (`ShimSpec.resolve`),
           whatever the spelling.
  No Mathlib.  Executable.
-/
import CrCube.Model.Meta
import CrCube.Spec.ShimSpec

namespace CrCube.MetaSpec
open CrCube
open CrCube.Meta (KD pyStr)
open CrCube.Shim (Ref decStr)

/-- the entry `k` of an element-transform dict (`none`: not given) -/
def given (xf : J) (k : String) : Option J :=
  match xf with
  | .obj kvs => kvs.lookup k
  | _ => none

/-- the label shown for an element: the rename if the transforms carry a `name` for it -- text as is,
    any other value as its printed form, a blank / null / zero rename blanks the label -- else the
    payload name -/
def label (payloadName : J) (xf : J) : J :=
  match given xf "name" with
  | some v => .str (if v.truthy then pyStr v else "")
  | none => payloadName

/-- "explicitly hidden": the transforms give `hide` the JSON value `true` (not `1`, not `"yes"`) -/
def hidden (xf : J) : Bool :=
  match given xf "hide" with
  | some (.bool true) => true
  | _ => false

/-- the fill shown: the given colour; nothing given, `null` or an empty string mean "default" (`null`) -/
def fill (xf : J) : J :=
  match given xf "fill" with
  | some v => if v.truthy then v else .null
  | none => .null

/-- "the insertion itself is flagged hidden" -/
def insertionHidden (ins : J) : Bool :=
  match given ins "hide" with
  | some (.bool true) => true
  | _ => false

/-! ### which entry of a transforms dict is about item k (C19) -/

/-- the entries whose key denotes item `k` of the array dimension under ANY spelling -/
def entriesFor (d : Shim.Dim) (es : KD) (k : Nat) : List J :=
  (es.filter (fun kv => decide (ShimSpec.resolve d kv.1 = .item k))).map (·.2)

/-- the transform the statement assigns to item `k`: the entry referring to it (when several do, the one
    written last, as in any dict written entry by entry); `{}` when none does -/
def entryFor (d : Shim.Dim) (es : KD) (k : Nat) : J := ((entriesFor d es k).getLast?).getD J.empty

/-- every key is covered by the statement: it denotes exactly one item, or nothing -/
def Determinate (d : Shim.Dim) (es : KD) : Prop :=
  ∀ kv ∈ es, (∃ k, ShimSpec.resolve d kv.1 = .item k) ∨ ShimSpec.resolve d kv.1 = .nothing

instance (d : Shim.Dim) (r : Ref) : Decidable (∃ k, ShimSpec.resolve d r = .item k) :=
  match h : ShimSpec.resolve d r with
  | .item k => isTrue ⟨k, rfl⟩
  | .nothing => isFalse (by intro ⟨k, hk⟩; cases hk)
  | .ambiguous => isFalse (by intro ⟨k, hk⟩; cases hk)
  | .unspecified => isFalse (by intro ⟨k, hk⟩; cases hk)

instance (d : Shim.Dim) (es : KD) : Decidable (Determinate d es) := by
  unfold Determinate; exact inferInstance

/-- categorical dimensions: the entry for the category with int id `n` is keyed by `n` or by its decimal
    string; when BOTH are present the statement does not say which wins (`none`) -/
def entryForCat (es : KD) (n : Int) : Option J :=
  match (es.filter (fun kv => decide (kv.1 = .int n) || decide (kv.1 = .str (decStr n)))).map (·.2) with
  | [] => some J.empty
  | [v] => some v
  | _ => none

/-! ### what a signed display index names (C05) -/

/-- non-negative: base element `i`; negative: the subtotal counted from the END of the subtotal list
    (`-1` = the last one defined) -/
def pick {α : Type} (base subs : List α) (i : Int) : Option α :=
  if 0 ≤ i then base[i.toNat]?
  else if -(subs.length : Int) ≤ i then subs[((subs.length : Int) + i).toNat]?
  else none

/-- a display order over `n` base elements and `m` subtotals -/
def ValidOrder (n m : Nat) (o : List Int) : Prop := ∀ i ∈ o, -(m : Int) ≤ i ∧ i < (n : Int)

instance (n m : Nat) (o : List Int) : Decidable (ValidOrder n m o) := by
  unfold ValidOrder; exact inferInstance

/-- an output "re-indexed by the display order" -/
def reindex {α : Type} (base subs : List α) (o : List Int) : List (Option α) := o.map (pick base subs)

end CrCube.MetaSpec
