/-
  Respondent-level statement of the pairwise column test (property C13).

  For a row r (an element of the rows dimension, or an additive subtotal of categories) and two
  columns a (selected) and b (compared), over the survey behind the slice:

     p_x = weighted #(in row r ∧ in column x) / weighted #(valid for row r ∧ in column x)
     n_x = unweighted #(valid for row r ∧ in column x)                      (no squared weights)
         = (Σ w)² / Σ w²  over the same respondents                         (squared weights supplied)
     t   = (p_b − p_a) / sqrt( p_a(1−p_a)/n_a + p_b(1−p_b)/n_b )
     p   = 2·(1 − T_{n_a+n_b−2}(|t|))

  "valid for row r": answered the rows variable with a non-missing category (categorical rows),
  or has a non-missing answer on that particular item (multiple-response rows).
-/
import CrCube.Model.Val

namespace CrCube.PairwiseSpec

structure PResp where
  w : Rat
  rowIn : List Bool        -- per full row: belongs to the row
  rowValid : List Bool     -- per full row: eligible for the column base of that row
  colIn : List Bool        -- per full column: belongs to the column
  deriving Repr, Inhabited

def PResp.inRow (r : PResp) (i : Nat) : Bool := r.rowIn.getD i false
def PResp.validRow (r : PResp) (i : Nat) : Bool := r.rowValid.getD i false
def PResp.inCol (r : PResp) (j : Nat) : Bool := r.colIn.getD j false

/-- Σ g(w) over the respondents satisfying `f` -/
def total (rs : List PResp) (f : PResp → Bool) (g : Rat → Rat) : Rat :=
  ((rs.filter f).map (fun r => g r.w)).sum

def cnt (rs : List PResp) (i j : Nat) : Rat := total rs (fun r => r.inRow i && r.inCol j) id
def base (rs : List PResp) (i j : Nat) : Rat := total rs (fun r => r.validRow i && r.inCol j) id
def ubase (rs : List PResp) (i j : Nat) : Rat := total rs (fun r => r.validRow i && r.inCol j) (fun _ => 1)
def sqbase (rs : List PResp) (i j : Nat) : Rat := total rs (fun r => r.validRow i && r.inCol j) (fun w => w * w)

/-- column proportion of row i in column j (NaN on an empty column) -/
def prop (rs : List PResp) (i j : Nat) : Val := Val.fin (cnt rs i j) / Val.fin (base rs i j)

/-- the base n of the property statement -/
def nBase (rs : List PResp) (useSq : Bool) (i j : Nat) : Val :=
  if useSq then Val.fin (base rs i j * base rs i j) / Val.fin (sqbase rs i j)
  else Val.fin (ubase rs i j)

/-- THE FORMULA OF THE PROPERTY TEXT -/
def tFormula (pa na pb nb : Val) : Out :=
  .divSqrt (pb - pa) (pa * (1 - pa) / na + pb * (1 - pb) / nb)

def pFormula (t : Out) (na nb : Val) : Out := .tTail2 t (na + nb - 2)

def tSpec (rs : List PResp) (useSq : Bool) (i a b : Nat) : Out :=
  tFormula (prop rs i a) (nBase rs useSq i a) (prop rs i b) (nBase rs useSq i b)

def pSpec (rs : List PResp) (useSq : Bool) (i a b : Nat) : Out :=
  pFormula (tSpec rs useSq i a b) (nBase rs useSq i a) (nBase rs useSq i b)

/-- index set of the property text: the OTHER columns whose p-value is below alpha and (only-larger
    mode) whose proportion is smaller than the cell's own; `pv a b` is the evaluated p-value of
    comparing b with selected a, `smaller a b` says "proportion of b < proportion of a" -/
def indexSet (nCols : Nat) (alpha : Rat) (onlyLarger : Bool) (pv : Nat → Nat → Val)
    (smaller : Nat → Nat → Bool) (a : Nat) : List Nat :=
  (List.range nCols).filter (fun b => b != a && Val.lt (pv a b) (.fin alpha) && (!onlyLarger || smaller a b))

end CrCube.PairwiseSpec
