/-
  Array items flagged missing: the payload the back end sends carries ALL items of an array
  variable; the typed design the rest of the model works with (`TVar.var`) has only the items NOT
  flagged missing.  This file states the relation between the two:

    * `TVar.full`        the variable as the payload has it (all `nItems` items)
    * `TVar.libAxes`     the valid element idxs the LIBRARY applies to the payload axes
                          (valid items × valid categories; `Cube._valid_idxs`)
    * `reduceAns`        a respondent's answers restricted to the valid items
    * `liftIdx`          raw index of the reduced design ↦ raw index of the payload
  No Mathlib; executable.
-/
import CrCube.Model.Glue
import CrCube.Spec.Survey

namespace CrCube.Glue
open CrCube

/-- the variable as the PAYLOAD carries it: all items -/
def TVar.full (t : TVar) : Var :=
  match t.var.kind with
  | .cat => t.var
  | .arr => { t.var with n := t.nItems }

/-- `Cube._valid_idxs` on the payload axes of this variable -/
def TVar.libAxes (t : TVar) : List (List Nat) :=
  match t.var.kind with
  | .cat => [validIdxs t.var.catMissing]
  | .arr => [t.itemPos, validIdxs t.var.catMissing]

/-- answers of one respondent on this variable, restricted to the valid items -/
def TVar.reduceAns (t : TVar) (a : List Nat) : List Nat :=
  match t.var.kind with
  | .cat => a
  | .arr => t.itemPos.map (fun k => a.getD k 0)

def reduceAnss : List TVar → List (List Nat) → List (List Nat)
  | t :: ts, a :: as => t.reduceAns a :: reduceAnss ts as
  | _, _ => []

/-- the survey over the valid items only -/
def reduceSurvey (tv : List TVar) (s : Survey) : Survey :=
  s.map (fun r => { r with ans := reduceAnss tv r.ans })

/-- raw sub-index of the reduced variable ↦ raw sub-index of the payload variable -/
def TVar.liftSub (t : TVar) (x : List Nat) : List Nat :=
  match t.var.kind, x with
  | .arr, [i, c] => [t.itemPos.getD i 0, c]
  | _, x => x

def liftIdx : List TVar → List Nat → List Nat
  | [], _ => []
  | t :: ts, ix => t.liftSub (ix.take t.var.rank) ++ liftIdx ts (ix.drop t.var.rank)

/-- apparent kind of a typed (CAT / MR / CA) variable -/
def varDK (v : Var) : DK := match v.kind with | .cat => .cat | .arr => if v.isMR then .mr else .arr

/-- what the LIBRARY does to the payload of a 2-D cube: `Cube.counts` = payload[np.ix_(valid element
    idxs of every dimension)] (valid ITEMS × valid categories), then the count extractor class chosen
    by the dimension types -/
def libSliceCounts (tR tC : TVar) (payload : FT) : MatCounts :=
  MatCounts.factory (varDK tR.var) (varDK tC.var) (payload.take (tR.libAxes ++ tC.libAxes))

/-- well-formedness of a typed variable w.r.t. its payload: as many valid items as positions, each
    position inside the payload -/
def TVar.ok (t : TVar) : Prop :=
  t.var.kind = .arr → t.var.n = t.itemPos.length ∧ ∀ k ∈ t.itemPos, k < t.nItems

end CrCube.Glue
