/-
  C04 read on the SMOOTHED column proportions (`smoothed_column_proportions` / `_percentages`):
  what the property demands of an inserted ROW at the base columns of a slice whose columns
  dimension carries a smoother transform.

  "every measure defined for it … proportions … equals what the response would show for one
   category obtained by merging the addends in the data"        → `merged`
  "on a categorical-date dimension a one-minus-one difference reports the difference of the two
   percentages"                                                  → `waveDiff`
  "a difference with several terms on either side is NaN in every proportion" → `allNan`

  The smoothed series of a row is `SmoothingSpec.smoothed` (C20) of the row of proportions the
  un-smoothed table shows; nothing is demanded where the statement is silent (`none`).
-/
import CrCube.Model.Val
import CrCube.Spec.SmoothingSpec

namespace CrCube
namespace SubSmoothSpec
open SmoothingSpec

/-- what the statement says about one inserted row, given the POSITIONS of its existing addends /
    subtrahends (`pos`, `neg`) and whether the rows dimension is categorical-date -/
inductive Rule where
  | merged                    -- no subtrahend, at least one addend: one merged category
  | allNan                    -- categorical-date difference with several terms on either side
  | waveDiff (a s : Nat)      -- categorical-date one-minus-one difference
  | silent                    -- the statement does not fix the column proportion of this row
  deriving Repr, DecidableEq

def ruleOf (rowsCatDate : Bool) (pos neg : List Nat) : Rule :=
  if neg.isEmpty then (if pos.isEmpty then .silent else .merged)
  else if !rowsCatDate then .silent
  else if pos.length > 1 || neg.length > 1 then .allNan
  else match pos, neg with
    | [a], [s] => .waveDiff a s
    | _, _ => .silent

/-- the row the statement demands at the `nc` base columns.
    `colsCatDate`, `w`: the smoothing setting of the columns dimension; `body a` = the un-smoothed
    proportions the table shows for base row `a`; `mergedRow` = the un-smoothed proportions of the
    category obtained by merging the addends. -/
def demandedRow (colsCatDate : Bool) (w : Int) (nc : Nat) (body : Nat → List Val) (mergedRow : List Val) :
    Rule → Option (List Val)
  | .merged => some (smoothed colsCatDate w mergedRow)
  | .allNan => some (List.replicate nc Val.nan)
  | .waveDiff a s =>
      some (List.zipWith (· - ·) (smoothed colsCatDate w (body a)) (smoothed colsCatDate w (body s)))
  | .silent => none

end SubSmoothSpec
end CrCube
