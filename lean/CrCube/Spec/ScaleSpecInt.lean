/-
  Respondent-level meaning of the scale MEDIAN for integer-weighted records (property C14, "for
  integer counts"), stated so that it can be EVALUATED for tables of millions of respondents.

  A survey file with integer weights (or a count table) is shorthand for its individual
  respondents: a record of weight `n` in category `k` stands for `n` respondents of weight 1 in
  category `k` (`unitExpand`).  The property speaks about the median of the numeric values of
  those individual respondents (`ScaleSpec.median (respValues vals (unitExpand rs))`), which
  cannot be enumerated when `n` is in the millions.  `medianInt` is the same number computed from
  the tabulated counts by a cumulative scan (`C14.median_int_spec` proves the equality for all
  sizes); the driver op `scale_median_int` evaluates it.
-/
import CrCube.Model.Scale
import CrCube.Spec.ScaleSpec

namespace CrCube.ScaleSpec
open CrCube.Scale

/-- the individual respondents an integer-weighted record list stands for -/
def unitExpand (rs : List SResp) : List SResp :=
  rs.flatMap (fun r => List.replicate r.w.floor.toNat { w := 1, cat := r.cat })

/-- the record's weight is a natural number -/
def natWeight (r : SResp) : Bool := r.w == ((r.w.floor.toNat : Nat) : Rat)

/-- None ↦ NaN (`np.array(dimension.numeric_values)`) -/
def optV : Option Rat → Val
  | none => .nan
  | some q => .fin q

/-- median of the individual respondents' numeric values, from the tabulated counts -/
def medianInt (vals : List (Option Rat)) (rs : List SResp) : Val :=
  weightedMedian (sortedPairs (vals.map optV) ((countsOf vals.length rs).map Val.fin))

/-- number of individual respondents carrying a numeric value -/
def nValuedInt (vals : List (Option Rat)) (rs : List SResp) : Rat :=
  ((valued vals rs).map (·.1)).sum

end CrCube.ScaleSpec
