/-
  What properties C04 and C15 SAY, as executable definitions (no reference to the block
  classes of the library).

  * `signedMerge`: the value of a subtotal is the sum of its addends' values minus the sum of
    its subtrahends' values, addends / subtrahends being the dimension's (valid) elements
    whose id is listed; listed ids that do not exist contribute nothing, a repeated id counts
    once.
  * `mergeAxis`: the table of the data set in which the addend categories have been merged
    into ONE category (addend categories removed, the merged category appended).
  * share of sum: one formula for the whole assembled table (`Blocks.ext` = `np.block`):
    a cell divided by the nansum of ITS row / column / the table taken over BASE rows and
    columns only.
  * the wave difference of two percentages.
-/
import CrCube.Model.Tensor
import CrCube.Model.Subtotals

namespace CrCube
namespace SubSpec

/-- Σ over the `validIds.length` elements of the dimension of `v k` for those whose id is in `ids` -/
def sumListed (validIds ids : List Int) (v : Nat → Val) : Val :=
  vsum validIds.length (fun k => if ids.contains (validIds.getD k 0) then v k else .fin 0)

/-- value of a subtotal "as a signed merge" -/
def signedMerge (validIds pos neg : List Int) (v : Nat → Val) : Val :=
  sumListed validIds pos v - sumListed validIds neg v

/-- does the insertion have a subtrahend that exists? (`is_difference`) -/
def isDifference (validIds neg : List Int) : Bool := neg.any (fun x => validIds.contains x)

/-- positions of the existing elements whose id is listed (each once, in element order) -/
def listedPos (validIds ids : List Int) : List Nat :=
  (List.range validIds.length).filter (fun k => ids.contains (validIds.getD k 0))

/-- number of existing distinct ids listed -/
def nListed (validIds ids : List Int) : Nat := (listedPos validIds ids).length

/-- positions (among `n`) that are NOT merged -/
def keepIdxs (n : Nat) (A : List Nat) : List Nat := (List.range n).filter (fun i => !A.contains i)

/-- The cube array in which the categories at positions `A` of axis `ax` are merged into one
    category: the other categories keep their order, the merged one comes last. -/
def mergeAxis (c : FT) (ax : Nat) (A : List Nat) : FT :=
  let keep := keepIdxs (c.dim ax) A
  { shape := c.shape.set ax (keep.length + 1)
    get := fun ix =>
      let i := ix.getD ax 0
      if i < keep.length then c.get (ix.set ax (keep.getD i 0))
      else sumAt A (fun a => c.get (ix.set ax a)) }

/-- position of the merged category in `mergeAxis c ax A` -/
def mergedPos (n : Nat) (A : List Nat) : Nat := (keepIdxs n A).length

/-- 2-D matrix version: rows at positions `A` merged into one last row -/
def mergeRows (b : Nat → Nat → Val) (nr : Nat) (A : List Nat) : Nat → Nat → Val :=
  fun i j =>
    let keep := keepIdxs nr A
    if i < keep.length then b (keep.getD i 0) j else sumAt A (fun a => b a j)

def mergeCols (b : Nat → Nat → Val) (nc : Nat) (A : List Nat) : Nat → Nat → Val :=
  fun i j =>
    let keep := keepIdxs nc A
    if j < keep.length then b i (keep.getD j 0) else sumAt A (fun a => b i a)

/-- difference of two percentages `c₁/b₁ − c₂/b₂` -/
def pctDiff (c1 b1 c2 b2 : Val) : Val := c1 / b1 - c2 / b2

end SubSpec

/-- `np.block([[body, ins-cols], [ins-rows, intersections]])` -/
def Blocks.ext (b : Blocks) : Nat → Nat → Val := fun i j =>
  if i < b.nr then (if j < b.nc then b.body i j else b.insCols i (j - b.nc))
  else (if j < b.nc then b.insRows (i - b.nr) j else b.inter (i - b.nr) (j - b.nc))

/-- assembled vector of a strand's sums: base values, then the subtotal values -/
def strandExt (v : Nat → Val) (n : Nat) (subs : List Subtotal) : Nat → Val :=
  fun i => if i < n then v i else Stripe.sumVal v (subAt subs (i - n))

namespace ShareSpec

/-- total of row `i` of the assembled table `E` over the `nc` BASE columns (nansum) -/
def rowTotal (E : Nat → Nat → Val) (nc : Nat) (i : Nat) : Val := Val.nansum (tab1 nc (fun j => E i j))
/-- total of column `j` over the `nr` BASE rows -/
def colTotal (E : Nat → Nat → Val) (nr : Nat) (j : Nat) : Val := Val.nansum (tab1 nr (fun i => E i j))
/-- total of the table over BASE cells -/
def tableTotal (E : Nat → Nat → Val) (nr nc : Nat) : Val := Val.nansum ((tab2 nr nc E).flatten)

def rowShare (E : Nat → Nat → Val) (nc : Nat) (i j : Nat) : Val := E i j / rowTotal E nc i
def colShare (E : Nat → Nat → Val) (nr : Nat) (i j : Nat) : Val := E i j / colTotal E nr j
def totalShare (E : Nat → Nat → Val) (nr nc : Nat) (i j : Nat) : Val := E i j / tableTotal E nr nc

/-- strand: value of row `i` of the assembled vector over the total of the BASE rows -/
def strandShare (E : Nat → Val) (n : Nat) (i : Nat) : Val := E i / Val.nansum (tab1 n E)

end ShareSpec
end CrCube
