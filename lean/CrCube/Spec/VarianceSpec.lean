/-
  C11 — what the property SAYS, at respondent level.

  "For every cell, the reported variance of a row, column or table proportion equals the
   weighted variance, among the respondents in that proportion's base, of the indicator that
   is +1 for members of the cell's addends, −1 for members of its subtrahends and 0 otherwise
   (p(1−p) for ordinary cells); the standard deviation is its square root, the standard error
   is sqrt(variance / weighted base), and the margin of error is 1.959964 times the standard
   error.  They are non-negative, and NaN wherever the proportion or its base is undefined."

  Where the proportion / its base is undefined (C03, C04; DESIGN §5 N1, N2):
    * the base is empty (weighted base 0);
    * the cell is a difference in its OWN direction (row proportion of a difference row, column
      proportion of a difference column): no base;
    * difference row × difference column;
    * on a categorical-date dimension, the row / column proportion of a difference that is not
      one-minus-one, in the inserted row / column itself (not at intersections, not the table
      proportion — the weaker reading N1).
-/
import CrCube.Spec.CellSpec

namespace CrCube

/-- Σ_{r ∈ s, B r} w_r · f r -/
def wsumF (s : Survey) (B : Resp → Bool) (f : Resp → Rat) : Rat :=
  ((s.filter B).map (fun r => r.w * f r)).sum

/-- the indicator of a cell: +1 addends, −1 subtrahends, 0 otherwise -/
def indicatorOf (P N : Resp → Bool) (r : Resp) : Rat := if P r then 1 else if N r then -1 else 0

/-- weighted mean of X among the respondents in B (only used when W(B) ≠ 0) -/
def wmean (s : Survey) (B : Resp → Bool) (X : Resp → Rat) : Rat := wsumF s B X / wsum s B

/-- weighted variance of X among the respondents in B: Σ w (X − mean)² / Σ w -/
def wvariance (s : Survey) (B : Resp → Bool) (X : Resp → Rat) : Rat :=
  wsumF s B (fun r => (X r - wmean s B X) * (X r - wmean s B X)) / wsum s B

/-- NaN for an empty base -/
def indicatorVariance (s : Survey) (B P N : Resp → Bool) : Val :=
  if wsum s B = 0 then .nan else .fin (wvariance s B (indicatorOf P N))

/-- a categorical-date difference that is not one-minus-one -/
def Side.waveUndefined (sd : Side) (catDate : Bool) : Bool :=
  catDate && sd.isDiff && !(sd.add.length == 1 && sd.sub.length == 1)

/-- is the proportion of the cell (or its base) undefined by the rules above? -/
def propUndefined (dir : Dir) (R C : Side) (rowsCatDate colsCatDate : Bool) : Bool :=
  (R.isDiff && C.isDiff)
  || (match dir with
      | .row => R.isDiff
      | .col => C.isDiff
      | .table => false)
  || (match dir with
      | .table => false
      | _ => (R.inserted && !C.inserted && R.waveUndefined rowsCatDate)
              || (!R.inserted && C.inserted && C.waveUndefined colsCatDate))

/-- the variance of the cell's proportion in direction `dir` -/
def varianceSpec (d : SliceDesign) (s : Survey) (dir : Dir) (R C : Side)
    (rowsCatDate colsCatDate : Bool) : Val :=
  if propUndefined dir R C rowsCatDate colsCatDate then .nan
  else indicatorVariance s (d.inBase dir R C) (d.isPos R C) (d.isNeg R C)

/-- weighted base of the cell's proportion -/
def baseSpec (d : SliceDesign) (s : Survey) (dir : Dir) (R C : Side) : Rat := wsum s (d.inBase dir R C)

def stdDevSpec (v : Val) : Out := .sqrt v
def stdErrSpec (v : Val) (base : Rat) : Out := .sqrt (v / .fin base)
/-- 1.959964 × standard error -/
def moeSpec (se : Out) : Out := .scale (1959964 / 1000000) se

/-! ### strand -/

/-- the respondents in the base of a strand row: eligible for it (categorical: valid answer;
    multiple response: not missing on the item) -/
def strandBase (v : Var) (S : Side) (r : Resp) : Bool := S.eligible v (r.ans.getD 0 [])
def strandPos (v : Var) (S : Side) (r : Resp) : Bool := v.inAny (r.ans.getD 0 []) S.add
def strandNeg (v : Var) (S : Side) (r : Resp) : Bool := v.inAny (r.ans.getD 0 []) S.sub

/-- strand: a categorical-date difference with several terms on a side has no proportion -/
def strandUndefined (S : Side) (catDate : Bool) : Bool :=
  S.inserted && catDate && !S.add.isEmpty && !S.sub.isEmpty
    && !(S.add.length == 1 && S.sub.length == 1)

def strandVarianceSpec (v : Var) (s : Survey) (S : Side) (catDate : Bool) : Val :=
  if strandUndefined S catDate then .nan
  else indicatorVariance s (strandBase v S) (strandPos v S) (strandNeg v S)

end CrCube
