/-
  C17, what the property SAYS.

  (1) The filtered fraction, read off the response's filter statistics:
        selected / (selected + other) of the weighted complete-case statistics when present
        (1 for a categorical-date filter), else filtered over unfiltered weighted N,
        1 when unspecified and NaN when the denominator is zero.
      `FilterView` is the structured reading of a WELL-FORMED response (`wellFormed`: every enclosing
      object is absent or an object, every leaf is absent, null or a number — interpretation N4).

  (2) The population proportion of a cell at RESPONDENT level: weighted respondents in the cell over
      weighted respondents in its base — the whole table, or (categorical-date dimension) the cell's
      own date, so that each wave projects the full population.

  (3) estimate = proportion · population · fraction; NaN for subtotal differences;
      margin of error = 1.959964 · population · fraction · std-err of that same proportion.
-/
import CrCube.Model.Json
import CrCube.Spec.Survey

namespace CrCube.PopulationSpec
open CrCube

/-! ### (1) fraction -/

structure FilterView where
  complete : Option (Rat × Rat)    -- weighted complete-case (selected, other), when present
  isCatDate : Bool                 -- the filter is a single categorical-date
  filteredN : Option Rat           -- filtered.weighted_n, when specified
  unfilteredN : Option Rat         -- unfiltered.weighted_n, when specified
  deriving Repr, DecidableEq, Inhabited

/-- filtered over unfiltered weighted N: 1 when either is unspecified, NaN when the denominator is zero -/
def ratioOf (filtered unfiltered : Option Rat) : Val :=
  match filtered, unfiltered with
  | some f, some u => if u = 0 then .nan else .fin (f / u)
  | _, _ => .fin 1

def fractionOf (v : FilterView) : Val :=
  match v.complete with
  | some (sel, oth) =>
    if v.isCatDate then .fin 1
    else if sel + oth = 0 then .nan else .fin (sel / (sel + oth))
  | none => ratioOf v.filteredN v.unfilteredN

/-- field of an optional object -/
def field? (j : Option J) (k : String) : Option J :=
  match j with
  | some (.obj kvs) => kvs.lookup k
  | _ => none

def num? : Option J → Option Rat
  | some (.num q) => some q
  | _ => none

/-- (selected, other) of the weighted complete-case statistics, when both are numbers -/
def completeOf (w : Option J) : Option (Rat × Rat) :=
  match num? (field? w "selected"), num? (field? w "other") with
  | some s, some o => some (s, o)
  | _, _ => none

/-- a boolean flag that is literally `true` -/
def flagOf : Option J → Bool
  | some (.bool true) => true
  | _ => false

/-- the structured reading of `result` -/
def viewOf (result : J) : FilterView :=
  let fs := field? (some result) "filter_stats"
  let w := field? (field? fs "filtered_complete") "weighted"
  { complete := completeOf w
    isCatDate := flagOf (field? fs "is_cat_date")
    filteredN := num? (field? (field? (some result) "filtered") "weighted_n")
    unfilteredN := num? (field? (field? (some result) "unfiltered") "weighted_n") }

/-- absent or an object -/
def objOrAbsent : Option J → Bool
  | none => true
  | some (.obj _) => true
  | _ => false

/-- absent, null or a number -/
def leafOk : Option J → Bool
  | none => true
  | some .null => true
  | some (.num _) => true
  | _ => false

/-- `weighted` complete-case statistics: absent, null, `{}`, or an object whose `selected` and `other`
    are numbers -/
def weightedOk : Option J → Bool
  | none => true
  | some .null => true
  | some (.obj []) => true
  | some (.obj kvs) =>
    (match kvs.lookup "selected" with | some (.num _) => true | _ => false) &&
    (match kvs.lookup "other" with | some (.num _) => true | _ => false)
  | _ => false

def catDateOk : Option J → Bool
  | none => true
  | some .null => true
  | some (.bool _) => true
  | _ => false

/-- WELL-FORMED filter statistics (every shape of C17's quantifier: absent, old style, new style, zero,
    null leaves) -/
def wellFormed (result : J) : Bool :=
  let r := some result
  (match result with | .obj _ => true | _ => false) &&
  objOrAbsent (field? r "filter_stats") &&
  objOrAbsent (field? (field? r "filter_stats") "filtered_complete") &&
  weightedOk (field? (field? (field? r "filter_stats") "filtered_complete") "weighted") &&
  catDateOk (field? (field? r "filter_stats") "is_cat_date") &&
  objOrAbsent (field? r "filtered") &&
  leafOk (field? (field? r "filtered") "weighted_n") &&
  objOrAbsent (field? r "unfiltered") &&
  leafOk (field? (field? r "unfiltered") "weighted_n")

/-! ### (2) respondent-level population proportion -/

/-- one display line (row or column) of a table over a survey variable: which answers fall IN it and
    which answers count towards its base. -/
inductive Line where
  | cat (members : List Nat) (valid : List Nat)   -- categorical: raw positions in the line (one, or a
                                                  -- subtotal's addends), raw positions of valid categories
  | mr (item : Nat)                               -- MR item: in = selected, base = selected or other
  deriving Repr, Inhabited

def Line.inn (l : Line) (a : List Nat) : Bool :=
  match l with
  | .cat ms _ => match a with | [c] => ms.contains c | _ => false
  | .mr k => a[k]? == some 0

def Line.base (l : Line) (a : List Nat) : Bool :=
  match l with
  | .cat _ vs => match a with | [c] => vs.contains c | _ => false
  | .mr k => a[k]? == some 0 || a[k]? == some 1

/-- which base a cell's proportion is taken over -/
inductive Within where
  | table      -- no categorical-date dimension: the whole table
  | rowDate    -- rows are categorical dates: within the cell's row
  | colDate    -- columns are categorical dates: within the cell's column
  deriving Repr, DecidableEq, Inhabited

/-- C17's choice; with categorical dates on BOTH dimensions the text is silent — rows are taken,
    as the code does (recorded as finding F9, not alarmed on) -/
def withinOf (rowsCatDate colsCatDate : Bool) : Within :=
  if rowsCatDate then .rowDate else if colsCatDate then .colDate else .table

def ans (r : Resp) (v : Nat) : List Nat := r.ans.getD v []

/-- weighted respondents in the cell (row line `rl` of variable `rv`, column line `cl` of variable `cv`) -/
def cellCount (s : Survey) (rv cv : Nat) (rl cl : Line) : Rat :=
  wsum s (fun r => rl.inn (ans r rv) && cl.inn (ans r cv))

/-- weighted respondents in the cell's base -/
def cellBase (s : Survey) (rv cv : Nat) (rl cl : Line) (w : Within) : Rat :=
  match w with
  | .table => wsum s (fun r => rl.base (ans r rv) && cl.base (ans r cv))
  | .rowDate => wsum s (fun r => rl.inn (ans r rv) && cl.base (ans r cv))
  | .colDate => wsum s (fun r => rl.base (ans r rv) && cl.inn (ans r cv))

/-- the population proportion of a cell -/
def popProportion (s : Survey) (rv cv : Nat) (rl cl : Line) (w : Within) : Val :=
  Val.fin (cellCount s rv cv rl cl) / Val.fin (cellBase s rv cv rl cl w)

/-- 1-D: weighted respondents in the row over the row's base; 1 within each date for a categorical date -/
def strandProportion (s : Survey) (rl : Line) (rowsCatDate : Bool) : Val :=
  if rowsCatDate then .fin 1
  else Val.fin (wsum s (fun r => rl.inn (ans r 0))) / Val.fin (wsum s (fun r => rl.base (ans r 0)))

/-! ### (3) estimates and margins of error -/

def Z : Rat := 1959964 / 1000000

/-- estimate of a cell: NaN for a subtotal difference -/
def estimate (isDiff : Bool) (proportion : Val) (population : Rat) (fraction : Val) : Val :=
  if isDiff then .nan else proportion * Val.fin population * fraction

/-- binomial standard error of a proportion `p` over base `n`: sqrt(p(1-p)/n) -/
def stdErr (p : Val) (n : Rat) : Out :=
  Out.sqrt ((p * (Val.fin 1 - p)) / Val.fin n)

/-- margin of error: 1.959964 · population · fraction · std-err -/
def marginOfError (population : Rat) (fraction : Val) (se : Out) : Out :=
  match fraction with
  | .fin f => Out.scale (Z * (population * f)) se
  | _ => Out.v .nan

end CrCube.PopulationSpec
