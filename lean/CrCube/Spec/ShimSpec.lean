/-
  Specification side of C19: what the property STATEMENT says a reference denotes,
  independent of the order of the rules in the code.

  "an item may be referenced by its alias, its sub-variable id, or its numeric element id
   written as int or string (a number that is no element id is taken as a zero-based
   position) ... all these spellings resolve to the same item ... References that match
   nothing are ignored rather than raising."
-/
import CrCube.Model.Shim

namespace CrCube.ShimSpec
open CrCube.Shim

/-- the sub-variable-id spelling exists only on dimensions whose elements ALL carry an id -/
def svSpell (d : Dim) (it : Item) : List Ref := if d.noSubvarIds then [] else [.str it.subvarId]

/-- the spellings of an item: alias, int element id, decimal element id, and its sub-variable id -/
def spellings (d : Dim) (it : Item) : List Ref :=
  [.str it.alias, .int it.eid, .str (decStr it.eid)] ++ svSpell d it

theorem mem_spellings {d : Dim} {it : Item} {r : Ref} :
    r ∈ spellings d it ↔ (r = .str it.alias ∨ r = .int it.eid ∨ r = .str (decStr it.eid) ∨
                           (d.noSubvarIds = false ∧ r = .str it.subvarId)) := by
  unfold spellings svSpell
  cases h : d.noSubvarIds <;> simp

/-- the number a reference writes, if it writes one canonically: an int, or the decimal
    string of an int (`"7"`, `"-1"`; NOT `" 7"`, `"07"`, `"+7"`, `"1_0"`: the statement says
    nothing about those) -/
def canonNumber : Ref → Option Int
  | .int n => some n
  | .str s => match pyInt s with
              | some n => if decStr n = s then some n else none
              | none => none
  | .null => none

/-- a string Python's `int()` accepts but which is not the canonical decimal of its value -/
def nonCanonicalNumber : Ref → Bool
  | .str s => (pyInt s).isSome && (canonNumber (.str s)).isNone
  | _ => false

/-- "a number that is no element id is taken as a zero-based position" -/
def positionOf (d : Dim) (r : Ref) : Option Nat :=
  match canonNumber r with
  | some n => if n ∉ d.eids ∧ 0 ≤ n ∧ n < (d.size : Int) then some n.toNat else none
  | none => none

/-- does reference `r` denote the item at index `k`, according to the statement? -/
def denotesAt (d : Dim) (r : Ref) (k : Nat) : Bool :=
  match d.items[k]? with
  | some it => decide (r ∈ spellings d it) || (positionOf d r == some k)
  | none => false

/-- all items a reference denotes -/
def denotes (d : Dim) (r : Ref) : List Nat :=
  (List.range d.size).filter (denotesAt d r)

inductive SpecRes where
  | item (k : Nat)        -- exactly one item
  | nothing               -- matches nothing: must be ignored (no exception)
  | ambiguous             -- the statement gives two different items: any resolver must pick
  | unspecified           -- a non-canonical number string matching no spelling: not covered
  deriving DecidableEq, Repr

/-- the spec resolver -/
def resolve (d : Dim) (r : Ref) : SpecRes :=
  match denotes d r with
  | [k] => .item k
  | [] => if nonCanonicalNumber r then .unspecified else .nothing
  | _ => .ambiguous

def svStr (d : Dim) (it : Item) : List String := if d.noSubvarIds then [] else [it.subvarId]

/-- the strings that spell an item -/
def strs (d : Dim) (it : Item) : List String := [it.alias, decStr it.eid] ++ svStr d it

theorem mem_strs {d : Dim} {it : Item} {s : String} :
    s ∈ strs d it ↔ (s = it.alias ∨ s = decStr it.eid ∨ (d.noSubvarIds = false ∧ s = it.subvarId)) := by
  unfold strs svStr
  cases h : d.noSubvarIds <;> simp

def item (d : Dim) (i : Nat) : Item := d.items.getD i default

/-- items `i ≠ j` share no spelling: no string spells both, and their element ids differ -/
def PairOK (d : Dim) (i j : Nat) : Prop :=
  i ≠ j → (∀ s ∈ strs d (item d i), s ∉ strs d (item d j)) ∧ (item d i).eid ≠ (item d j).eid

instance (d : Dim) (i j : Nat) : Decidable (PairOK d i j) := by
  unfold PairOK; exact inferInstance

/-- the alias / sub-variable id of item `i` does not read as the POSITION of another item -/
def PosOK (d : Dim) (i : Nat) : Prop :=
  ∀ s ∈ [(item d i).alias] ++ svStr d (item d i),
    positionOf d (.str s) = none ∨ positionOf d (.str s) = some i

instance (d : Dim) (i : Nat) : Decidable (PosOK d i) := by
  unfold PosOK; exact inferInstance

/-- `NoCollision`: no string spells two different items, element ids are distinct, and no
    alias / sub-variable id reads as the position of a different item. -/
def NoCollision (d : Dim) : Prop :=
  (∀ i, i < d.size → ∀ j, j < d.size → PairOK d i j) ∧ (∀ i, i < d.size → PosOK d i)

instance (d : Dim) : Decidable (NoCollision d) := by
  unfold NoCollision; exact inferInstance

/-! ### spec-level consumers: the same analysis, but references resolved by `denotes` -/

/-- resolve a list of references to item indices; `none` when some reference is ambiguous or
    unspecified (then the statement does not determine the output) -/
def resolveAll (d : Dim) : List Ref → Option (List (Option Nat))
  | [] => some []
  | r :: rs =>
    match resolve d r, resolveAll d rs with
    | .item k, some l => some (some k :: l)
    | .nothing, some l => some (none :: l)
    | _, _ => none

/-- explicit order at the level of the statement: named non-derived items first (each once,
    in the order named), then the remaining non-derived items in payload order -/
def specExplicit (d : Dim) (ks : List (Option Nat)) : List Nat :=
  let base := (List.range d.size).filter (fun k => !(item d k).derived)
  let named := (ks.filterMap id).filter (fun k => k ∈ base)
  let named := named.eraseDups
  named ++ base.filter (fun k => k ∉ named)

def specFixed (ks : List (Option Nat)) : List Nat := ks.filterMap id

/-- element transform of every item: the LAST entry whose key denotes the item wins -/
def specXforms (d : Dim) (ks : List (Option Nat)) (vs : List ElXf) : List ElXf :=
  (List.range d.size).map fun k =>
    (((ks.zip vs).filter (fun p => p.1 == some k)).getLast?.map (·.2)).getD {}

/-! ### "the same transform, spelled differently" -/

/-- two references "mean the same" at the level of the statement: the same single item, or
    both nothing -/
def SameItem (d : Dim) (r r' : Ref) : Prop :=
  (∃ k, resolve d r = .item k ∧ resolve d r' = .item k) ∨
  (resolve d r = .nothing ∧ resolve d r' = .nothing)

/-- pointwise relation of two lists of equal length -/
inductive ListRel {α : Type} (R : α → α → Prop) : List α → List α → Prop
  | nil : ListRel R [] []
  | cons {a b : α} {l l' : List α} : R a b → ListRel R l l' → ListRel R (a :: l) (b :: l')

def optRel {α : Type} (R : α → α → Prop) : Option α → Option α → Prop
  | none, none => True
  | some a, some b => R a b
  | _, _ => False

/-- two transforms dicts that differ only in HOW they spell their references -/
structure SameRefs (d : Dim) (x x' : DimXf) : Prop where
  elements : optRel (fun e e' => e.mode = .absent ∧ e'.mode = .absent ∧
                ListRel (fun p p' => SameItem d p.1 p'.1 ∧ p.2 = p'.2) e.entries e'.entries)
              x.elements x'.elements
  orderIds : optRel (ListRel (SameItem d)) x.orderIds x'.orderIds
  fixedTop : optRel (ListRel (SameItem d)) x.fixedTop x'.fixedTop
  fixedBottom : optRel (ListRel (SameItem d)) x.fixedBottom x'.fixedBottom
  opposing : optRel (SameItem d) x.opposing x'.opposing

/-! ### datetime -/

/-- no datetime value is a digit string naming the position id of an element -/
def DtNoCollision (d : DtDim) : Prop :=
  ∀ it ∈ d.items, ∀ v, it.value = some v → isNumeric v = true →
    dtLookup (Nat.ofDigitChars 10 v.toList 0) d.items = none

instance (d : DtDim) : Decidable (DtNoCollision d) := by
  unfold DtNoCollision; exact inferInstance

end CrCube.ShimSpec
