/-
  SPECIFICATION of the cube-response format (the dimension part): what the Crunch back end sends
  for a survey design.  `renderDims` is written independently of the decoder in Model/Glue.lean;
  the round-trip theorem (Props/C01_Glue.lean) says the library's parsing recovers the design from it.

  A design is a list of variables (`RVar`):
    * categorical kinds (cat / cat_date / logical): categories in DATA order (= payload axis order);
      optionally the typedef lists them in another order (`typedefPerm`) and carries `order` = the ids
      in data order;
    * enum kinds (datetime / text / binned numeric): elements with an opaque `value`;
    * arrays (multiple response / categorical array): items (sub-variable elements) × shared categories,
      two dimension dicts sharing the references (alias, subreferences), categories-first when
      `transposed`.
  Every dict may carry further keys (`extra`, …): anything the back end adds (names, numeric values,
  descriptions, view, format, missing_reasons, …) — quantified over in the theorems.

  `harness/props/c01_glue.py` checks, for every generated design, that `renderDims` of it IS the
  `result.dimensions` list the generator hands to the library (JSON equality).
  No Mathlib; executable.
-/
import CrCube.Model.Glue

namespace CrCube.Glue
open CrCube

/-- the `missing` key: absent, null, or a boolean -/
abbrev RMissing := Option (Option Bool)

def RMissing.flag : RMissing → Bool
  | some (some true) => true
  | _ => false

def RMissing.field : RMissing → List (String × J)
  | none => []
  | some none => [("missing", .null)]
  | some (some b) => [("missing", .bool b)]

structure RCat where
  id : Int
  missing : RMissing := some (some false)
  selected : Bool := false            -- carries `"selected": true`
  date : Option String := none        -- carries `"date": …`
  extra : List (String × J) := []     -- name, numeric_value, …
  deriving Repr, Inhabited

structure RElem where
  id : Int
  missing : RMissing := some (some false)
  value : J                           -- always present
  extra : List (String × J) := []
  deriving Repr, Inhabited

structure RItem where
  id : Int
  missing : RMissing := some (some false)
  refs : List (String × J) := []      -- the item's references dict (alias, name, …); also its subreference
  valueExtra : List (String × J) := []  -- other keys of `value` (derived, id)
  extra : List (String × J) := []
  deriving Repr, Inhabited

inductive RKind where
  | cat | catDate | logical | datetime | text | binned | mr | ca
  deriving DecidableEq, Repr, Inhabited

structure RVar where
  kind : RKind
  alias : String
  cats : List RCat := []              -- DATA order
  typedefPerm : Option (List Nat) := none   -- typedef.categories = [cats[i] for i in perm], plus `order`
  elems : List RElem := []
  items : List RItem := []
  transposed : Bool := false
  refsExtra : List (String × J) := []
  typeExtra : List (String × J) := []       -- other keys of the (main) dimension's `type`
  subtypeExtra : List (String × J) := []    -- other keys of an enum's `subtype`
  catTypeExtra : List (String × J) := []    -- arrays: other keys of the categorical dimension's `type`
  dimExtra : List (String × J) := []        -- other top-level keys (`derived`)
  deriving Repr, Inhabited

def jInt (i : Int) : J := .num (i : Rat)

/-! ## rendering -/

def renderCat (c : RCat) : J :=
  .obj ([("id", jInt c.id)] ++ c.missing.field
        ++ (if c.selected then [("selected", .bool true)] else [])
        ++ (match c.date with | some d => [("date", J.str d)] | none => [])
        ++ c.extra)

def renderElem (e : RElem) : J :=
  .obj ([("id", jInt e.id)] ++ e.missing.field ++ [("value", e.value)] ++ e.extra)

def renderItem (it : RItem) : J :=
  .obj ([("id", jInt it.id)] ++ it.missing.field
        ++ [("value", .obj (("references", .obj it.refs) :: it.valueExtra))] ++ it.extra)

/-- the categories as the typedef lists them -/
def RVar.typedefCats (v : RVar) : List RCat :=
  match v.typedefPerm with
  | none => v.cats
  | some p => p.filterMap (fun i => v.cats[i]?)

def RVar.orderField (v : RVar) : List (String × J) :=
  match v.typedefPerm with
  | none => []
  | some _ => [("order", .arr (v.cats.map (fun c => jInt c.id)))]

def RVar.isArray (v : RVar) : Bool :=
  match v.kind with
  | .mr | .ca => true
  | _ => false

def RVar.references (v : RVar) : J :=
  .obj ([("alias", J.str v.alias)]
        ++ (if v.isArray then [("subreferences", J.arr (v.items.map (fun it => .obj it.refs)))] else [])
        ++ v.refsExtra)

/-- the categorical dimension dict of a variable (main dimension of the categorical kinds, second
    dimension of arrays) -/
def RVar.catDim (v : RVar) (typeExtra : List (String × J)) : J :=
  .obj ([("references", v.references),
         ("type", .obj ([("class", .str "categorical"),
                         ("categories", .arr (v.typedefCats.map renderCat))]
                        ++ v.orderField ++ typeExtra))] ++ v.dimExtra)

def RKind.subtypeClass : RKind → String
  | .datetime => "datetime"
  | .text => "text"
  | .binned => "numeric"
  | _ => "variable"

/-- an enum dimension dict: elements + subtype class -/
def RVar.enumDim (v : RVar) (elements : List J) : J :=
  .obj ([("references", v.references),
         ("type", .obj ([("class", .str "enum"), ("elements", .arr elements),
                         ("subtype", .obj (("class", .str v.kind.subtypeClass) :: v.subtypeExtra))]
                        ++ (if v.isArray then [] else v.typeExtra)))] ++ v.dimExtra)

/-- the dimension dicts one variable contributes -/
def RVar.dims (v : RVar) : List J :=
  match v.kind with
  | .cat | .catDate | .logical => [v.catDim v.typeExtra]
  | .datetime | .text | .binned => [v.enumDim (v.elems.map renderElem)]
  | .mr => [v.enumDim (v.items.map renderItem), v.catDim v.catTypeExtra]
  | .ca =>
    if v.transposed then [v.catDim v.catTypeExtra, v.enumDim (v.items.map renderItem)]
    else [v.enumDim (v.items.map renderItem), v.catDim v.catTypeExtra]

/-- `result.dimensions` of the response for a design -/
def renderDims (vars : List RVar) : List J := vars.flatMap RVar.dims

/-- a whole response: `{"result": {"dimensions": …, <measures, counts, …>}, <query …>}` -/
def renderResponse (vars : List RVar) (resultExtra topExtra : List (String × J)) : J :=
  .obj (("result", .obj (("dimensions", .arr (renderDims vars)) :: resultExtra)) :: topExtra)

/-! ## the typed design the specification assigns -/

def RVar.catFlags (v : RVar) : List Bool := v.cats.map (·.missing.flag)
def RVar.elemFlags (v : RVar) : List Bool := v.elems.map (·.missing.flag)
def RVar.itemFlags (v : RVar) : List Bool := v.items.map (·.missing.flag)

/-- categorical kinds: one raw axis over ALL categories; arrays: the items NOT flagged missing ×
    all shared categories -/
def RVar.toTVar (v : RVar) : TVar :=
  match v.kind with
  | .cat | .catDate | .logical => ⟨⟨.cat, v.cats.length, v.catFlags, false⟩, false, [], 0⟩
  | .datetime | .text | .binned => ⟨⟨.cat, v.elems.length, v.elemFlags, false⟩, false, [], 0⟩
  | .mr => ⟨⟨.arr, (validIdxs v.itemFlags).length, v.catFlags, true⟩, false, validIdxs v.itemFlags, v.items.length⟩
  | .ca => ⟨⟨.arr, (validIdxs v.itemFlags).length, v.catFlags, false⟩, v.transposed, validIdxs v.itemFlags, v.items.length⟩

def designOf (vars : List RVar) : List TVar := vars.map RVar.toTVar

/-- apparent kinds of a typed variable, in payload order -/
def TVar.dks (t : TVar) : List DK := if t.transposed then t.var.dks.reverse else t.var.dks

def designKinds (vars : List RVar) : List DK := (designOf vars).flatMap TVar.dks

/-- the library's dimension types the specification expects, all dimensions, payload order -/
def RVar.types (v : RVar) : List DT :=
  match v.kind with
  | .cat => [.cat]
  | .catDate => [.catDate]
  | .logical => [.logical]
  | .datetime => [.datetime]
  | .text => [.text]
  | .binned => [.binnedNumeric]
  | .mr => [.mrSubvar, .mrCat]
  | .ca => if v.transposed then [.caCat, .caSubvar] else [.caSubvar, .caCat]

/-! ## well-formedness (decidable; the hypothesis of the round-trip theorem) -/

def lacks (kvs : List (String × J)) (keys : List String) : Bool :=
  keys.all (fun k => (kvs.lookup k).isNone)

/-- the categories make the dimension "logical": some `selected`, ids exactly [1, 0, -1] -/
def logicalCats (cs : List RCat) : Bool :=
  cs.any (·.selected) && cs.map (·.id) == [1, 0, -1]

def RCat.wf (c : RCat) : Bool := lacks c.extra ["id", "missing", "selected", "date"]
def RElem.wf (e : RElem) : Bool := lacks e.extra ["id", "missing", "value"]
def RItem.wf (it : RItem) : Bool :=
  lacks it.extra ["id", "missing", "value"] && lacks it.valueExtra ["references"]

def formatOk (kvs : List (String × J)) : Bool :=
  match kvs.lookup "format" with
  | none => true
  | some (.obj _) => true
  | some j => !j.truthy

def RVar.wf (v : RVar) : Bool :=
  lacks v.refsExtra ["alias", "subreferences"] && formatOk v.refsExtra
  && lacks v.typeExtra ["class", "categories", "elements", "order", "subtype"]
  && lacks v.catTypeExtra ["class", "categories", "elements", "order", "subtype"]
  && lacks v.subtypeExtra ["class"]
  && lacks v.dimExtra ["type", "references"]
  && v.cats.all RCat.wf && v.elems.all RElem.wf && v.items.all RItem.wf
  && (match v.typedefPerm with
      | none => true
      | some p => (v.cats.map (·.id)).Nodup && (List.range v.cats.length).all (p.contains ·))
  && (match v.kind with
      | .mr => logicalCats v.cats && v.typedefPerm.isNone && !v.items.isEmpty && !v.transposed
      | .ca => !logicalCats v.typedefCats && !v.items.isEmpty
      | .logical => logicalCats v.cats && v.typedefPerm.isNone && !v.transposed
      | .cat => !logicalCats v.typedefCats && v.cats.all (·.date.isNone) && !v.transposed
      | .catDate => !logicalCats v.typedefCats && v.cats.any (·.date.isSome) && !v.transposed
      | .datetime => !v.transposed && v.elems.all (fun e => isDict e.value || hashable e.value)
      | _ => !v.transposed)

/-- a well-formed design: every variable well-formed, aliases pairwise distinct -/
def wfDesignB (vars : List RVar) : Bool :=
  vars.all RVar.wf && (vars.map (·.alias)).Nodup

end CrCube.Glue
