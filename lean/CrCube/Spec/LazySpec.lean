/-
  Specification side of C18: what "a fresh evaluation on pristine copies" is (`Lazy.fresh`),
  when an analysis function may be plugged into the state machine (`Local`), and the orbit the
  caller-owned dicts stay in (`SideOk`).
-/
import CrCube.Model.Lazy

namespace CrCube.LazySpec
open CrCube.Shim CrCube.Lazy

section
variable {V : Type} (eval : Nat → Nat → Caller → V) (needs : Nat → Bool × Bool)

/-- property `p` only looks at the dimensions it declares -/
def Local : Prop :=
  ∀ p k (c c' : Caller), ((needs p).1 = true → c.rows = c'.rows) → ((needs p).2 = true → c.cols = c'.cols) →
    eval p k c = eval p k c'

/-- a caller-owned side is either still pristine or exactly the shimmed pristine one -/
def SideOk (pr s : Side) : Prop := s = pr ∨ s = shimSide pr

end

end CrCube.LazySpec
