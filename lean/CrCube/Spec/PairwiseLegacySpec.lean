/-
  Statement level of the pairwise comparison of column SCALE MEANS and of the column margin
  proportions (legacy pairwise objects; property C13 with the scale statistics of C14).

  A column x counts respondents; those whose row category carries a numeric value v have
      n_x = Σ w            m_x = Σ w·v / n_x            v_x = Σ w·(v − m_x)² / n_x
  (`ScaleSpec.sumW / mean / var`: weighted count, weighted mean, POPULATION variance – C14).

  Two statement-level forms of "two-sample t for means":

     unpooled     t = (m_b − m_a) / sqrt( v_a/n_a + v_b/n_b )                      (`tUnpooled`)
     pooled       t = (m_b − m_a) / sqrt( s² · (1/n_a + 1/n_b) ),
                  s² = ((n_a − 1)·v_a + (n_b − 1)·v_b) / (n_a + n_b − 2)           (`tPooledSpec`)

  The library implements the POOLED (Student) form with n_a + n_b − 2 degrees of freedom – the
  degrees of freedom C13 names for the column test – NOT Welch–Satterthwaite (`welchDfSpec` is
  given for reference only).  C13 fixes no formula for scale means, so the weaker reading is taken:
  the spec is the pooled form; `C13.legacy_pooled_eq_unpooled_equal_n` shows both forms coincide
  for columns of equal n.

  p = 2·(1 − T_df(|t|)).  Index set of selected column a = the displayed columns b with p(a,b) < alpha
  and, in only-larger mode, t(a,b) < 0 (b's mean smaller than a's); a itself never qualifies because
  p(a,a) is 1 (or NaN) and alpha < 1.
-/
import CrCube.Model.Val
import CrCube.Spec.ScaleSpec

namespace CrCube.PairwiseLegacySpec
open CrCube

/-- one respondent: weight, numeric value of the row category (none: no value), membership in
    each (full) column -/
structure LResp where
  w : Rat
  value : Option Rat
  colIn : List Bool
  deriving Repr, Inhabited

/-- (weight, value) of the numeric-valued respondents of column j -/
def valuedOf (rs : List LResp) (j : Nat) : List (Rat × Rat) :=
  rs.filterMap (fun r => if r.colIn.getD j false then r.value.map (fun v => (r.w, v)) else none)

def nSpec (rs : List LResp) (j : Nat) : Val := .fin (ScaleSpec.sumW (valuedOf rs j))
def meanSpec (rs : List LResp) (j : Nat) : Val := ScaleSpec.mean (valuedOf rs j)
def varSpec (rs : List LResp) (j : Nat) : Val := ScaleSpec.var (valuedOf rs j)

/-- unpooled two-sample statistic (the form C13 gives for proportions, with v in place of p(1−p)) -/
def tUnpooled (ma na va mb nb vb : Val) : Out := .divSqrt (mb - ma) (va / na + vb / nb)

def pooledVarSpec (na va nb vb : Val) : Val := ((na - 1) * va + (nb - 1) * vb) / (na + nb - 2)

/-- THE POOLED FORM (what the library computes) -/
def tPooledSpec (ma na va mb nb vb : Val) : Out :=
  .divSqrt (mb - ma) (pooledVarSpec na va nb vb * ((1 : Val) / na + (1 : Val) / nb))

def dfSpec (na nb : Val) : Val := na + nb - 2

/-- Welch–Satterthwaite degrees of freedom – NOT what the library uses for scale means -/
def welchDfSpec (va na vb nb : Val) : Val :=
  let x := va / na; let y := vb / nb
  (x + y) * (x + y) / (x * x / (na - 1) + y * y / (nb - 1))

def pSpec (t : Out) (na nb : Val) : Out := .tTail2 t (dfSpec na nb)

def tScaleSpec (rs : List LResp) (a b : Nat) : Out :=
  tPooledSpec (meanSpec rs a) (nSpec rs a) (varSpec rs a) (meanSpec rs b) (nSpec rs b) (varSpec rs b)

def pScaleSpec (rs : List LResp) (a b : Nat) : Out := pSpec (tScaleSpec rs a b) (nSpec rs a) (nSpec rs b)

/-- index set of the statement: displayed columns b (positions) with p < alpha and, in only-larger
    mode, a smaller mean than the selected column's; `pv a b` = evaluated p-value -/
def indexSet (nCols : Nat) (alpha : Rat) (onlyLarger : Bool) (pv : Nat → Nat → Val)
    (smaller : Nat → Nat → Bool) (a : Nat) : List Nat :=
  (List.range nCols).filter (fun b => b != a && Val.lt (pv a b) (.fin alpha) && (!onlyLarger || smaller a b))

/-! ### summary test: column margin proportions -/

/-- t = (p_b − p_a)/sqrt(p_a(1−p_a)/N + p_b(1−p_b)/N) on the margin proportions p_x = base_x / N -/
def tSummarySpec (pa pb N : Val) : Out := .divSqrt (pb - pa) (pa * (1 - pa) / N + pb * (1 - pb) / N)

end CrCube.PairwiseLegacySpec
