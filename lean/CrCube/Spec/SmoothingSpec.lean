/-
  C20, what the property SAYS (index level, no convolution, no padding):

    smoothed[t] = NaN                                   for t < w-1
    smoothed[t] = (v[t-w+1] + … + v[t]) / w             for t ≥ w-1

  applied when the dimension is categorical-date and 2 ≤ w ≤ number of periods; otherwise the
  unsmoothed values are returned unchanged.  Default window 2 when none is given.
-/
import CrCube.Model.Val

namespace CrCube.SmoothingSpec

/-- arithmetic mean of `v[t-w+1 .. t]` (NaN / ±inf propagate as in IEEE) -/
def windowMean (w : Nat) (v : List Val) (t : Nat) : Val :=
  Val.sum ((List.range w).map (fun j => v.getD (t + 1 - w + j) Val.nan)) / Val.ofNat w

/-- the smoothed value at period `t` -/
def smoothedAt (w : Nat) (v : List Val) (t : Nat) : Val :=
  if t + 1 < w then Val.nan else windowMean w v t

/-- the smoothed series -/
def smoothSeries (w : Nat) (v : List Val) : List Val :=
  (List.range v.length).map (smoothedAt w v)

/-- does smoothing apply? (C20, last sentence) -/
def applies (isCatDate : Bool) (w : Int) (nPeriods : Nat) : Bool :=
  isCatDate && decide (2 ≤ w) && decide (w ≤ (nPeriods : Int))

/-- the window: the one given, else 2 -/
def windowOf (given : Option Int) : Int :=
  match given with
  | some k => if k = 0 then 2 else k
  | none => 2

/-- a series (one row of a 2-D measure, or a 1-D measure) after the transform -/
def smoothed (isCatDate : Bool) (w : Int) (v : List Val) : List Val :=
  if applies isCatDate w v.length then smoothSeries w.toNat v else v

/-- a 2-D measure: every row independently -/
def smoothedRows (isCatDate : Bool) (w : Int) (m : List (List Val)) : List (List Val) :=
  m.map (smoothed isCatDate w)

/-- scale mean of one column of proportions: Σ value·p / Σ p over the rows that have a numeric value -/
def scaleMean (values props : List Val) : Val :=
  let pairs := (List.zip values props).filter (fun (x : Val × Val) => !x.1.isNan)
  Val.sum (pairs.map (fun x => x.1 * x.2)) / Val.sum (pairs.map (·.2))

end CrCube.SmoothingSpec
