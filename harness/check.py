#!/usr/bin/env python3
"""check.py <Cxx> [--tier quick|thorough] [--replay path]

Decides one property (DESIGN.md §2.8):
  1. Lean: `lake build`, forbidden-token grep, axiom audit of the property's theorems.
  2. Correspondence: corpus + generated cases through the property's seams, real library
     (in-process, from /repo's working tree) versus the Lean model/spec driver.
  3. All agree -> evidence, exit 0.
  4. Otherwise failing-input search, known-findings filter, VIOLATION line, exit 1.
  5. Harness faults -> exit 2.
"""
import argparse
import fcntl
import glob
import hashlib
import importlib
import json
import os
import random
import re
import subprocess
import sys
import time
import traceback

HERE = os.path.dirname(os.path.abspath(__file__))
VERIF = os.path.dirname(HERE)
sys.path.insert(0, HERE)

import common  # noqa: E402
from common import HarnessFault  # noqa: E402

LEAN_DIR = os.path.join(VERIF, "lean")
ALLOWED_AXIOMS = {"propext", "Classical.choice", "Quot.sound"}
FORBIDDEN = re.compile(r"\b(sorry|admit|native_decide|bv_decide|implemented_by|unsafe)\b|^\s*axiom\s|maxHeartbeats\s+0\b",
                       re.M)

TRUSTED_BASE = [
    "Lean 4.33.0 kernel; axioms propext, Classical.choice, Quot.sound only (audited by #print axioms on every run)",
    "Mathlib v4.33.0 lemmas imported by proof files (single modules)",
    "Spec.cubeOf: formal tabulation contract of the Crunch back end (cross-checked against the Python tabulator on every case)",
    "correspondence harness: Python generator/tabulator, canonicaliser (rel 1e-9 / abs 1e-12), Out-term evaluator (numpy sqrt, scipy norm/t cdf), Lean JSON driver executed by `lean --run`",
    "IEEE rounding not modelled: model is exact over Q, compared with tolerance on dyadic-rational inputs",
]


# ---------------------------------------------------------------------------------------
# Lean side


def strip_lean_comments(src):
    # block comments (nested not handled beyond one level, good enough for our sources)
    out = []
    i = 0
    depth = 0
    n = len(src)
    while i < n:
        if src.startswith("/-", i):
            depth += 1
            i += 2
        elif src.startswith("-/", i) and depth > 0:
            depth -= 1
            i += 2
        elif depth > 0:
            i += 1
        elif src.startswith("--", i):
            j = src.find("\n", i)
            i = n if j < 0 else j
        else:
            out.append(src[i])
            i += 1
    return "".join(out)


def lean_sources():
    files = sorted(glob.glob(os.path.join(LEAN_DIR, "CrCube", "**", "*.lean"), recursive=True))
    files += [os.path.join(LEAN_DIR, "Main.lean"), os.path.join(LEAN_DIR, "CrCube.lean")]
    return [f for f in files if os.path.exists(f)]


def sources_hash():
    h = hashlib.sha256()
    for f in lean_sources():
        h.update(f.encode())
        h.update(open(f, "rb").read())
    return h.hexdigest()


def forbidden_hits():
    hits = []
    for f in lean_sources():
        body = strip_lean_comments(open(f).read())
        # string literals may mention the words (e.g. in messages); drop them
        body = re.sub(r'"(?:[^"\\]|\\.)*"', '""', body)
        for m in FORBIDDEN.finditer(body):
            hits.append("%s: %s" % (os.path.relpath(f, VERIF), m.group(0).strip()))
    return hits


def lean_build_and_audit(theorems, prop_modules, tier="quick"):
    """returns dict(ok, build_ok, failed: [names], axioms: {thm: [...]}, detail)"""
    if isinstance(prop_modules, str):
        prop_modules = [prop_modules]
    prop_module = prop_modules[0]
    os.makedirs(os.path.join(LEAN_DIR, ".lake"), exist_ok=True)
    lock = open(os.path.join(LEAN_DIR, ".lake", "verif.lock"), "w")
    fcntl.flock(lock, fcntl.LOCK_EX)
    try:
        t0 = time.time()
        p = subprocess.run(["lake", "build", "CrCube"], cwd=LEAN_DIR, capture_output=True, text=True)
        build_ok = p.returncode == 0
        detail = ""
        if not build_ok:
            detail = (p.stdout + p.stderr)[-3000:]
        res = {"build_ok": build_ok, "detail": detail, "axioms": {}, "failed": [], "build_s": time.time() - t0}
        hits = forbidden_hits()
        res["forbidden"] = hits
        if not build_ok:
            # does the property's own module still build?  (a break elsewhere is not this property's)
            p2 = subprocess.run(["lake", "build"] + list(prop_modules), cwd=LEAN_DIR, capture_output=True, text=True)
            if p2.returncode != 0:
                res["failed"] = list(theorems)
                res["ok"] = False
                return res
        # audit (cached on source hash)
        cache_path = os.path.join(LEAN_DIR, ".lake", "audit_cache.json")
        key = sources_hash() + "|" + ",".join(theorems)
        cache = {}
        if os.path.exists(cache_path):
            try:
                cache = json.load(open(cache_path))
            except Exception:
                cache = {}
        if key in cache:
            res["axioms"] = cache[key]
        else:
            os.makedirs(os.path.join(LEAN_DIR, ".lake", "audit"), exist_ok=True)
            af = os.path.join(LEAN_DIR, ".lake", "audit", "Audit_%s.lean" % prop_module.split(".")[-1])
            with open(af, "w") as fh:
                for pm in prop_modules:
                    fh.write("import %s\n" % pm)
                for t in theorems:
                    fh.write("#print axioms %s\n" % t)
            pa = subprocess.run(["lake", "env", "lean", af], cwd=LEAN_DIR, capture_output=True, text=True)
            out = pa.stdout + pa.stderr
            axioms = {}
            for t in theorems:
                m = re.search(r"'%s' depends on axioms: \[([^\]]*)\]" % re.escape(t), out, re.S)
                if m:
                    axioms[t] = [a.strip() for a in m.group(1).replace("\n", " ").split(",") if a.strip()]
                elif re.search(r"'%s' does not depend on any axioms" % re.escape(t), out):
                    axioms[t] = []
                else:
                    axioms[t] = None
            res["axioms"] = axioms
            if pa.returncode == 0:
                cache = {key: axioms}
                json.dump(cache, open(cache_path, "w"))
            else:
                res["detail"] += out[-2000:]
        for t in theorems:
            ax = res["axioms"].get(t)
            if ax is None or not set(ax) <= ALLOWED_AXIOMS:
                res["failed"].append(t)
        res["leanchecker"] = None
        if tier == "thorough" and not res["failed"]:
            # independent re-check of the compiled .olean of the property module (and what it imports)
            pc = subprocess.run(["lake", "env", "leanchecker"] + list(prop_modules), cwd=LEAN_DIR, capture_output=True, text=True)
            res["leanchecker"] = pc.returncode
            if pc.returncode != 0:
                res["failed"] = list(theorems)
                res["detail"] += "leanchecker failed: " + (pc.stdout + pc.stderr)[-1500:]
        # a build break in a module this property does not depend on is not this property's failure
        res["ok"] = (not res["failed"]) and not hits
        if not build_ok:
            res["detail"] = "NOTE: full library build failed elsewhere; this property's module builds. " + res["detail"][-1500:]
        return res
    finally:
        fcntl.flock(lock, fcntl.LOCK_UN)
        lock.close()


# ---------------------------------------------------------------------------------------
# context handed to property modules


class Ctx:
    def __init__(self, prop, tier, seed):
        self.prop = prop
        self.tier = tier
        self.seed = seed
        self.rng = random.Random("%s|%s|%d" % (prop, tier, seed))
        self.quick = tier == "quick"
        self.dist = {}      # distribution counters filled by the module

    def n(self, quick, thorough):
        return quick if self.quick else thorough

    def count(self, key, inc=1):
        self.dist[key] = self.dist.get(key, 0) + inc

    def lean(self, ops):
        if self.quick:
            return common.lean_run(ops)
        return common.lean_run_parallel(ops, nproc=8)


def load_known():
    p = os.path.join(VERIF, "known_findings.json")
    if not os.path.exists(p):
        return []
    return json.load(open(p))


class Multi:
    """a property's main module plus its extension modules props/cXX_*.py (same contract; each case is
    tagged with the module that generated it)."""

    def __init__(self, prop):
        self.main = importlib.import_module("props.%s" % prop.lower())
        self.mods = {"main": self.main}
        for f in sorted(glob.glob(os.path.join(HERE, "props", "%s_*.py" % prop.lower()))):
            name = os.path.basename(f)[:-3]
            self.mods[name] = importlib.import_module("props.%s" % name)

    def of(self, case):
        return self.mods.get(case.get("_mod", "main"), self.main) if isinstance(case, dict) else self.main

    def all(self, attr, default=None):
        out = []
        for m in self.mods.values():
            v = getattr(m, attr, default)
            if v is None:
                continue
            if isinstance(v, str):
                v = [v]
            for x in v:
                if x not in out:
                    out.append(x)
        return out

    def generate(self, ctx):
        cases = []
        for name, m in self.mods.items():
            for c in m.generate(ctx):
                if name != "main":
                    c["_mod"] = name
                cases.append(c)
        return cases

    def lean_ops(self, case):
        return self.of(case).lean_ops(case)

    def evaluate(self, case, louts, ctx):
        return self.of(case).evaluate(case, louts, ctx)

    def describe(self, case):
        m = self.of(case)
        return m.describe(case) if hasattr(m, "describe") else case

    def shrink_candidates(self, case):
        m = self.of(case)
        if not hasattr(m, "shrink_candidates"):
            return
        for c in m.shrink_candidates(case):
            if "_mod" in case:
                c["_mod"] = case["_mod"]
            yield c


def evaluate_cases(mod, ctx, cases):
    """run cases through lean + impl; returns list of (case, findings, nontrivial_key)."""
    all_ops = []
    spans = []
    for c in cases:
        ops = mod.lean_ops(c)
        spans.append((len(all_ops), len(ops)))
        all_ops.extend(ops)
    outs = ctx.lean(all_ops)
    results = []
    for c, (a, k) in zip(cases, spans):
        louts = outs[a:a + k]
        for o in louts:
            if isinstance(o, dict) and "error" in o and len(o) == 1:
                raise HarnessFault("lean driver error %r on case %s" % (o["error"], json.dumps(c)[:600]))
        findings, key = mod.evaluate(c, louts, ctx)
        results.append((c, findings, key))
    return results


def shrink(mod, ctx, case, locus, rounds=40):
    cur = case
    for _ in range(rounds):
        cands = list(mod.shrink_candidates(cur))
        if not cands:
            break
        cands = cands[:60]
        try:
            res = evaluate_cases(mod, ctx, cands)
        except HarnessFault:
            break
        nxt = None
        for c, findings, _ in res:
            if any(f["locus"] == locus for f in findings):
                nxt = c
                break
        if nxt is None:
            break
        cur = nxt
    return cur


def main():
    ap = argparse.ArgumentParser()
    ap.add_argument("prop")
    ap.add_argument("--tier", default=os.environ.get("VERIF_TIER", "quick"))
    ap.add_argument("--replay", default=None)
    args = ap.parse_args()
    prop = args.prop.upper()
    tier = args.tier if args.tier in ("quick", "thorough") else "quick"
    seed = int(os.environ.get("VERIF_SEED", "0") or 0)
    t0 = time.time()
    try:
        rc = run(prop, tier, seed, args.replay, t0)
    except HarnessFault as e:
        print("HARNESS-FAULT property=%s %s" % (prop, e))
        sys.exit(2)
    except Exception:
        traceback.print_exc()
        print("HARNESS-FAULT property=%s unexpected exception" % prop)
        sys.exit(2)
    sys.exit(rc)


def run(prop, tier, seed, replay, t0):
    common.ensure_repo_on_path()
    mod = Multi(prop)
    ctx = Ctx(prop, tier, seed)
    theorems = mod.all("THEOREMS", [])
    prop_module = mod.all("LEAN_MODULE", None) or ["CrCube.Props.%s" % prop]

    lean = lean_build_and_audit(theorems, prop_module, tier)

    # ---- cases: corpus first, then generated ------------------------------------------
    cases = []
    if replay:
        data = json.load(open(replay))
        cases = [data["case"]] if "case" in data else [data]
    else:
        for f in sorted(glob.glob(os.path.join(VERIF, "corpus", prop, "*.json"))):
            d = json.load(open(f))
            cases.append(d["case"] if "case" in d else d)
        ctx.count("corpus_cases", len(cases))
        cases.extend(mod.generate(ctx))

    results = evaluate_cases(mod, ctx, cases)

    keys = set()
    n_eval = 0
    findings_all = []
    samples = []
    for c, findings, key in results:
        n_eval += 1
        if key is not None:
            keys.add(key)
        for f in findings:
            findings_all.append((c, f))
    step = max(1, len(results) // 3)
    for c, findings, key in results[::step][:3]:
        samples.append(mod.describe(c))

    known = [k for k in load_known() if k.get("property") == prop and k.get("status") == "known"]
    known_loci = {k["locus"]: k for k in known}
    violations = []
    known_hit = {}
    seen_loci = set()
    for c, f in findings_all:
        if f["locus"] in known_loci:
            known_hit[f["locus"]] = known_loci[f["locus"]]
            continue
        if f["locus"] in seen_loci:
            continue
        seen_loci.add(f["locus"])
        violations.append((c, f))

    for locus, k in known_hit.items():
        print("KNOWN-FINDING: property=%s %s" % (prop, k.get("what", locus)))

    os.makedirs(os.path.join(VERIF, "replays"), exist_ok=True)
    rc = 0
    nviol = 0
    # spec-level findings are concrete failing inputs; model-level ones are broken correspondence
    spec_v = [(c, f) for c, f in violations if f["kind"] == "spec"]
    model_v = [(c, f) for c, f in violations if f["kind"] != "spec"]
    for c, f in spec_v[:5]:
        small = shrink(mod, ctx, c, f["locus"]) if not replay else c
        path = os.path.join(VERIF, "replays", "%s_%s_%d.json" % (prop, re.sub(r"[^A-Za-z0-9]+", "-", f["locus"])[:60], seed))
        json.dump({"property": prop, "kind": "failing-input", "locus": f["locus"], "detail": f["detail"],
                   "seed": seed, "tier": tier, "case": small}, open(path, "w"), indent=1)
        print("VIOLATION property=%s replay=%s" % (prop, path))
        nviol += 1
        rc = 1
    if model_v and not spec_v:
        c, f = model_v[0]
        path = os.path.join(VERIF, "replays", "%s_corr_%s_%d.json" % (prop, re.sub(r"[^A-Za-z0-9]+", "-", f["locus"])[:60], seed))
        json.dump({"property": prop, "kind": "correspondence-broken", "correspondence": f["locus"],
                   "detail": f["detail"], "note": "model and implementation disagree at a seam; no input violating the property statement itself was found among %d cases" % n_eval,
                   "seed": seed, "tier": tier, "case": c}, open(path, "w"), indent=1)
        print("VIOLATION property=%s replay=%s no-failing-input-found" % (prop, path))
        nviol += 1
        rc = 1
    if not lean["ok"]:
        if not spec_v and not model_v:
            path = os.path.join(VERIF, "replays", "%s_lean_%d.json" % (prop, seed))
            json.dump({"property": prop, "kind": "proof-obligation-broken",
                       "theorems_not_checking": lean["failed"], "forbidden_tokens": lean.get("forbidden"),
                       "build_ok": lean["build_ok"], "detail": lean["detail"][-3000:],
                       "note": "no failing input found among %d cases" % n_eval}, open(path, "w"), indent=1)
            print("VIOLATION property=%s replay=%s no-failing-input-found" % (prop, path))
            nviol += 1
            rc = 1

    discharged = sum(1 for t in theorems if t not in lean["failed"]) if lean["build_ok"] or not lean["failed"] else 0
    ev = {
        "property_id": prop,
        "tier": tier,
        "seed": seed,
        "level": "proof",
        "coverage": {
            "obligations": len(theorems),
            "discharged": discharged,
            "checker_cmd": "cd /verif/lean && lake build CrCube && lake env lean .lake/audit/Audit_%s.lean  (#print axioms of each obligation)" % prop_module[0].split(".")[-1],
            "trusted_base": TRUSTED_BASE + mod.all("TRUSTED_EXTRA", []),
            "theorems": theorems,
            "axioms": lean["axioms"],
            "forbidden_token_hits": lean.get("forbidden", []),
            "leanchecker_rc": lean.get("leanchecker"),
            "evaluations": n_eval,
            "distinct_nontrivial": len(keys),
            "rule": " || ".join(mod.all("RULE", [])),
            "samples": samples,
            "traces_validated_against_impl": n_eval,
            "distribution": ctx.dist,
            "known_findings_matched": sorted(known_hit),
            "exhaustive": bool(getattr(mod.main, "EXHAUSTIVE", False) and ctx.dist.get("exhaustive_done")),
        },
        "assumptions": mod.all("ASSUMPTIONS", []),
        "wall_s": round(time.time() - t0, 2),
        "violations": nviol,
    }
    os.makedirs(os.path.join(VERIF, "evidence"), exist_ok=True)
    if not replay:
        ev_dir = os.path.join(VERIF, "evidence")
        alt = os.environ.get("VERIF_REPO")
        if alt and os.path.realpath(alt) != os.path.realpath("/repo"):
            # a run against another tree (seeded-change evaluation) must not overwrite the evidence of /repo
            ev_dir = os.path.join(VERIF, "replays", "evidence_alt")
            os.makedirs(ev_dir, exist_ok=True)
        json.dump(ev, open(os.path.join(ev_dir, "%s.json" % prop), "w"), indent=1, default=str)
    print("%s %s tier=%s seed=%d cases=%d nontrivial=%d theorems=%d/%d wall=%.1fs" % (
        "OK" if rc == 0 else "FAIL", prop, tier, seed, n_eval, len(keys), discharged, len(theorems), time.time() - t0))
    return rc


if __name__ == "__main__":
    main()
