"""Shared harness pieces: Lean driver client, canonical comparison, Out-term evaluation."""
from fractions import Fraction
import json
import math
import os
import subprocess
import sys

VERIF = os.path.dirname(os.path.dirname(os.path.abspath(__file__)))
LEAN_DIR = os.path.join(VERIF, "lean")
REPO = os.environ.get("VERIF_REPO", "/repo")

REL_TOL = 1e-9
ABS_TOL = 1e-12


class HarnessFault(Exception):
    """Something wrong with the machinery itself (exit 2, never a VIOLATION)."""


def lean_run(ops, timeout=1800):
    """Send a list of op dicts to the Lean driver, return the list of decoded outputs."""
    if not ops:
        return []
    inp = "\n".join(json.dumps(o, separators=(",", ":")) for o in ops) + "\n"
    env = dict(os.environ)
    p = subprocess.run(["lake", "env", "lean", "--run", "Main.lean"], cwd=LEAN_DIR, input=inp,
                       capture_output=True, text=True, timeout=timeout, env=env)
    if p.returncode != 0:
        raise HarnessFault("lean driver failed: rc=%s stderr=%s" % (p.returncode, p.stderr[-2000:]))
    lines = [l for l in p.stdout.split("\n") if l.strip()]
    if len(lines) != len(ops):
        raise HarnessFault("lean driver returned %d lines for %d ops; stderr=%s; tail=%s" %
                           (len(lines), len(ops), p.stderr[-1000:], lines[-1:] if lines else None))
    outs = []
    for l in lines:
        outs.append(json.loads(l))
    return outs


def lean_run_parallel(ops, nproc=8, timeout=3600):
    """Split ops over several driver processes (thorough tier)."""
    if len(ops) < 4 * nproc or nproc <= 1:
        return lean_run(ops, timeout)
    from concurrent.futures import ThreadPoolExecutor
    chunks = [ops[i::nproc] for i in range(nproc)]
    with ThreadPoolExecutor(nproc) as ex:
        res = list(ex.map(lambda c: lean_run(c, timeout), chunks))
    outs = [None] * len(ops)
    for k, r in enumerate(res):
        for j, o in enumerate(r):
            outs[k + j * nproc] = o
    return outs


# ---------------------------------------------------------------------------------------
# model value -> float


def frac_of(s):
    if isinstance(s, (int,)):
        return Fraction(s)
    return Fraction(s)


def model_to_float(m):
    """Evaluate a model value (Val string, Out term, nested lists) to Python floats/None."""
    import numpy as np
    if m is None:
        return None
    if isinstance(m, bool):
        return m
    if isinstance(m, (int, float)):
        return m
    if isinstance(m, str):
        if m == "nan":
            return float("nan")
        if m == "inf":
            return float("inf")
        if m == "-inf":
            return float("-inf")
        try:
            fr = Fraction(m)
        except (ValueError, ZeroDivisionError):
            return m  # a genuine string (label etc.)
        return fr.numerator / fr.denominator
    if isinstance(m, list):
        return [model_to_float(x) for x in m]
    if isinstance(m, dict):
        if "sqrt" in m:
            x = model_to_float(m["sqrt"])
            with np.errstate(all="ignore"):
                return float(np.sqrt(np.float64(x)))
        if "divsqrt" in m:
            n, d = (model_to_float(x) for x in m["divsqrt"])
            with np.errstate(all="ignore"):
                return float(np.float64(n) / np.sqrt(np.float64(d)))
        if "scale" in m:
            k, o = m["scale"]
            with np.errstate(all="ignore"):
                return float(np.float64(model_to_float(k)) * np.float64(model_to_float(o)))
        if "normtail2" in m:
            from scipy.stats import norm
            z = model_to_float(m["normtail2"])
            with np.errstate(all="ignore"):
                return float(2 * (1 - norm.cdf(abs(np.float64(z)))))
        if "ttail2" in m:
            from scipy.stats import t as tdist
            tt, df = m["ttail2"]
            tt = model_to_float(tt)
            df = model_to_float(df)
            with np.errstate(all="ignore"):
                return float(2 * (1 - tdist.cdf(abs(np.float64(tt)), df=np.float64(df))))
        return {k: model_to_float(v) for k, v in m.items()}
    return m


def impl_canon(x):
    """numpy / tuples / scalars -> plain nested lists of float / int / str / None."""
    import numpy as np
    if x is None:
        return None
    if isinstance(x, np.ma.MaskedArray):
        x = x.filled(np.nan)
    if isinstance(x, np.ndarray):
        return impl_canon(x.tolist())
    if isinstance(x, (np.floating,)):
        return float(x)
    if isinstance(x, (np.integer,)):
        return int(x)
    if isinstance(x, (np.bool_,)):
        return bool(x)
    if isinstance(x, (list, tuple)):
        return [impl_canon(y) for y in x]
    if isinstance(x, (set, frozenset)):
        return sorted(impl_canon(y) for y in x)
    if isinstance(x, dict):
        return {str(k): impl_canon(v) for k, v in x.items()}
    if isinstance(x, (bool, int, float, str)):
        return x
    return str(x)   # enum members, dimension types, other objects: compare by their printed form


def num_close(a, b, rel=REL_TOL, abs_=ABS_TOL):
    if isinstance(a, bool) or isinstance(b, bool):
        return a == b
    if a is None or b is None:
        return a is None and b is None
    if isinstance(a, str) or isinstance(b, str):
        return a == b
    a = float(a)
    b = float(b)
    if math.isnan(a) or math.isnan(b):
        return math.isnan(a) and math.isnan(b)
    if math.isinf(a) or math.isinf(b):
        return a == b
    return abs(a - b) <= max(abs_, rel * max(abs(a), abs(b)))


def deep_close(a, b, rel=REL_TOL, abs_=ABS_TOL):
    """structural comparison with numeric tolerance; returns (ok, path-of-first-difference)."""
    if isinstance(a, (list, tuple)) and isinstance(b, (list, tuple)):
        if len(a) != len(b):
            return False, "len %d != %d" % (len(a), len(b))
        for i, (x, y) in enumerate(zip(a, b)):
            ok, p = deep_close(x, y, rel, abs_)
            if not ok:
                return False, "[%d]%s" % (i, p)
        return True, ""
    if isinstance(a, dict) and isinstance(b, dict):
        if set(a) != set(b):
            return False, "keys %s != %s" % (sorted(a), sorted(b))
        for k in a:
            ok, p = deep_close(a[k], b[k], rel, abs_)
            if not ok:
                return False, ".%s%s" % (k, p)
        return True, ""
    if isinstance(a, (list, tuple, dict)) or isinstance(b, (list, tuple, dict)):
        return False, " shape mismatch %r vs %r" % (type(a).__name__, type(b).__name__)
    if num_close(a, b, rel, abs_):
        return True, ""
    return False, " %r != %r" % (a, b)


def call_impl(fn):
    """Run a thunk against the real library; map exceptions to {'raises': TypeName}."""
    import warnings
    try:
        with warnings.catch_warnings():
            warnings.simplefilter("ignore")
            return impl_canon(fn())
    except Exception as e:  # noqa
        return {"raises": type(e).__name__}


def ensure_repo_on_path():
    src = os.path.join(REPO, "src")
    if src not in sys.path:
        sys.path.insert(0, src)
    # make sure the hooks guard is on (no hooks are currently needed; kept for the interface)
    os.environ.setdefault("CRUNCH_IO_CRUNCH_CUBE_VERIF", "1")
    # the venv's editable-install .pth pre-registers the `cr` namespace package with
    # __path__ = ['/repo/src/cr']; re-point it so VERIF_REPO=<worktree> really imports that tree
    for m in [m for m in sys.modules if m.startswith("cr.")]:
        del sys.modules[m]
    if "cr" in sys.modules:
        try:
            sys.modules["cr"].__path__ = [os.path.join(src, "cr")]
        except Exception:
            del sys.modules["cr"]
    import cr.cube  # noqa
    real = os.path.realpath(cr.cube.__file__)
    if not real.startswith(os.path.realpath(src)):
        raise HarnessFault("cr.cube imported from %s, expected under %s" % (real, src))
