"""C19 extension: source-table tie for the set of dimension types whose references are translated
(SHIMMED_TYPES = ARRAY_TYPES + DATETIME; see _srctables.py)."""
from props import _srctables

PROPERTY = "C19"
THEOREMS = []
RULE = "source-table tie: one case; SHIMMED_TYPES and ARRAY_TYPES translated from the working tree"
TRUSTED_EXTRA = ["tools/srctables.py (ast translator of dict / enum literals)"]
NAMES = ["array_types", "shimmed_types"]
generate, lean_ops, evaluate, describe = _srctables.make_module(PROPERTY, NAMES, "shimmed dimension types")
