"""C03 extension - zero bases read under the CALLER's floating-point policy.

The statement says a proportion is NaN exactly where its base is zero; `why_tests_cant` spells the same thing out as "NaN, no
exception, no warning-to-error".  A zero base makes the library divide x / 0 (numpy event `divide`) or 0 / 0 (numpy event
`invalid`).  What numpy does with such an event is decided by the CALLER's environment - `np.errstate` / `np.seterr`
(`raise` turns it into FloatingPointError) and the Python warnings filter (`error` turns the default RuntimeWarning into an
exception; `python -W error`, pytest `filterwarnings = error`).  The library shields each of its divisions with
`np.errstate(divide="ignore", invalid="ignore")`; a shield that is missing, or names only one of the two events, is invisible
under numpy's defaults (same values, a warning at most) and makes the read raise instead of returning NaN under a strict caller.

Family
  inputs   strands and slices (1-D incl. MR / cat-date / datetime / text / binned, 2-D, 3-D, CA) whose zero bases are FORCED in
           every way a base can be zero: no respondents; every respondent missing on a variable; an MR / CA item nobody was
           asked (selected = other = 0) next to items with positive bases; every weight 0 (weighted base 0, unweighted > 0);
           weight 0 exactly for the respondents of one category (an empty weighted row / column with 0 / 0 cells); one category
           answered by nobody (0 / positive and, on the opposing direction, 0 / 0).  40 % of the cases carry a transform
           (regular subtotals, differences, hidden insertions, prune).
  regimes  each case is read in the default environment and under 2 of: errstate raise for all / invalid / divide / both events,
           the same through `np.seterr`, warnings promoted to errors (all categories / RuntimeWarning only), both at once.  The
           cube is built inside the regime, or outside it, or outside with counts and bases already read ("warm").  Reads come
           in a shuffled order.
  oracle   spec: under every regime each C03 output is the SAME array as count / base of the respondent-level spec (Lean ops
           `strand_spec` / `slice_spec`; NaN exactly at the zero bases) - not an exception; with transforms: the same array as
           in the default environment (whose cell laws are c03.py's / c03_mixed.py's business).

Scope (measured on the unchanged tree, see DESIGN 9): the six proportion / percentage outputs of a slice, the two of a strand
and the 1-D margin proportions survive every regime at HEAD and are demanded.  The 2-D margin proportions (`rows_` /
`columns_margin_proportion` opposite an MR / array dimension) are computed in `cubepart.py` by a bare
`margin / table_weighted_bases` and raise at HEAD under a strict caller when a table base is zero; the statement says nothing
about NaN for margin proportions ("are the margin over the table base"), so those are counted (`margin2d_not_demanded`) and
not demanded.
"""
import contextlib
import copy
import math
import random
import warnings

import common
import gen
from props import _slice_common as sc

PROPERTY = "C03"
LEAN_MODULE = ["CrCube.Props.C03", "CrCube.Props.C03_FpEnv"]
THEOREMS = [
    "CrCube.C03.guarded_div_never_raises",
    "CrCube.C03.guarded_div_value",
    "CrCube.C03.guarded_props_eq_spec",
    "CrCube.C03.raises_iff_unshielded_event",
    "CrCube.C03.divide_only_guard_counterexample",
    "CrCube.C03.invalid_only_guard_counterexample",
]
RULE = ("strands / slices with forced zero bases (no respondents, all missing, unasked MR / CA item, zero weights overall or on one "
        "category, empty category), 40 % with subtotals / differences / hide / prune; every proportion / percentage / 1-D margin "
        "proportion read under 2 strict caller policies (errstate / seterr raise per event, warnings as errors) with the cube built "
        "inside / outside / warm, shuffled reads; each must equal count / base of the respondent-level spec (NaN at zero bases), "
        "never raise; non-trivial = some demanded output has a NaN (zero base) cell; distinct = (kinds, forcing, regimes, survey prefix)")
ASSUMPTIONS = ["Spec.cubeOf is the back end's tabulation (checked per case in C01)", "weights are non-negative",
               "caller policies generated: numpy errstate / seterr modes 'raise' and the Python warnings filter 'error'; "
               "'call' / 'print' / 'log' handlers leave the values unchanged and are not judged",
               "2-D margin proportions (opposite an MR / array dimension) are not demanded under a strict policy: HEAD divides bare there"]

SLICE_OUT = ["row_proportions", "column_proportions", "table_proportions",
             "row_percentages", "column_percentages", "table_percentages",
             "rows_margin_proportion", "columns_margin_proportion"]
STRAND_OUT = ["table_proportions", "table_percentages"]
MARGIN = ("rows_margin_proportion", "columns_margin_proportion")
DIRS = {"row": "row_bases", "column": "column_bases", "table": "table_bases"}

REGIMES = ["errstate-all-raise", "errstate-all-raise", "errstate-invalid-raise", "errstate-invalid-raise", "errstate-divide-raise",
           "errstate-divide+invalid-raise", "seterr-all-raise", "seterr-invalid-raise", "warnings-error", "warnings-error",
           "warnings-error-runtime", "errstate-raise+warnings-error"]
FORCINGS = ["none", "none", "empty", "one-respondent", "all-missing", "item-unasked", "item-unasked", "item-unasked",
            "zero-weights", "zero-weights-category", "zero-weights-category", "empty-category", "empty-category"]
STRAND_KINDS = ["cat", "cat", "mr", "mr", "mr", "cat_date", "datetime", "text", "binned"]


# ---------------------------------------------------------------------------------------------
# the caller's environment


@contextlib.contextmanager
def regime(name):
    """the caller's floating-point / warnings policy, restored on exit."""
    import numpy as np
    with contextlib.ExitStack() as st:
        st.enter_context(warnings.catch_warnings())
        warnings.simplefilter("ignore")
        if name == "default":
            pass
        elif name.startswith("errstate-") and name.endswith("-raise"):
            ev = name[len("errstate-"):-len("-raise")]
            kw = {"all": "raise"} if ev == "all" else {e: "raise" for e in ev.split("+")}
            st.enter_context(np.errstate(**kw))
        elif name.startswith("seterr-"):
            ev = name[len("seterr-"):-len("-raise")]
            old = np.seterr(**({"all": "raise"} if ev == "all" else {ev: "raise"}))
            st.callback(lambda: np.seterr(**old))
        elif name == "warnings-error":
            st.enter_context(np.errstate(all="warn"))
            warnings.simplefilter("error")
        elif name == "warnings-error-runtime":
            st.enter_context(np.errstate(all="warn"))
            warnings.simplefilter("error", RuntimeWarning)
        elif name == "errstate-raise+warnings-error":
            st.enter_context(np.errstate(all="raise"))
            warnings.simplefilter("error")
        else:
            raise common.HarnessFault("unknown regime %r" % name)
        yield


def _read(thunk):
    """value (canonical nested lists) or {'raises': type, 'msg': text}; does NOT touch the warnings filter / errstate."""
    try:
        return common.impl_canon(thunk())
    except Exception as e:  # noqa
        return {"raises": type(e).__name__, "msg": str(e)[:120]}


def _raised(x):
    return isinstance(x, dict) and "raises" in x


def _is_flat(x):
    return isinstance(x, list) and not any(isinstance(y, list) for y in x)


def _has_nan(x):
    if isinstance(x, list):
        return any(_has_nan(y) for y in x)
    return isinstance(x, float) and math.isnan(x)


# ---------------------------------------------------------------------------------------------
# generation


def _force(rng, vars_, survey, weighted, how):
    """returns (survey', what was done) - every way a base can be zero."""
    if how == "none" or (not survey and how != "empty"):
        return survey, "none"
    if how == "empty":
        return [], "empty"
    if how == "one-respondent":
        return survey[:1], "one-respondent"
    j = rng.randrange(len(vars_))
    v = vars_[j]
    miss = [i for i, c in enumerate(v.cats) if c["missing"]]
    if how == "all-missing":
        if not miss:
            return survey, "none"
        out = []
        for w, ans in survey:
            ans = copy.deepcopy(ans)
            ans[j] = [rng.choice(miss) for _ in ans[j]]
            out.append((w, ans))
        return out, "all-missing:v%d" % j
    if how == "item-unasked":
        arrs = [i for i, x in enumerate(vars_) if x.is_array and any(c["missing"] for c in x.cats)]
        if not arrs:
            return survey, "none"
        j = rng.choice(arrs)
        v = vars_[j]
        miss = [i for i, c in enumerate(v.cats) if c["missing"]]
        ks = rng.sample(range(len(v.items)), rng.choice([1, 1, 1, min(2, len(v.items))]))
        out = []
        for w, ans in survey:
            ans = copy.deepcopy(ans)
            for k in ks:
                ans[j][k] = rng.choice(miss)
            out.append((w, ans))
        return out, "item-unasked:v%d%r" % (j, sorted(ks))
    if how == "zero-weights":
        if not weighted:
            return survey, "none"
        return [(w * 0, ans) for w, ans in survey], "zero-weights"
    # category-wise forcings: a category (of one item, for arrays) of variable j
    k = rng.randrange(len(v.items)) if v.is_array else 0
    c = rng.randrange(len(v.cats))
    if how == "zero-weights-category":
        if not weighted:
            how = "empty-category"
        else:
            return [((w * 0) if ans[j][k] == c else w, ans) for w, ans in survey], "zero-weights-category:v%d.%d=%d" % (j, k, c)
    if how == "empty-category":
        others = [i for i in range(len(v.cats)) if i != c]
        if not others:
            return [], "empty"
        out = []
        for w, ans in survey:
            if ans[j][k] == c:
                ans = copy.deepcopy(ans)
                ans[j][k] = rng.choice(others)
            out.append((w, ans))
        return out, "empty-category:v%d.%d=%d" % (j, k, c)
    raise common.HarnessFault("unknown forcing %r" % how)


def _gen_transforms(rng, vars_):
    kinds = sc.kinds_of(vars_)
    if len(vars_) == 1 and vars_[0].kind == "ca":
        return None
    dims = [vars_[0]] if len(kinds) == 1 else vars_[-2:]
    tr = {}
    for name, v in zip(["rows_dimension", "columns_dimension"], dims):
        ins = sc.gen_insertions(rng, v, allow_diff=True, allow_hide=True)
        if ins:
            tr[name] = {"insertions": ins}
        if rng.random() < 0.3:
            tr.setdefault(name, {})["prune"] = True
    return tr or None


def _gen_one(rng):
    r = rng.random()
    if r < 0.42:
        kinds = [rng.choice(STRAND_KINDS)]
    elif r < 0.87:
        kinds = None if rng.random() < 0.5 else [rng.choice(["cat", "mr", "cat_date", "cat"]), rng.choice(["cat", "mr", "cat", "binned"])]
    else:
        kinds = [rng.choice(["cat", "mr", "cat"]), rng.choice(["cat", "mr", "cat_date"]), rng.choice(["cat", "mr"])]
    case = sc.gen_case(rng, ndims=2, kinds=kinds) if kinds is not None else sc.gen_case(rng, ndims=2)
    vars_, survey = sc.load(case)
    survey, done = _force(rng, vars_, survey, case["weighted"], rng.choice(FORCINGS))
    case["survey"] = gen.survey_to_json(survey)
    case["fp"] = {"forcing": done,
                  "tr": _gen_transforms(rng, vars_) if rng.random() < 0.4 else None,
                  "regimes": rng.sample(sorted(set(REGIMES)), 1) + [rng.choice(REGIMES)],
                  "build": rng.choice(["inside", "inside", "outside", "warm"]),
                  "order_seed": rng.randrange(1 << 30)}
    return case


def generate(ctx):
    return [_gen_one(ctx.rng) for _ in range(ctx.n(150, 2500))]


def lean_ops(case):
    return sc.api_ops(case)


# ---------------------------------------------------------------------------------------------
# evaluation


def _div(c, b):
    if b == 0:
        return float("nan") if c == 0 else math.copysign(float("inf"), c)
    return c / b


def _spec_expected(case, louts, kinds):
    """{(partition, output): expected array} from the respondent-level spec (plain cubes only)."""
    pre = "" if case["weighted"] else "u"
    exp = {}
    if len(kinds) >= 2:
        for k in range(len(louts) // 2):
            spec = louts[2 * k + 1]
            counts = common.model_to_float(spec[pre + "counts"])
            for d, bkey in DIRS.items():
                bases = common.model_to_float(spec[pre + bkey])
                e = [[_div(c, b) for c, b in zip(cr, br)] for cr, br in zip(counts, bases)]
                exp[(k, "%s_proportions" % d)] = e
                exp[(k, "%s_percentages" % d)] = [[100 * x for x in r] for r in e]
    else:
        spec = louts[1]
        counts = common.model_to_float(spec[pre + "counts"])
        bases = common.model_to_float(spec[pre + "bases"])
        e = [_div(c, b) for c, b in zip(counts, bases)]
        exp[(0, "table_proportions")] = e
        exp[(0, "table_percentages")] = [100 * x for x in e]
    return exp


def _read_all(case, reg, build, order_seed, names):
    """{(partition, output): value | raises} of a FRESH cube under the regime."""
    fp = case["fp"]
    out = {}
    cube = parts = None
    if build in ("outside", "warm"):
        with regime("default"):
            cube = _read_raw(lambda: sc.make_cube(case, transforms=copy.deepcopy(fp["tr"])))
            parts = _read_raw(lambda: list(cube.partitions)) if not _raised(cube) else cube
            if build == "warm" and not _raised(parts):
                for p in parts:
                    for n in ("counts", "unweighted_counts", "weighted_bases", "table_weighted_bases", "row_weighted_bases",
                              "column_weighted_bases", "rows_margin", "columns_margin"):
                        _read(lambda: getattr(p, n))
    with regime(reg):
        if cube is None:
            cube = _read_raw(lambda: sc.make_cube(case, transforms=copy.deepcopy(fp["tr"])))
            parts = _read_raw(lambda: list(cube.partitions)) if not _raised(cube) else cube
        if _raised(parts):
            return {"build": parts}
        rng = random.Random(order_seed)
        todo = [(k, n) for k in range(len(parts)) for n in names]
        rng.shuffle(todo)
        for k, n in todo:
            out[(k, n)] = _read(lambda: getattr(parts[k], n))
    return out


def _read_raw(thunk):
    try:
        return thunk()
    except Exception as e:  # noqa
        return {"raises": type(e).__name__, "msg": str(e)[:120]}


def evaluate(case, louts, ctx):
    fp = case["fp"]
    vars_, survey = sc.load(case)
    kinds = sc.kinds_of(vars_)
    strand = len(kinds) == 1
    names = STRAND_OUT if strand else SLICE_OUT
    what = "strand" if strand else "slice"
    findings = []
    ctx.count("fpenv_forcing:" + fp["forcing"].split(":")[0])
    ctx.count("fpenv_build:" + fp["build"])
    if fp["tr"]:
        ctx.count("fpenv_with_transforms")

    default = _read_all(case, "default", "inside", fp["order_seed"], names)
    if "build" in default:
        ctx.count("fpenv_default_build_raises")
        return findings, None
    spec = _spec_expected(case, louts, kinds) if not fp["tr"] else {}

    demanded = {}
    for key, d in default.items():
        k, n = key
        if _raised(d):
            ctx.count("fpenv_default_raises:" + n)
            continue
        if n in MARGIN and not _is_flat(d):
            ctx.count("margin2d_not_demanded")
            continue
        exp = spec.get(key)
        if exp is not None:
            # the default environment itself (also c03.py's business; here it anchors `expected`)
            sc.compare(findings, "spec", "fpenv.%s.%s.default-env" % (what, n), d, exp, "partition %d" % k)
        demanded[key] = exp if exp is not None else d
    zero_base = sorted(n for (k, n), e in demanded.items() if _has_nan(e))
    if zero_base:
        ctx.count("fpenv_cases_with_zero_base")

    seen = set()
    for reg in fp["regimes"]:
        if reg in seen:
            continue
        seen.add(reg)
        ctx.count("fpenv_regime:" + reg)
        got = _read_all(case, reg, fp["build"], fp["order_seed"], names)
        if "build" in got:
            findings.append({"kind": "spec", "locus": "fpenv.%s.build.raises" % what,
                             "detail": "building the cube / its partitions raises %r under the caller policy %s (fine in the default "
                                       "environment); forcing %s transforms %r" % (got["build"], reg, fp["forcing"], fp["tr"])})
            continue
        for key in sorted(demanded):
            k, n = key
            exp, g = demanded[key], got[key]
            src = "count / base of the respondent-level spec" if key in spec else "the default-environment read"
            if _raised(g):
                findings.append({
                    "kind": "spec", "locus": "fpenv.%s.%s.raises" % (what, n),
                    "detail": "partition %d: %s under the caller policy %r (cube built %s) raises %s: %s - it must be %s = %s "
                              "(NaN exactly at the zero bases); kinds %s forcing %s transforms %r"
                              % (k, n, reg, fp["build"], g["raises"], g["msg"], src, sc._short(exp), "x".join(kinds), fp["forcing"], fp["tr"])})
            else:
                sc.compare(findings, "spec", "fpenv.%s.%s.differs" % (what, n), g, exp,
                           "partition %d under the caller policy %r (cube built %s; expected = %s; forcing %s transforms %r)"
                           % (k, reg, fp["build"], src, fp["forcing"], fp["tr"]))
    key = None
    if zero_base:
        key = ("x".join(kinds), fp["forcing"].split(":")[0], tuple(sorted(seen)), bool(fp["tr"]), repr(case["survey"][:3]), len(survey))
    return findings, key


def describe(case):
    d = sc.describe(case)
    d["fp"] = {k: case["fp"][k] for k in ("forcing", "regimes", "build")}
    d["transforms"] = case["fp"]["tr"]
    return d


def shrink_candidates(case):
    fp = case["fp"]
    if fp["tr"]:
        yield dict(case, fp=dict(fp, tr=None))
    if len(fp["regimes"]) > 1:
        for r in fp["regimes"]:
            yield dict(case, fp=dict(fp, regimes=[r]))
    if fp["build"] != "inside":
        yield dict(case, fp=dict(fp, build="inside"))
    for c in sc.shrink_candidates(case):
        yield c
