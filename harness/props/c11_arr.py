"""C11 extension — variance / std-dev / std-err / MoE of proportions on slices with an ARRAY dimension.

Two families:

* categorical arrays (layouts of `_arr_common`: the array alone ARR x CAT, transposed CAT x ARR, under a table
  variable, leading a cube, transposed and leading): every cell x 3 directions x 4 statistics of every partition vs
  the Lean SPEC computed from the SURVEY (`c11_arr`: weighted variance of the membership indicator among the base
  respondents; bases as proved in Props/C02_Arr.lean - down / across array items the base of a cell is the cell itself,
  so p = 1 and the variance is 0 where the cell is populated, NaN where it is empty)            -> kind "spec"
  and vs the Lean MODEL (the library's three-term formula on the respondent-level counts)        -> kind "model".
  Some responses also carry `weighted_squared_count` (see c11.py: the statistics depend on the weighted counts only).

* the relations the property states between the four statistics, on the library's OWN outputs, for those slices
  AND for numeric-array slices (NUM_ARRAY x cat / mr, whose counts are valid counts):
      std_dev = sqrt(variance),  std_err = sqrt(variance / weighted base),  MoE = 1.959964 x std_err,
      variance = p (1 - p) for the reported proportion p (ordinary cells), all NaN exactly together   -> kind "spec".
"""
from fractions import Fraction
import math

import gen
import common
from props import _arr_common as ac
from props import _numarr_gen as ng

PROPERTY = "C11"
LEAN_MODULE = "CrCube.Props.C11_Arr"
THEOREMS = [
    "CrCube.C11.ordinary_variance_eq_indicator",
    "CrCube.C11.ordinary_variance_p",
    "CrCube.C11.ordinary_variance_self_base",
    "CrCube.C11.arr_variance_eq_spec",
    "CrCube.C11.arr_stats_eq_spec",
]
RULE = ("categorical-array designs (ARR x CAT, CAT x ARR, under a cat/mr table variable, array leading, transposed and "
        "leading; missing categories first / middle / last / all-but-one, missing items; dyadic weights incl. 2^-40 and "
        "1 + 2^-20 scales; 0-40 respondents; a third of the weighted responses carry weighted_squared_count) and "
        "numeric arrays x cat / cat_date / mr; every cell x 3 directions x 4 statistics of every partition; "
        "non-trivial = some cell with a finite variance > 0 and some self-based cell with variance 0 (arrays) / some "
        "finite variance (numeric arrays); distinct = (layout tag, raw weighted counts)")
ASSUMPTIONS = ["numeric arrays: only the relations between the library's own outputs are demanded "
               "(their counts are valid counts; bases are C02_NumArray's business)"]
TRUSTED_EXTRA = ["numpy sqrt evaluates the symbolic sqrt terms"]

DIRS = [("row", "row"), ("col", "column"), ("table", "table")]
STATS = [("variance", "%s_proportion_variances"), ("std_dev", "%s_std_dev"), ("std_err", "%s_std_err"),
         ("moe", "%s_proportions_moe")]
Z = 1.959964
NUM_KINDS = [["cat"], ["cat"], ["cat_date"], ["mr"], ["mr"], ["text"]]


def generate(ctx):
    rng = ctx.rng
    out = []
    for _ in range(ctx.n(70, 1800)):
        c = ac.gen_case(rng, "c11_arr")
        while c["layout"] == "ca0":
            c = ac.gen_case(rng, "c11_arr")
        c["fam"] = "ca"
        c["extras"] = ["weighted_squared_count"] if (c["weighted"] and rng.random() < 0.35) else []
        c["pre_reads"] = [a for a in ("pairwise_indices", "column_weighted_bases", "counts") if rng.random() < 0.3]
        out.append(c)
    for _ in range(ctx.n(25, 500)):
        c = ng.gen_case(rng, rng.choice(NUM_KINDS), rng.choice([1, 2, 2, 3]), True,
                        vc=rng.choice(["uw", "uw", "u", "w"]), n_resp=rng.choice([1, 3, 8, 20, 40]))
        c["min_base"] = 0
        c["fam"] = "numarr"
        c["_mod"] = "c11_arr"
        out.append(c)
    return out


def _wsurvey(case, survey):
    return survey if case["weighted"] else [(Fraction(1), a) for _, a in survey]


def lean_ops(case):
    if case.get("fam") == "numarr":
        return [{"op": "z975"}]
    vars_, survey = ac.load(case)
    lv = [v.lean() for v in vars_]
    ls = gen.survey_lean(vars_, _wsurvey(case, survey))
    ops = [{"op": "z975"}]
    for k in range(ac.nparts(case["layout"], vars_)):
        ops.append({"op": "c11_arr", "layout": case["layout"], "vars": lv, "survey": ls, "k": k})
    return ops


# ---------------------------------------------------------------------------------------


def _flat(m):
    return [x for r in m for x in r]


def _isnum(x):
    return isinstance(x, (int, float)) and not isinstance(x, bool)


def relations(findings, sl, where, det):
    """the relations between the four statistics that the property text states, on the library's own outputs;
    returns True when some variance is finite"""
    any_finite = False
    for dname, dapi in DIRS:
        got = {}
        for name in ("%s_proportion_variances", "%s_std_dev", "%s_std_err", "%s_proportions_moe", "%s_weighted_bases",
                     "%s_proportions"):
            api = name % dapi
            v = common.call_impl(lambda: getattr(sl, api))
            got[name] = v
        var, sd, se, moe, wb, pr = (got[n] for n in ("%s_proportion_variances", "%s_std_dev", "%s_std_err",
                                                     "%s_proportions_moe", "%s_weighted_bases", "%s_proportions"))
        if isinstance(var, dict):
            # no variance reported for this design (nothing to relate); a std-dev / std-err / MoE without it is odd
            for stat, v in (("std_dev", sd), ("std_err", se), ("moe", moe)):
                if not isinstance(v, dict):
                    findings.append({"kind": "spec", "locus": "%s.%s.%s.without-variance" % (where, dname, stat),
                                     "detail": "%s: the variance raises %r but %s is reported" % (det, var, stat)})
            continue
        for stat, v in (("std_dev", sd), ("std_err", se), ("moe", moe)):
            if isinstance(v, dict):
                findings.append({"kind": "spec", "locus": "%s.%s.%s.raises" % (where, dname, stat),
                                 "detail": "%s: variance reported but %s raises %r" % (det, stat, v)})
        fv = _flat(var)
        any_finite = any_finite or any(_isnum(x) and x == x and x > 1e-12 for x in fv)

        def rel(stat, impl, want, what):
            if isinstance(impl, dict) or want is None:
                return
            ok, path = common.deep_close(impl, want)
            if not ok:
                findings.append({"kind": "spec", "locus": "%s.%s.%s.relation" % (where, dname, stat),
                                 "detail": "%s: %s is not %s of the library's own outputs: at %s | %s=%r variance=%r bases=%r"
                                           % (det, stat, what, path, stat, impl, var, wb)})
        rel("std_dev", sd, [[math.sqrt(x) if x == x and x >= 0 else float("nan") for x in r] for r in var],
            "sqrt(variance)")
        want_se = None
        if not isinstance(wb, dict) and len(wb) == len(var) and all(len(a) == len(b) for a, b in zip(wb, var)):
            want_se = [[(math.sqrt(x / b) if (x == x and b == b and b > 0 and x >= 0) else float("nan"))
                        for x, b in zip(r, rb)] for r, rb in zip(var, wb)]
        rel("std_err", se, want_se, "sqrt(variance / weighted base)")
        if not isinstance(se, dict):
            rel("moe", moe, [[Z * x for x in r] for r in se], "1.959964 x std_err")
        if not isinstance(pr, dict) and len(pr) == len(var):
            rel("variance", var, [[p * (1 - p) for p in r] for r in pr], "p(1 - p)")
        for stat, v in (("variance", var), ("std_dev", sd), ("std_err", se), ("moe", moe)):
            if not isinstance(v, dict) and any(_isnum(x) and x == x and x < 0 for x in _flat(v)):
                findings.append({"kind": "spec", "locus": "%s.%s.%s.negative" % (where, dname, stat),
                                 "detail": "%s: %r" % (det, v)})
    return any_finite


def _extras(case, vars_, survey):
    if not case.get("extras"):
        return None
    ws = _wsurvey(case, survey)
    return {"weighted_squared_count": [gen.num(x) for x in gen.tabulate(vars_, [(w * w, a) for w, a in ws], True)]}


def evaluate(case, louts, ctx):
    common.ensure_repo_on_path()
    from cr.cube import cubepart
    findings = []
    z = common.model_to_float(louts[0])
    if z != cubepart.Z_975:
        findings.append({"kind": "spec", "locus": "moe.constant",
                         "detail": "cubepart.Z_975=%r but the property says %r" % (cubepart.Z_975, z)})
    if case.get("fam") == "numarr":
        return _evaluate_numarr(case, ctx, findings)
    from cr.cube.cube import Cube
    vars_, survey = ac.load(case)
    layout = case["layout"]
    tg = ac.tag(layout, vars_)
    ctx.count("arr:" + tg)
    if case.get("extras"):
        ctx.count("arr_cases_with_squared_weights")
    cube = Cube(gen.cube_response(vars_, survey, case["weighted"], extra_measures=_extras(case, vars_, survey)))
    parts = ac.partitions_or_finding(case, cube, vars_, findings)
    if parts is None:
        return findings, None
    pos_var = zero_var = False
    for k, sl in enumerate(parts):
        lo = louts[1 + k]
        if "error" in lo:
            raise common.HarnessFault("c11_arr: %s" % lo["error"])
        det = "partition %d" % k
        for a in case.get("pre_reads") or []:
            common.call_impl(lambda: getattr(sl, a))
        dts = common.call_impl(lambda: [d.name for d in sl.dimension_types])
        for dname, dapi in DIRS:
            cells = lo[dname]
            for stat, api_t in STATS:
                api = api_t % dapi
                impl = common.call_impl(lambda: getattr(sl, api))
                if isinstance(impl, dict):
                    findings.append({"kind": "spec", "locus": "arr.%s.%s.%s.raises" % (tg, dname, stat),
                                     "detail": "%s %s (%s) raises %r" % (det, api, dts, impl)})
                    continue
                spec = [[common.model_to_float(c["spec"][stat]) for c in r] for r in cells]
                model = [[common.model_to_float(c["model"][stat]) for c in r] for r in cells]
                if not spec and not _flat(impl):
                    continue
                ok, path = common.deep_close(impl, spec)
                if not ok:
                    findings.append({"kind": "spec", "locus": "arr.%s.%s.%s" % (tg, dname, stat),
                                     "detail": "%s %s (%s): impl%s | impl=%r spec=%r model=%r"
                                               % (det, api, dts, path, impl, spec, model)})
                    continue
                ok, path = common.deep_close(impl, model)
                if not ok:
                    findings.append({"kind": "model", "locus": "seam.arr.%s.%s.%s" % (tg, dname, stat),
                                     "detail": "%s %s: impl%s | impl=%r model=%r" % (det, api, path, impl, model)})
                if stat == "variance":
                    for x in _flat(impl):
                        if _isnum(x) and x == x:
                            if x > 1e-12:
                                pos_var = True
                            elif x == 0:
                                zero_var = True
        relations(findings, sl, "arr.%s" % tg, det)
    key = None
    if pos_var and zero_var:
        key = (tg, tuple(gen.frac_str(x) for x in gen.tabulate(vars_, survey, True)))
    return findings, key


def _evaluate_numarr(case, ctx, findings):
    cube = ng.make_cube(case)
    parts = common.call_impl(lambda: len(cube.partitions))
    if isinstance(parts, dict):
        return findings, None
    any_finite = False
    kinds = "x".join(d["kind"] for d in case["vars"])
    ctx.count("numarr:" + kinds)
    for k in range(parts):
        sl = cube.partitions[k]
        if type(sl).__name__ != "_Slice":
            continue
        dts = common.call_impl(lambda: [d.name for d in sl.dimension_types])
        if relations(findings, sl, "numarr", "partition %d (%s)" % (k, dts)):
            any_finite = True
    key = (kinds, case["n_items"], case["vc"], repr(case["survey"])) if any_finite else None
    return findings, key


def describe(case):
    if case.get("fam") == "numarr":
        d = ng.describe(case)
    else:
        d = ac.describe(case)
        d["extras"] = case.get("extras")
        d["pre_reads"] = case.get("pre_reads")
    d["family"] = case.get("fam")
    return d


def shrink_candidates(case):
    if case.get("fam") == "numarr":
        for c in ng.shrink_candidates(case):
            yield c
        return
    for c in ac.shrink_candidates(case):
        yield c
    if case.get("extras"):
        yield dict(case, extras=[])
    if case.get("pre_reads"):
        yield dict(case, pre_reads=[])
