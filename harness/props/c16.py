"""C16 — column index = 100 * column proportion / unconditional row share.

Seams per partition: `_Slice.column_index` (public API) vs Lean Spec (respondent level, from
the survey) and vs Lean Model (from the raw cube array incl. missing elements, FIXED factory);
the library's internal `.baseline` vs the Model baseline.
"""
from fractions import Fraction
import numpy as np

import gen
import common
from props import stats_util as su

PROPERTY = "C16"
LEAN_MODULE = "CrCube.Props.C16"
THEOREMS = [
    "CrCube.C16.baseline_spec_catXcat",
    "CrCube.C16.baseline_spec_catXmr",
    "CrCube.C16.baseline_spec_mrXcat",
    "CrCube.C16.baseline_spec_mrXmr",
    "CrCube.C16.baseline_spec_2d",
    "CrCube.C16.baseline_spec_3d",
    "CrCube.C16.colIndex_def",
    "CrCube.C16.colIndex_inserted_nan",
    "CrCube.C16.colIndex_nan_of_undefined_share",
    "CrCube.C16.colIndex_spec_2d",
    "CrCube.C16.colIndex_spec_3d",
    "CrCube.C16.colIndexSpec_inserted",
    "CrCube.C16.colIndexSpec_nan_of_no_eligible",
    "CrCube.C16.unfixed_factory_counterexample",
]
RULE = ("2-D and 3-D cubes over cat/cat_date/datetime/text/binned/mr rows x columns (x table), missing "
        "categories at any payload position (forced 'missing before valid' on the table variable in half of the "
        "3-D cases), surveys whose column (and row) missingness depends on the previous variable's answer, "
        "weighted (dyadic, incl. 0) or not, optional subtotal/difference insertions, typedef `order` differing from the "
        "document order of the categories (35% of cat dims), `hide` element transforms on rows (35%) / columns (15%), "
        "large samples (x1e4..3e6), weight regimes (all x 2^-40; one row answered only by weight-2^-34 respondents; "
        "all weights in 2^-6..2^-3 so that totals are < 1) in ~30% of weighted cases; non-trivial = some base cell "
        "has a finite index AND the unconditional row share differs from the share among valid column answers; "
        "distinct = (kinds, missing flags, raw weighted counts)")
ASSUMPTIONS = ["Spec.cubeOf is the back end's tabulation (cross-checked against the Python tabulator per case)",
               "model mirrors _BaseUnconditionalCubeCounts AFTER fix F4 (/repo commit 1fb198db)"]

ROWCOL = ["cat", "cat", "cat", "cat_date", "mr", "mr", "datetime", "text", "binned"]
TABLE = ["cat", "cat", "cat_date", "mr", "text"]


def gen_case(rng):
    nd = rng.choice([2, 2, 3, 3, 3])
    vars_ = []
    if nd == 3:
        tk = rng.choice(TABLE)
        vars_.append(su.gen_dim_var(rng, tk, "t", n_valid=rng.randint(1, 3),
                                    n_missing=rng.choice([0, 1, 1, 2, 2]),
                                    missing_first=rng.random() < 0.6, p_perm=0.35))
    rk, ck = rng.choice(ROWCOL), rng.choice(ROWCOL)
    vars_.append(su.gen_dim_var(rng, rk, "r", n_valid=rng.randint(1, 4), n_missing=rng.choice([0, 1, 1, 2]),
                                missing_first=rng.random() < 0.5, p_perm=0.35))
    vars_.append(su.gen_dim_var(rng, ck, "c", n_valid=rng.randint(1, 4), n_missing=rng.choice([0, 1, 1, 2, 3]),
                                missing_first=rng.random() < 0.5, p_perm=0.35))
    weighted = rng.random() < 0.6
    n_resp = rng.choice([0, 1, 3, 8, 15, 25, 40])
    survey = su.gen_survey(rng, vars_, n_resp, weighted)
    regime = su.pick_regime(rng, weighted, p_each=0.1)
    survey = su.apply_regime(rng, vars_, survey, regime)
    row_ins = col_ins = []
    if vars_[-2].kind in ("cat", "cat_date") and rng.random() < 0.35:
        row_ins = su.gen_insertions(rng, vars_[-2], rng.randint(1, 2))
    if vars_[-1].kind in ("cat", "cat_date") and rng.random() < 0.35:
        col_ins = su.gen_insertions(rng, vars_[-1], rng.randint(1, 2))
    # element transforms hiding rows / columns that may well have respondents: the baseline must not care
    row_hide = su.gen_hide(rng, vars_[-2], 0.35)
    col_hide = su.gen_hide(rng, vars_[-1], 0.15)
    return {"vars": [v.to_json() for v in vars_], "survey": gen.survey_to_json(survey), "weighted": weighted,
            "row_ins": row_ins, "col_ins": col_ins, "scale": su.pick_scale(rng, 0.12),
            "row_hide": row_hide, "col_hide": col_hide, "wregime": regime}


def generate(ctx):
    return [gen_case(ctx.rng) for _ in range(ctx.n(260, 12000))]


def _sides(case, vars_):
    rb, rs = su.sides_of(vars_[-2], case["row_ins"])
    cb, cs = su.sides_of(vars_[-1], case["col_ins"])
    return rb + rs, cb + cs


def lean_ops(case):
    vars_, survey = su.load_case(case)
    lv = su.lean_vars(vars_)
    ls = gen.survey_lean(vars_, survey)
    rows, cols = _sides(case, vars_)
    # large samples: the survey replicated K times (raw array and weights times K)
    kk = case.get("scale", 1)
    data = [gen.frac_str(x * kk) for x in gen.tabulate(vars_, survey, case["weighted"])]
    lsk = gen.survey_lean(vars_, su.scaled_survey(survey, kk))
    ops = [{"op": "cubeof", "vars": lv, "survey": ls}]
    for k in range(su.n_partitions(vars_)):
        ops.append({"op": "c16_model", "vars": lv, "data": data, "k": k, "rows": rows, "cols": cols})
        ops.append({"op": "c16_spec", "vars": lv, "survey": lsk, "k": k, "rows": rows, "cols": cols})
    return ops


def _locus(vars_, k, what, f4=False, extra=""):
    if f4:
        return "column_index.3d.missing-table-category-before-valid"
    rk = "mr" if vars_[-2].kind == "mr" else "cat"
    ck = "mr" if vars_[-1].kind == "mr" else "cat"
    return "column_index.%s.%sx%s%s%s" % (what, rk, ck, ".3d" if len(vars_) == 3 else "", extra)


def _is_derived(v, e):
    """is base element e (position among the valid elements) of dimension variable v a derived MR item?"""
    return v.kind == "mr" and e < len(v.items) and bool(v.items[e].get("derived"))


def evaluate(case, louts, ctx):
    from cr.cube.cube import Cube
    vars_, survey = su.load_case(case)
    findings = []
    ctx.count("kinds:" + su.kinds_key(vars_))
    w = [gen.frac_str(x) for x in gen.tabulate(vars_, survey, True)]
    u = [gen.frac_str(x) for x in gen.tabulate(vars_, survey, False)]
    if louts[0]["weighted"] != w or louts[0]["unweighted"] != u:
        raise common.HarnessFault("python tabulator != Lean cubeOf on %r" % case)
    resp = su.scale_response(gen.cube_response(vars_, survey, case["weighted"]), case.get("scale", 1))
    if case.get("scale", 1) > 1:
        ctx.count("large_sample_cases:%s" % ("weighted" if case["weighted"] else "unweighted"))
    cube = Cube(resp, transforms=su.transforms_of(case["row_ins"], case["col_ins"], case.get("row_hide", ()),
                                                  case.get("col_hide", ())))
    if case.get("row_hide") or case.get("col_hide"):
        ctx.count("cases_with_hidden_elements")
    if any(v.typedef_perm is not None for v in vars_):
        ctx.count("cases_with_typedef_order")
    if case.get("wregime"):
        ctx.count("weight_regime:%s.%s" % (case["wregime"], _locus(vars_, 0, "x").split(".")[-1]))
    nparts = su.n_partitions(vars_)
    parts = common.call_impl(lambda: len(cube.partitions))
    if parts != nparts:
        if nparts == 0:
            return findings, None   # no valid table element: nothing to observe
        findings.append({"kind": "model", "locus": "npartitions", "detail": "%r != %r" % (parts, nparts)})
        return findings, None
    rows, cols = _sides(case, vars_)
    nontrivial = False
    wsv = survey if case["weighted"] else [(Fraction(1), a) for _, a in survey]
    for k in range(nparts):
        model, spec = louts[1 + 2 * k], louts[2 + 2 * k]
        sl = cube.partitions[k]
        ro = common.call_impl(lambda: sl.row_order().tolist())
        co = common.call_impl(lambda: sl.column_order().tolist())
        impl = common.call_impl(lambda: sl.column_index)
        if isinstance(impl, dict) or isinstance(ro, dict) or isinstance(co, dict):
            findings.append({"kind": "spec", "locus": _locus(vars_, k, "raises"),
                             "detail": "partition %d: column_index raises %r" % (k, impl)})
            continue
        n_hid_r = len(set(case.get("row_hide", ())))
        n_hid_c = len(set(case.get("col_hide", ())))
        if (len(ro) != len(rows) - n_hid_r or len(co) != len(cols) - n_hid_c
                or len(set(ro)) != len(ro) or len(set(co)) != len(co)):
            findings.append({"kind": "model", "locus": "column_index.shape",
                             "detail": "partition %d: order lengths %d,%d vs sides %d,%d" %
                                       (k, len(ro), len(co), len(rows), len(cols))})
            continue
        sp = common.model_to_float(su.block_pick(spec["column_index"], ro, co))
        md = common.model_to_float(su.block_pick(model["column_index"], ro, co))
        # F4 signature: table category missing before a valid one AND impl == pre-fix model
        f4 = False
        if len(vars_) == 3 and vars_[0].kind != "mr" and vars_[0].valid_cat_pos[k] != k:
            unfixed = common.model_to_float(su.block_pick(model["column_index_unfixed"], ro, co))
            # (only where the pre-fix model differs from the fixed one: otherwise the coincidence says nothing)
            f4 = common.deep_close(impl, unfixed)[0] and not common.deep_close(unfixed, md)[0]
        # -- inserted cells must be NaN; base cells must equal the spec ------------------------
        for ii, ri in enumerate(ro):
            for jj, cj in enumerate(co):
                ins = rows[ri]["inserted"] or cols[cj]["inserted"]
                ok, _ = common.deep_close(impl[ii][jj], sp[ii][jj])
                if not ok:
                    what = "inserted-not-nan" if ins else "base-cell"
                    # a derived (inserted) MR subvariable is a BASE element: its cells carry an ordinary index
                    extra = ".derived-element" if (not ins and (_is_derived(vars_[-2], ri) or _is_derived(vars_[-1], cj))) else ""
                    findings.append({"kind": "spec", "locus": _locus(vars_, k, what, f4, extra),
                                     "detail": "partition %d cell (%d,%d) [block idx %d,%d]: impl=%r spec=%r" %
                                               (k, ii, jj, ri, cj, impl[ii][jj], sp[ii][jj])})
                    break
            else:
                continue
            break
        ok, where = common.deep_close(impl, md)
        if not ok:
            findings.append({"kind": "model", "locus": "seam.column_index." + _locus(vars_, k, "model"),
                             "detail": "partition %d: impl vs model%s" % (k, where)})
        # -- internal seam: the baseline itself ------------------------------------------------
        nr, nc = su.n_valid_elems(vars_[-2]), su.n_valid_elems(vars_[-1])

        def _bl():
            b = sl._measures._cube_measures.unconditional_cube_counts.baseline
            return np.broadcast_to(b, (nr, nc))
        ibl = common.call_impl(_bl)
        mbl = common.model_to_float(model["baseline"])
        if isinstance(ibl, dict):
            ctx.count("baseline_seam_unavailable")
        else:
            ok, where = common.deep_close(ibl, mbl)
            if not ok:
                findings.append({"kind": "model", "locus": "seam.baseline." + _locus(vars_, k, "model"),
                                 "detail": "partition %d: impl baseline vs model%s" % (k, where)})
            sbl = common.model_to_float(spec["baseline"])
            ok, where = common.deep_close([r[0] for r in ibl] if nc else [], sbl if nc else [])
            if not ok and vars_[-1].kind != "mr":
                findings.append({"kind": "spec", "locus": _locus(vars_, k, "baseline", f4),
                                 "detail": "partition %d: impl baseline vs spec%s impl=%r spec=%r" % (k, where, ibl, sbl)})
        # -- non-triviality: finite index and conditional != unconditional share ---------------
        cx = su.SliceCtx(vars_, wsv, k)
        finite = any(isinstance(x, float) and np.isfinite(x) and x != 0 for r in impl for x in r)
        differs = False
        for e in range(nr):
            R = {"add": [e], "sub": []}
            for f in range(nc):
                C = {"add": [f], "sub": []}
                a = cx.W(lambda ar, ac: su.in_elem(cx.vr, ar, e))
                b = cx.W(lambda ar, ac: su.elig_for(cx.vr, ar, e))
                a2 = cx.W(cx.base_pred("row", R, C))
                b2 = cx.W(cx.base_pred("table", R, C))
                if b and b2 and a * b2 != a2 * b:
                    differs = True
        if finite and differs:
            nontrivial = True
            ctx.count("nontrivial_partitions")
        if len(vars_) == 3 and vars_[0].kind != "mr" and vars_[0].valid_cat_pos[k] != k:
            ctx.count("partitions_with_missing_table_cat_before_valid")
    key = (su.kinds_key(vars_), tuple(tuple(v.cat_missing) for v in vars_), tuple(w)) if nontrivial else None
    return findings, key


def describe(case):
    vars_, survey = su.load_case(case)
    return {"kinds": [v.kind for v in vars_], "missing_flags": [v.cat_missing for v in vars_],
            "n_respondents": len(survey), "weighted": case["weighted"],
            "n_row_ins": len(case["row_ins"]), "n_col_ins": len(case["col_ins"]),
            "row_hide": case.get("row_hide", []), "col_hide": case.get("col_hide", []),
            "typedef_perm": [v.typedef_perm for v in vars_], "scale": case.get("scale", 1),
            "first_respondents": case["survey"][:3]}


def shrink_candidates(case):
    for c in su.shrink_survey(case):
        yield c
    for key in ("row_hide", "col_hide"):
        if case.get(key):
            yield dict(case, **{key: []})
    if case["row_ins"]:
        yield dict(case, row_ins=[])
    if case["col_ins"]:
        yield dict(case, col_ins=[])
    if case["weighted"]:
        yield dict(case, survey=[["1", a] for _, a in case["survey"]])
    if case.get("scale", 1) > 1:
        yield dict(case, scale=1)
