"""C03 — proportions are count over base, bounded, and sum to one."""
import math
import common
from props import _slice_common as sc

PROPERTY = "C03"
LEAN_MODULE = "CrCube.Props.C03"
THEOREMS = [
    "CrCube.C03.prop_spec",
    "CrCube.C03.prop_range",
    "CrCube.C03.prop_nan_iff",
    "CrCube.C03.pct_def",
    "CrCube.C03.row_props_sum_one",
    "CrCube.C03.col_props_sum_one",
    "CrCube.C03.rowsMarginProportion_def",
    "CrCube.C03.columnsMarginProportion_def",
    "CrCube.C03.rowsTableBase_defined",
    "CrCube.C03.columnsTableBase_defined",
]
RULE = ("random designs x surveys as in C01/C02 incl. empty rows/columns (zero bases) and all-zero tables; every proportion, "
        "percentage and margin-proportion output of every partition compared with count/base of the respondent-level spec, "
        "range [0,1], NaN iff base = 0, x100, and sum-to-one along categorical dimensions checked on the implementation's "
        "own outputs; non-trivial = some proportion strictly between 0 and 1; distinct = (kinds, survey prefix, size)")
ASSUMPTIONS = ["Spec.cubeOf is the back end's tabulation (checked per case in C01)", "weights are non-negative"]

DIRS = [("row", "row_bases"), ("column", "column_bases"), ("table", "table_bases")]


def generate(ctx):
    cases = [sc.gen_case(ctx.rng) for _ in range(ctx.n(150, 3000))]
    # all-zero tables and tiny surveys on purpose
    for _ in range(ctx.n(20, 200)):
        cases.append(sc.gen_case(ctx.rng, n_resp=ctx.rng.choice([0, 0, 1, 2])))
    return cases


def lean_ops(case):
    return sc.api_ops(case)


def _after_smoothed_reads(case, ctx, findings):
    """percentages are 100 x proportions also AFTER the smoothed variants were read on the same partition
    (categorical-date columns with a smoother transform): the plain outputs must not pick up smoothed values."""
    import copy
    vars_, survey = sc.load(case)
    kinds = sc.kinds_of(vars_)
    if len(kinds) < 2 or vars_[-1].kind != "cat_date" or len(vars_[-1].valid_cat_pos) < 2:
        return
    ctx.count("smoothed_read_order_cases")
    tr = {"columns_dimension": {"smoother": {"function": "one_sided_moving_avg", "window": 2}}}
    for first in (True, False):
        cube = sc.make_cube(case, transforms=copy.deepcopy(tr))
        for k, part in enumerate(cube.partitions):
            if first:
                for name in ("smoothed_column_percentages", "smoothed_column_proportions", "smoothed_column_index"):
                    common.call_impl(lambda: getattr(part, name))
            cp = common.call_impl(lambda: part.column_proportions)
            cpc = common.call_impl(lambda: part.column_percentages)
            if not first:
                for name in ("smoothed_column_percentages", "smoothed_column_proportions"):
                    common.call_impl(lambda: getattr(part, name))
                cp2 = common.call_impl(lambda: part.column_proportions)
                sc.compare(findings, "spec", "slice.column_proportions.changed-by-smoothed-read", cp2, cp, "partition %d" % k)
            if isinstance(cp, list) and isinstance(cpc, list):
                exp = [[100 * x for x in r] for r in cp]
                sc.compare(findings, "spec", "slice.column_percentages.x100-after-smoothed-read" if first else
                           "slice.column_percentages.x100", cpc, exp, "partition %d (smoothed variants read %s)" % (k, "first" if first else "after"))
            plain = sc.make_cube(case).partitions[k]
            sc.compare(findings, "spec", "slice.column_proportions.smoother-transform-changes-plain-output", cp,
                       common.call_impl(lambda: plain.column_proportions), "partition %d" % k)


def _with_subtotals(case, ctx, findings):
    """the same laws on INSERTED (non-difference) subtotal cells, judged on the implementation's own counts and
    bases (whose respondent-level meaning is C02's / C04's business): proportion = count / base, within [0,1],
    NaN exactly where the base is zero, percentages = 100 x."""
    import copy
    import random
    vars_, survey = sc.load(case)
    rng = random.Random(repr(case["survey"][:2]) + str(len(survey)))
    kinds = sc.kinds_of(vars_)
    if len(vars_) == 1 and vars_[0].kind == "ca":
        return
    dims = [vars_[0]] if len(kinds) == 1 else vars_[-2:]
    tr = {}
    for name, v in zip(["rows_dimension", "columns_dimension"], dims):
        ins = sc.gen_insertions(rng, v, allow_diff=False, allow_hide=False)
        if ins:
            tr[name] = {"insertions": ins}
    if not tr:
        return
    ctx.count("subtotal_cases")
    cube = sc.make_cube(case, transforms=copy.deepcopy(tr))
    for k, part in enumerate(cube.partitions):
        if len(kinds) >= 2:
            triples = [("row_proportions", "row_weighted_bases", "row_percentages"),
                       ("column_proportions", "column_weighted_bases", "column_percentages"),
                       ("table_proportions", "table_weighted_bases", "table_percentages")]
        else:
            triples = [("table_proportions", "weighted_bases", "table_percentages")]
        counts = common.call_impl(lambda: part.counts)
        for pn, bn, pcn in triples:
            props = common.call_impl(lambda: getattr(part, pn))
            bases = common.call_impl(lambda: getattr(part, bn))
            pcts = common.call_impl(lambda: getattr(part, pcn))
            if not (isinstance(props, list) and isinstance(bases, list) and isinstance(counts, list)):
                findings.append({"kind": "spec", "locus": "subtotals.%s.raises" % pn, "detail": "%r %r" % (props, bases)})
                continue
            flat = lambda x: [y for r in x for y in r] if x and isinstance(x[0], list) else list(x)
            P, B, C, PC = flat(props), flat(bases), flat(counts), flat(pcts) if isinstance(pcts, list) else None
            if not (len(P) == len(B) == len(C)):
                findings.append({"kind": "spec", "locus": "subtotals.%s.extent" % pn, "detail": "%d %d %d" % (len(P), len(B), len(C))})
                continue
            for idx, (p, b, c) in enumerate(zip(P, B, C)):
                exp = _div(c, b)
                if not common.num_close(p, exp):
                    findings.append({"kind": "spec", "locus": "subtotals.%s.count-over-base" % pn,
                                     "detail": "partition %d flat cell %d: %r but count %r / base %r; transforms %r" % (k, idx, p, c, b, tr)})
                    break
                if PC is not None and not common.num_close(PC[idx], 100 * p if p == p else p):
                    findings.append({"kind": "spec", "locus": "subtotals.%s.x100" % pcn, "detail": "%r vs %r" % (PC[idx], p)})
                    break


def _div(c, b):
    if b == 0:
        return float("nan") if c == 0 else math.copysign(float("inf"), c)
    return c / b


def evaluate(case, louts, ctx):
    vars_, survey = sc.load(case)
    kinds = sc.kinds_of(vars_)
    ctx.count("kinds:" + "x".join(kinds))
    findings = []
    cube = sc.make_cube(case)
    key = None
    w = case["weighted"]
    pre = "" if w else "u"
    if len(kinds) >= 2:
        np_ = sc.nparts(vars_)
        if common.call_impl(lambda: len(cube.partitions)) != np_:
            return [{"kind": "spec", "locus": "npartitions", "detail": "partition count"}], None
        for k in range(np_):
            api, spec = louts[2 * k], louts[2 * k + 1]
            sl = cube.partitions[k]
            counts = common.model_to_float(spec[pre + "counts"])
            for d, bkey in DIRS:
                bases = common.model_to_float(spec[pre + bkey])
                expect = [[_div(c, b) for c, b in zip(cr, br)] for cr, br in zip(counts, bases)]
                name = "%s_proportions" % d
                impl = common.call_impl(lambda: getattr(sl, name))
                sc.compare(findings, "spec", "slice.%s" % name, impl, expect, "partition %d" % k)
                sc.compare(findings, "model", "seam.slice_api.%s" % name, impl, common.model_to_float(api[name]), "partition %d" % k)
                pname = "%s_percentages" % d
                pimpl = common.call_impl(lambda: getattr(sl, pname))
                sc.compare(findings, "spec", "slice.%s" % pname, pimpl, [[100 * x for x in r] for r in expect], "partition %d" % k)
                if isinstance(impl, list):
                    for i, (row, brow) in enumerate(zip(impl, bases)):
                        for j, (x, b) in enumerate(zip(row, brow)):
                            nan = isinstance(x, float) and math.isnan(x)
                            if nan != (b == 0):
                                findings.append({"kind": "spec", "locus": "slice.%s.nan-iff-zero-base" % name,
                                                 "detail": "partition %d cell (%d,%d) value %r base %r" % (k, i, j, x, b)})
                            if not nan and not (-1e-12 <= x <= 1 + 1e-12):
                                findings.append({"kind": "spec", "locus": "slice.%s.range" % name,
                                                 "detail": "partition %d cell (%d,%d) value %r" % (k, i, j, x)})
                            if not nan and 0 < x < 1:
                                key = ("x".join(kinds), tuple(map(tuple, counts)), len(survey))
            # sum to one along a categorical dimension (all base elements; no transforms here)
            rk, ck = kinds[-2], kinds[-1]
            rp = common.call_impl(lambda: sl.row_proportions)
            cp = common.call_impl(lambda: sl.column_proportions)
            rb = common.model_to_float(spec[pre + "row_bases"])
            cb = common.model_to_float(spec[pre + "column_bases"])
            if ck == "cat" and isinstance(rp, list):
                for i, row in enumerate(rp):
                    if row and rb[i][0] > 0 and not common.num_close(sum(row), 1.0, 1e-9, 1e-9):
                        findings.append({"kind": "spec", "locus": "slice.row_proportions.sum-to-one",
                                         "detail": "partition %d row %d sums to %r" % (k, i, sum(row))})
            if rk == "cat" and isinstance(cp, list) and cp:
                for j in range(len(cp[0])):
                    col = [r[j] for r in cp]
                    if cb[0][j] > 0 and not common.num_close(sum(col), 1.0, 1e-9, 1e-9):
                        findings.append({"kind": "spec", "locus": "slice.column_proportions.sum-to-one",
                                         "detail": "partition %d col %d sums to %r" % (k, j, sum(col))})
            if rk == "cat" and ck == "cat":
                tp = common.call_impl(lambda: sl.table_proportions)
                tb = common.model_to_float(spec[pre + "table_bases"])
                if isinstance(tp, list) and tp and tp[0] and tb[0][0] > 0:
                    tot = sum(sum(r) for r in tp)
                    if not common.num_close(tot, 1.0, 1e-9, 1e-9):
                        findings.append({"kind": "spec", "locus": "slice.table_proportions.sum-to-one",
                                         "detail": "partition %d sums to %r" % (k, tot)})
            for name in ("rows_margin_proportion", "columns_margin_proportion"):
                impl = common.call_impl(lambda: getattr(sl, name))
                sc.compare(findings, "spec", "slice.%s" % name, impl, common.model_to_float(api[name]), "partition %d" % k)
    else:
        api, spec = louts[0], louts[1]
        st = cube.partitions[0]
        counts = common.model_to_float(spec[pre + "counts"])
        bases = common.model_to_float(spec[pre + "bases"])
        expect = [_div(c, b) for c, b in zip(counts, bases)]
        impl = common.call_impl(lambda: st.table_proportions)
        sc.compare(findings, "spec", "strand.table_proportions", impl, expect)
        sc.compare(findings, "model", "seam.strand_api.table_proportions", impl, common.model_to_float(api["table_proportions"]))
        pimpl = common.call_impl(lambda: st.table_percentages)
        sc.compare(findings, "spec", "strand.table_percentages", pimpl, [100 * x for x in expect])
        if kinds == ["cat"] and isinstance(impl, list) and bases and bases[0] > 0:
            if not common.num_close(sum(impl), 1.0, 1e-9, 1e-9):
                findings.append({"kind": "spec", "locus": "strand.table_proportions.sum-to-one", "detail": repr(impl)})
        if any(0 < x < 1 for x in expect if not math.isnan(x)):
            key = ("x".join(kinds), tuple(counts), len(survey))
    _with_subtotals(case, ctx, findings)
    _after_smoothed_reads(case, ctx, findings)
    return findings, key


describe = sc.describe
shrink_candidates = sc.shrink_candidates
