"""C19 (context) — WHICH item a reference denotes is a matter of the dimension and the reference alone.

The statement speaks of an array item being "referenced by its alias, its sub-variable id, or its numeric element id
written as int or string": the relation is between a spelling and the items of the dimension.  The transforms dict
that carries the reference also carries entries that hold NO element reference at all (`insertions`, `prune`, `name`,
`description`, `smoother`, unknown keys; `direction` / `measure` inside `order`).  Those "bystanders" may change the
output, but never the item a reference resolves to: where a string spells two items (real MR-insertion payloads:
decimal sub-variable ids "1","2",.. against renumbered element ids) the resolver has to pick one, and it must pick
the same one whatever else the dict holds - in hide / rename, explicit order, fixed lists and the LATE translation of
an opposing-element id (done by the opposing dimension with ITS OWN transforms dict) alike.

Seams
  ctx-shim  array dimension (the c19 universe + random dimensions, weighted towards MR dimensions with view
            insertions and colliding spellings) x bystander decoration: `Dimension(dim, type, bystanders)
            .translate_element_id` for every spelling / position / stale reference, and for a transforms dict filling
            all slots in every spelling class: the caller's dict after the shim, the dimension-level consumers
            (element transforms, hidden idxs, explicit order, fixed idxs, opposing idx) -
              vs the same run WITHOUT the bystanders                      kind "spec"  context.*.depends-on-bystander
              vs the Lean spec resolver (where the statement decides)     kind "spec"  context.*.spelling
              vs the Lean model (`translate`, `shimXf`, `view`)           kind "model" seam.context.*
            and the bystanders themselves must come out of the shim untouched.
  ctx-api   real cubes whose transforms carry bystanders on BOTH dimension entries (so that a dimension that is only
            referred to from the other one - sort by opposing element - still has a transforms dict of its own):
            collision-free dimensions: every spelling class gives the output of the alias spelling;
            colliding dimensions: a reference r gives the output of the alias the library itself resolves r to on
            the bare dimension (no transforms).
"""
import copy
import json
import random

import common
from props import c19 as base
from props import shim_api as sa
from props import shim_common as sc

PROPERTY = "C19"
LEAN_MODULE = "CrCube.Props.C19_Context"
THEOREMS = [
    "CrCube.C19.decStr_injective",
    "CrCube.C19.regular_decimal_eid_on_mr_insertions",
    "CrCube.C19.shim_ignores_bystanders",
    "CrCube.C19.view_ignores_bystanders",
    "CrCube.C19.context_counterexample",
]
RULE = ("ctx-shim: dimensions drawn from the c19 universe (half of them MR with view insertions and colliding "
        "spellings: family B), the rest of the universe and random dimensions over the shared string pool; every "
        "member of the bystander pool is used in turn (round robin, so each one meets many dimensions at every seed); "
        "per (dimension, bystander): all references through translate, one all-slots transforms dict per spelling "
        "class x {first, last} rotation + the stale / duplicate mix. ctx-api: real cubes (MR with insertions on rows "
        "or columns, MR, CA) x slot x item x bystanders on both dimension entries. non-trivial = some reference "
        "resolves other than by alias under a non-empty decoration; distinct = (dimension, bystander) / api design key")
ASSUMPTIONS = [
    "bystanders are well-formed entries of a dimension-transforms dict as the library reads them (`insertions` a "
    "list of dicts, `prune` a bool, ...); malformed ones (insertions: null) are out of scope",
    "a bystander never names an existing inserted item with hide=true at the ctx-shim seam (that legitimately hides "
    "the item); at the ctx-api seam such entries and prune=true are used too, outputs are then compared only between "
    "runs that carry the SAME bystanders",
]
TRUSTED_EXTRA = []
EXHAUSTIVE = False


def F(kind, locus, detail):
    return {"kind": kind, "locus": locus, "detail": detail[:1100]}


# ---------------------------------------------------------------------------------------
# bystanders: entries of a dimension-transforms dict that hold no element reference


def _subtotal(name, **kw):
    d = {"anchor": "top", "function": "subtotal", "name": name, "args": [1, 2]}
    d.update(kw)
    return d


def bystander_pool(dim):
    """NEUTRAL decorations for the ctx-shim seam: {"dim": top-level entries, "order": entries of the order dict}"""
    first_sv = dim["items"][0]["subvar_id"]
    return [
        {"dim": {"insertions": []}},
        {"dim": {"prune": True}},
        {"dim": {"insertions": [_subtotal("no such insertion", hide=True)]}},
        {"dim": {"insertions": [_subtotal("Extra")]}, "order": {"direction": "ascending"}},
        {"dim": {"insertions": [], "prune": False, "name": "Dim renamed"}},
        {"dim": {"description": "about", "smoother": None, "x-unknown": {"elements": {"1": {"hide": True}}}}},
        {"dim": {"insertions": [_subtotal(first_sv, hide=False)]}},
        {"dim": {"insertions": []}, "order": {"measure": "col_percent", "x-unknown": [1, "2"]}},
        {"dim": {}},       # control: no bystander at all (the seam must then agree with itself)
    ]


def decorate(t, deco):
    """the transforms dict `t` plus bystanders; never replaces an entry that `t` already has"""
    for k, v in deco.get("dim", {}).items():
        t.setdefault(k, copy.deepcopy(v))
    if deco.get("order") and isinstance(t.get("order"), dict):
        for k, v in deco["order"].items():
            t["order"].setdefault(k, copy.deepcopy(v))
    return t


def bystanders_of(t, deco):
    out = {k: t.get(k, "<gone>") for k in deco.get("dim", {})}
    if deco.get("order") and isinstance(t.get("order"), dict):
        out["order"] = {k: t["order"].get(k, "<gone>") for k in deco["order"]}
    return out


def bystanders_want(t, deco):
    out = {k: v for k, v in deco.get("dim", {}).items()}
    if deco.get("order") and isinstance(t.get("order"), dict):
        out["order"] = dict(deco["order"])
    return out


API_BYSTANDERS_ARRAY = [
    ({"insertions": []}, True),
    ({"insertions": [], "prune": False}, True),
    ({"insertions": [{"anchor": "top", "function": "any_non_missing_selected", "name": "no such insertion",
                      "hide": True, "kwargs": {"variable": "m", "subvariable_ids": []}}]}, True),
    ({"prune": True}, False),
    ({"name": "Dim renamed", "description": "about"}, True),
    ({"insertions": "HIDE-INSERTED"}, False),     # a copy of the variable's insertion with hide=true (replaced below)
    ({"insertions": [], "x-unknown": {"elements": {"1": {"hide": True}}}}, True),
]
API_BYSTANDERS_OTHER = [None, {"insertions": []}, {"prune": False}, {"name": "Other renamed"}, None]


# ---------------------------------------------------------------------------------------
# generation


def sensitive_universe():
    """the members of the c19 universe on which a cascade rule is conditional on something beyond the items
    (MR with view insertions) and spellings collide"""
    return [u for u in base.universe() if u[0] == "B" and u[1] == "MR_INS"]


def shim_case_of(u):
    fam, kind, n, idpat, anchors, sv, al, derived = u[:8]
    return {"t": "ctx-shim", "fam": fam, "kind": kind, "n": n, "idpat": idpat,
            "anchors": list(anchors) if anchors else None, "sv": sv, "al": al,
            "derived": list(derived) if derived else None, "noid": u[8] if len(u) > 8 else None}


def generate(ctx):
    rng = ctx.rng
    cases = []
    uni = base.universe()
    sens = sensitive_universe()
    npool = len(bystander_pool({"items": [{"subvar_id": "x"}]}))
    n_shim = ctx.n(216, 3000)
    for i in range(n_shim):
        m = i % 4
        if m in (0, 1):
            c = shim_case_of(rng.choice(sens))
        elif m == 2:
            c = shim_case_of(rng.choice(uni))
        else:
            kind, dim = base.random_dim(rng)
            c = {"t": "ctx-shim", "fam": "C", "kind": kind, "dim": dim}
        # round robin over the pool, decoupled from the dimension class (i // 4 runs through all residues)
        c["deco"] = (i // 4 + i) % npool
        cases.append(c)
    for i in range(ctx.n(70, 900)):
        if i % 2 == 0:
            c = base.api_case_mrins(rng)
        else:
            c = base.api_case(rng)
            c["layout"] = rng.choice(["mr_x_cat", "cat_x_mr", "mr_x_mr", "ca_x_cat", "cat_x_ca", "mrins_x_cat",
                                      "cat_x_mrins", "cat_x_mr_x_cat"])
            c["stale"] = False
        c["t"] = "ctx-api"
        c["by_arr"] = i % len(API_BYSTANDERS_ARRAY)
        c["by_other"] = rng.randrange(len(API_BYSTANDERS_OTHER))
        cases.append(c)
    return cases


def case_xfs(case, dim):
    n = len(dim["items"])
    xfs = []
    for cls in base.CLASSES:
        for r in sorted({0, n - 1}):
            xfs.append(base.xf_for(dim, cls, r))
    xfs.append(base.extra_xfs(dim)[0])          # stale + malformed + duplicates, no null
    return xfs


def lean_ops(case):
    if case["t"] == "ctx-shim":
        dim = base.case_dim(case)
        ops = [{"op": "translate", "dim": dim, "refs": base.refs_for(dim)}]
        for xf in case_xfs(case, dim):
            ops.append({"op": "shim_transforms", "dim": dim, "xf": xf})
        return ops
    if case["t"] == "ctx-api":
        return sa.lean_ops(dict(case, t="api"))
    raise common.HarnessFault("unknown case type %r" % case.get("t"))


# ---------------------------------------------------------------------------------------
# evaluation


def evaluate(case, louts, ctx):
    ctx.count("cases:" + case["t"])
    try:
        if case["t"] == "ctx-shim":
            return eval_shim(case, louts, ctx)
        return eval_api(case, louts, ctx)
    except common.HarnessFault:
        raise
    except Exception as e:  # noqa
        import traceback
        tb = traceback.extract_tb(e.__traceback__)
        lib = [fr for fr in tb if "/cr/cube/" in fr.filename]
        if not lib:
            raise
        return [F("spec", "context.%s.library-raises" % case["t"],
                  "%s: %s at %s:%d (%s)" % (type(e).__name__, e, lib[-1].filename.split("/cr/cube/")[-1],
                                            lib[-1].lineno, lib[-1].name))], None


def eval_shim(case, louts, ctx):
    from cr.cube.dimension import Dimension
    findings = []
    dim = base.case_dim(case)
    kind = case["kind"]
    dtype = sc.dim_type_of(kind)
    deco = bystander_pool(dim)[case["deco"]]
    aliases = [it["alias"] for it in dim["items"]]
    refs = base.refs_for(dim)
    tout = louts[0]
    ctx.count("ctx-deco:%d" % case["deco"])
    ctx.count("ctx-nocollision:%s" % tout["nocollision"])
    desc = "dim=%s kind=%s bystanders=%s" % (json.dumps(dim), kind, json.dumps(deco))
    nontrivial = False
    differs_somewhere = False
    # ---- translate: bare dimension vs dimension whose transforms dict holds only bystanders -------------
    d_bare = Dimension(sc.real_dim_dict(dim, kind), dtype)
    d_deco = Dimension(sc.real_dim_dict(dim, kind), dtype, decorate({}, deco))
    for r, m, s in zip(refs, tout["model"], tout["spec"]):
        v0, e0 = sc.exc_name(lambda: d_bare.translate_element_id(r))
        v1, e1 = sc.exc_name(lambda: d_deco.translate_element_id(r))
        if e0:
            continue            # c19 proper reports a raising bare dimension
        i1 = {"raises": e1} if e1 else v1
        if i1 != v0:
            differs_somewhere = True
            findings.append(F("spec", "context.translate.depends-on-bystander",
                              "%s ref=%r: the bare dimension resolves it to %r, the same dimension with these "
                              "bystanders in its transforms dict to %r (no entry of the dict but the reference itself "
                              "may decide which item it denotes)" % (desc, r, v0, i1)))
        if isinstance(s, dict):
            want = aliases[s["item"]]
            if i1 != want:
                findings.append(F("spec", "context.translate.spelling",
                                  "%s ref=%r denotes item %d (%r) but library gives %r" % (desc, r, s["item"], want, i1)))
            if r != want and deco["dim"]:
                nontrivial = True
        elif s == "nothing" and (e1 or i1 is not None):
            findings.append(F("spec", "context.translate.unmatched",
                              "%s ref=%r matches nothing but library gives %r" % (desc, r, i1)))
        if i1 != m and not (e1 and s == "nothing"):
            findings.append(F("model", "seam.context.translate", "%s ref=%r impl=%r model=%r" % (desc, r, i1, m)))
        if len(findings) > 8:
            break
    # ---- all slots ---------------------------------------------------------------------------------------
    for xf, lo in zip(case_xfs(case, dim), louts[1:]):
        if len(findings) > 8:
            break
        findings += shim_one(dim, kind, dtype, xf, lo, deco, desc, ctx)
    key = None
    if nontrivial:
        key = ("ctx", case.get("fam"), kind, json.dumps(dim, sort_keys=True), case["deco"])
    return findings, key


VIEW_KEYS = ("element_ids", "xforms", "hidden", "order", "top", "bottom", "opposing")
SLOT_OF = {"xforms": "hide-rename", "hidden": "hide-rename", "order": "explicit-order", "top": "fixed-top",
           "bottom": "fixed-bottom", "opposing": "opposing-element", "element_ids": "element-ids"}


def shim_one(dim, kind, dtype, xf, lo, deco, desc, ctx):
    from cr.cube.dimension import _ElementIdShim
    findings = []
    ctxs = "%s xf=%s" % (desc, json.dumps(xf))
    # --- reference run: the same dicts without bystanders
    dd0, t0 = sc.real_dim_dict(dim, kind), sc.real_xf(xf)
    iv0, exc0 = sc.exc_name(lambda: sc.impl_view(dd0, dtype, t0))
    if exc0:
        return findings             # c19 proper reports it
    # --- decorated run
    dd, t = sc.real_dim_dict(dim, kind), decorate(sc.real_xf(xf), deco)
    _, exc = sc.exc_name(lambda: _ElementIdShim(dtype, dd, t).shimmed_dimension_transforms_dict)
    if exc:
        return [F("spec", "context.shim-raises", "%s: shimming raises %s (it does not without the bystanders)" % (ctxs, exc))]
    if sc.non_json_path(t):
        return [F("spec", "context.non-list-value", "%s: %s" % (ctxs, sc.non_json_path(t)))]
    if bystanders_of(t, deco) != bystanders_want(t, deco):
        findings.append(F("spec", "context.bystander-rewritten", "%s: the shim changed entries that hold no element "
                          "reference: %s" % (ctxs, sc.jdump(bystanders_of(t, deco)))))
    got1 = sc.model_xf(t)
    if got1 != sc.model_xf(t0):
        findings.append(F("spec", "context.rewrite.depends-on-bystander",
                          "%s: references rewritten to %s, without the bystanders to %s" %
                          (ctxs, json.dumps(got1), json.dumps(sc.model_xf(t0)))))
    want1 = sc.norm_model_xf(lo["xf1"])
    if got1 != want1:
        findings.append(F("model", "seam.context.shim_transforms", "%s: dict after shim %s, model %s" %
                          (ctxs, json.dumps(got1), json.dumps(want1))))
    iv, exc = sc.exc_name(lambda: sc.impl_view(dd, dtype, t))
    if exc:
        findings.append(F("spec", "context.consumer-raises", "%s: analysis raises %s (it does not without the "
                          "bystanders)" % (ctxs, exc)))
        return findings
    ic, ic0 = sc.impl_view_cmp(iv), sc.impl_view_cmp(iv0)
    for k in VIEW_KEYS:
        if ic[k] != ic0[k]:
            findings.append(F("spec", "context.slot.%s.depends-on-bystander" % SLOT_OF[k],
                              "%s: %s = %r, without the bystanders %r: the same references denote other items" %
                              (ctxs, k, ic[k], ic0[k])))
    mv = sc.model_view_cmp(lo["view"])
    for k in mv:
        if mv[k] != ic[k]:
            findings.append(F("model", "seam.context.view.%s" % k, "%s: impl %r model %r" % (ctxs, ic[k], mv[k])))
    sp = lo["spec"]
    if sp["xforms"] is not None:
        want = [{"hide": True if x["hide"] is True else None, "name": x["name"]} for x in sp["xforms"]]
        if want != ic["xforms"]:
            findings.append(F("spec", "context.slot.hide-rename.spelling", "%s: element transforms %r, statement gives %r" %
                              (ctxs, ic["xforms"], want)))
    for name in ("order", "top", "bottom"):
        if sp[name] is not None and sp[name] != ic[name]:
            findings.append(F("spec", "context.slot.%s.spelling" % SLOT_OF[name], "%s: %s idxs %r, statement gives %r" %
                              (ctxs, name, ic[name], sp[name])))
    if sp["opposing"] != "open" and sp["opposing"] != ic["opposing"]:
        findings.append(F("spec", "context.slot.opposing-element.spelling", "%s: opposing idx %r, statement gives %r" %
                          (ctxs, ic["opposing"], sp["opposing"])))
    return findings


# ---------------------------------------------------------------------------------------
# api


def api_deco(case, built, pl):
    """-> ({dimension key: bystander dict}, neutral?)"""
    side = pl["side"]
    items, mr_ins = built["arrays"][side]
    by, neutral = API_BYSTANDERS_ARRAY[case["by_arr"]]
    by = copy.deepcopy(by)
    if by.get("insertions") == "HIDE-INSERTED":
        ins = [it for it in items if it.get("anchor")]
        if ins:
            # "a client can include a hide: true field in a copy of a variable-based insertion": hides that derived item
            by["insertions"] = [{"anchor": "top", "function": "any_non_missing_selected", "name": ins[0]["subvar_id"],
                                 "hide": True, "kwargs": {"variable": "m", "subvariable_ids": []}}]
        else:
            by["insertions"] = []
            neutral = True
    deco = {side: by}
    ob = API_BYSTANDERS_OTHER[case["by_other"]]
    o = sa.other(side)
    if o in built["arrays"]:
        ob = copy.deepcopy(API_BYSTANDERS_ARRAY[(case["by_arr"] + 1) % 3][0])     # mr_x_mr: the other side is an array too
    if ob is not None:
        deco[o] = copy.deepcopy(ob)
    return deco, neutral


def decorate_api(t, deco):
    t = copy.deepcopy(t)
    for key, by in deco.items():
        d = t.setdefault(key, {})
        for k, v in by.items():
            d.setdefault(k, copy.deepcopy(v))
    return t


def bare_resolution(built, items):
    """what the LIBRARY resolves every spelling of every item to on the bare cube (no transforms at all)"""
    from cr.cube.cube import Cube
    from cr.cube.enums import DIMENSION_TYPE as DT
    cube = Cube(copy.deepcopy(built["resp"]))
    aliases = tuple(it["alias"] for it in items)
    for d in cube.dimensions:
        if d.dimension_type in DT.ARRAY_TYPES and tuple(d.all_elements.element_ids) == aliases:
            # NOT `d` itself: its shim object was made while the dimension still counted as CA_SUBVAR (the
            # promotion to MR_SUBVAR in `Dimensions.from_dicts` comes after `.alias` was read); partitions work
            # from `apply_transforms` copies, which carry the final type
            d = d.apply_transforms({})
            return {(i, c): d.translate_element_id(sa.spell(items, i, c))
                    for i in range(len(items)) for c in sa.SPELLS}
    raise common.HarnessFault("array dimension %r not found in the cube" % (aliases,))


def eval_api(case, louts, ctx):
    acase = dict(case, t="api")
    built = sa.build(acase)
    pl = sa.plan(acase, built)
    side, slot, k = pl["side"], pl["slot"], pl["k"]
    items, mr_ins = built["arrays"][side]
    n = len(items)
    tout, sout = louts
    deco, neutral = api_deco(case, built, pl)
    sslot = slot + ("-insertion" if pl["insertion"] else "")
    where = "%s.%s" % (sslot, "rows" if side == "rows_dimension" else "columns")
    desc = "layout=%s n=%d idpat=%s items=%s mr_ins=%s slot=%s item=%d side=%s bystanders=%s" % (
        case["layout"], n, case["idpat"],
        json.dumps([(it["id"], it["alias"], it["subvar_id"], it["anchor"]) for it in items]), mr_ins, sslot, k, side,
        json.dumps(deco))
    ctx.count("ctx-api:%s" % case["layout"])
    ctx.count("ctx-api-slot:%s" % sslot)
    ctx.count("ctx-api-nocollision:%s" % tout["nocollision"])
    findings = []
    resp = built["resp"]
    base_o = sa.observe(copy.deepcopy(resp), decorate_api({}, deco))
    if sa.raised(base_o):
        if sa.raised(sa.observe(copy.deepcopy(resp), {})):
            return [], None          # c19 proper reports a failing baseline
        return [F("spec", "context.api.bystanders-raise", "%s: the cube with ONLY the bystanders fails: %s" %
                  (desc, sa.raised(base_o)))], None
    res = bare_resolution(built, items)

    def resolver(i, c):
        return res[(i, c)] if res[(i, c)] is not None else "zz-unmatched"

    def tf(cls, resolved=False):
        return decorate_api(sa.transforms_for(acase, built, pl, cls, False, resolver=resolver if resolved else None), deco)

    t_alias = tf("alias")
    o_alias = sa.observe(copy.deepcopy(resp), copy.deepcopy(t_alias))
    r = sa.raised(o_alias)
    if r:
        if sa.raised(sa.observe(copy.deepcopy(resp), sa.transforms_for(acase, built, pl, "alias", False))):
            return [], None
        return [F("spec", "context.api.%s.raises" % where, "%s transforms=%s: %s (not without the bystanders)" %
                  (desc, json.dumps(t_alias), r))], None
    effect = not common.deep_close(o_alias, base_o)[0]
    for cls in sa.SPELLS:
        t = tf(cls)
        # --- (a) the library's own resolution on the bare dimension is the reference: always demanded
        tm = tf(cls, resolved=True)
        if t != tm:
            o, om = sa.observe(copy.deepcopy(resp), copy.deepcopy(t)), sa.observe(copy.deepcopy(resp), copy.deepcopy(tm))
            rr = sa.raised(o)
            if rr:
                findings.append(F("spec", "context.api.%s.raises" % where, "%s spelling=%s transforms=%s: %s" %
                                  (desc, cls, json.dumps(t), rr)))
                continue
            effect = effect or not common.deep_close(om, base_o)[0]
            ok, path = common.deep_close(o, om)
            if not ok:
                findings.append(F("spec", "context.api.%s.depends-on-bystander" % where,
                                  "%s: transforms %s give a different output (at %s) than %s, in which every reference "
                                  "is replaced by the alias the library resolves it to on the bare dimension: with the "
                                  "bystanders present the same reference denotes another item" %
                                  (desc, json.dumps(t), path, json.dumps(tm))))
                continue
        # --- (b) collision-free dimension: the statement itself says every spelling class is the alias spelling
        if tout["nocollision"] and cls != "alias" and t != t_alias:
            o = sa.observe(copy.deepcopy(resp), copy.deepcopy(t))
            if sa.raised(o):
                continue
            ok, path = common.deep_close(o, o_alias)
            if not ok:
                findings.append(F("spec", "context.api.%s.spelling" % where,
                                  "%s: spelling class %s gives different output than alias at %s; transforms=%s vs %s" %
                                  (desc, cls, path, json.dumps(t), json.dumps(t_alias))))
    if tout["nocollision"] and neutral:
        bare_base = sa.observe(copy.deepcopy(resp), {})
        for f in sa.check_effect(acase, built, pl, bare_base, o_alias, sout, desc, where):
            findings.append(F("spec", "context." + f["locus"], f["detail"]))
    key = ("ctx-api", case["layout"], n, case["idpat"], sslot, side, k, case["by_arr"]) if effect else None
    return findings, key


def describe(case):
    if case["t"] == "ctx-shim":
        dim = base.case_dim(case)
        return {"t": "ctx-shim", "kind": case["kind"], "dim": dim, "bystanders": bystander_pool(dim)[case["deco"]]}
    return {k: v for k, v in case.items() if k in ("t", "layout", "n", "idpat", "slot", "k", "by_arr", "by_other")}


def shrink_candidates(case):
    if case["t"] == "ctx-shim" and "dim" in case and len(case["dim"]["items"]) > 1:
        items = case["dim"]["items"]
        for i in range(len(items)):
            yield dict(case, dim=dict(case["dim"], items=items[:i] + items[i + 1:]))
    if case["t"] == "ctx-api" and case["n"] > 2 and not case.get("sv"):
        yield dict(case, n=case["n"] - 1, k=case["k"] % (case["n"] - 1))
