"""C07 — anchored ordering: payload / explicit element order with subtotals at their anchors;
signed and 'ins_N' renderings agree; numbering of id-less insertions.

Seams
  syn : the REAL collator classes on synthetic dimension-like objects (subtotal anchors given
        directly: stale ints, ids of derived items; derived items together with subtotals).
  col : the REAL collator classes (`PayloadOrderCollator`, `ExplicitOrderCollator`) on REAL
        `Dimension` objects built from a dimension dict + transforms (categorical with view /
        transform insertions; multiple-response with derived items), both formats,
        `.payload_order`, `dimension.subtotals.insertion_ids`.
  api : real cube responses (gen.py) -> `_Slice.row_order / column_order`, `_Strand.row_order`
        in both formats, `row_labels / column_labels`, `payload_order`.
Lean side: Model (`Model/Collator.lean`), Spec (`Spec/Order.lean`: the property statement as a
function).  impl vs Spec differences are `spec` findings, impl vs Model ones `model`.
"""
import copy
import itertools

import gen
import common
from props import _order_common as oc

PROPERTY = "C07"
LEAN_MODULE = "CrCube.Props.C07"
THEOREMS = [
    "CrCube.C07.display_eq_spec_payload", "CrCube.C07.display_eq_spec_explicit", "CrCube.C07.explicit_elem_order",
    "CrCube.C07.first_mention_wins", "CrCube.C07.order_nodup_payload", "CrCube.C07.order_nodup_explicit",
    "CrCube.C07.visible_iff_payload", "CrCube.C07.visible_iff_explicit", "CrCube.C07.subtotals_always_displayed",
    "CrCube.C07.hidden_def", "CrCube.C07.subtotal_after_anchor", "CrCube.C07.mem_subsAt",
    "CrCube.C07.same_anchor_definition_order", "CrCube.C07.top_bottom", "CrCube.C07.stale_anchor_bottom",
    "CrCube.C07.anchor_spelling", "CrCube.C07.formats_agree", "CrCube.C07.order_nodup_bogus",
    "CrCube.C07.formats_agree_unfixed_counterexample", "CrCube.C07.formats_agree_unfixed_keyerror",
    "CrCube.C07.idless_view_id", "CrCube.C07.idless_view_id_unfixed_counterexample",
    "CrCube.C07.idless_transform_id", "CrCube.C07.given_id_kept", "CrCube.C07.pruned_subtotals_formats_agree",
]
RULE = ("col seam: random categorical dimensions (1-6 elements, missing ones anywhere, 0-4 view and/or "
        "transform insertions with anchors top/bottom/case variants/None/int/str/stale/missing/hidden ids, "
        "with and without ids, malformed entries) and MR dimensions with derived before/after/top/bottom "
        "items, x explicit lists (permutations, subsets, repeats, stale ids) x hide/prune/empties; plus the "
        "enumerated scope (thorough: every anchor tuple x explicit list x hidden subset on <=3 elements and "
        "<=2 insertions, every anchor triple on 4 elements with sampled explicit/hidden; quick: a subsample). "
        "api seam: cat/text/binned/MR rows and columns of real cube responses. non-trivial = order has >=2 "
        "entries and at least one subtotal or a non-identity element order; distinct = distinct "
        "(seam, signed order, 'ins_N' order, explicit list) key")
ASSUMPTIONS = [
    "element ids of a dimension are pairwise distinct (hypothesis of the theorems; true of every payload)",
    "anchor words other than top/bottom (any case) make the library raise ValueError and are outside the property",
    "api seam with a multiple-response dimension takes the pruning mask from the library (emptiness is C09)",
]
TRUSTED_EXTRA = ["translation of a compact insertion description into the real insertion dict and into the Lean RawIns record (harness/props/_order_common.py)"]
EXHAUSTIVE = True

EX_IDS = [2, 5, 3, 7]
STALE = 9


# ---------------------------------------------------------------------------------------
# generation


def _explicit_lists(ids, stale, maxlen):
    alpha = list(ids) + [stale]
    out = [None]
    for k in range(0, maxlen + 1):
        for t in itertools.product(alpha, repeat=k):
            out.append(list(t))
    return out


def _ex_case(n, anchors, explicit, hidden, idless):
    ids = EX_IDS[:n]
    ins = []
    for k, a in enumerate(anchors):
        ins.append({"anchor": a, "id": None if idless else len(anchors) - k, "args": [ids[0]], "neg": [],
                    "kind": "ok", "kw": False})
    dim = {"view": ins if idless else None, "insertions": None if idless else ins,
           "hide": [ids[i] for i in hidden], "prune": False,
           "order": None if explicit is None else {"type": "explicit", "element_ids": explicit}}
    return {"seam": "col", "dtype": "cat", "ex": True, "elems": [{"id": i} for i in ids], "dim": dim, "empties": []}


def _exhaustive(ctx):
    rng = ctx.rng
    cases = []
    full = not ctx.quick
    for n in (1, 2, 3):
        ids = EX_IDS[:n]
        pool = oc.anchor_pool(ids, STALE)
        pool = [a for a in pool if a != "Bottom"]
        exps = _explicit_lists(ids, STALE, n)
        hids = [list(c) for k in range(n + 1) for c in itertools.combinations(range(n), k)]
        for K in (0, 1, 2):
            for anchors in itertools.product(pool, repeat=K):
                for e in exps:
                    for h in hids:
                        if full or rng.random() < 0.012:
                            cases.append(_ex_case(n, anchors, e, h, idless=(len(cases) % 2 == 0)))
    # 4 elements x 3 insertions: every anchor triple, sampled explicit list / hidden subset
    n = 4
    ids = EX_IDS[:n]
    pool = [a for a in oc.anchor_pool(ids, STALE) if a not in ("Bottom", str(STALE))]
    hids = [list(c) for k in range(n + 1) for c in itertools.combinations(range(n), k)]
    for anchors in itertools.product(pool, repeat=3):
        if not full and rng.random() >= 0.08:
            continue
        for rep in range(4 if full else 1):
            L = rng.randint(0, 5)
            e = None if rng.random() < 0.25 else [rng.choice(ids + [STALE]) for _ in range(L)]
            cases.append(_ex_case(n, anchors, e, rng.choice(hids), idless=rng.random() < 0.5))
    # every explicit list on 4 elements (permutations, subsets, repeats, stale), one fixed insertion set
    for e in _explicit_lists(ids, STALE, 4):
        if full or rng.random() < 0.15:
            cases.append(_ex_case(n, (ids[1], "top", str(ids[3])), e, rng.choice(hids), idless=False))
    if full:
        ctx.count("exhaustive_done")
    ctx.count("enumerated_cases", len(cases))
    return cases


def _gen_col_cat(rng):
    n = rng.choice([1, 1, 2, 3, 3, 4, 4, 5, 6])
    all_ids = rng.sample(range(1, 3 * n + 3), n)
    elems = [{"id": i, "missing": rng.random() < 0.2} for i in all_ids]
    ids = [e["id"] for e in elems if not e["missing"]]
    mode = rng.choice(["view", "tr", "both", "both", "none"])
    view = oc.rand_insertions(rng, ids, all_ids, rng.randint(0, 4)) if mode in ("view", "both") else None
    tr = oc.rand_insertions(rng, ids, all_ids, rng.randint(0, 4)) if mode in ("tr", "both") else None
    if mode == "both" and view and rng.random() < 0.7:
        # the analysis re-states (some of) the view's insertions, possibly re-ordered / re-anchored
        vids = [v for v in view if v["id"] is not None]
        rng.shuffle(vids)
        tr = [dict(copy.deepcopy(v), anchor=(v["anchor"] if rng.random() < 0.6 else rng.choice(["top", "bottom"] + ids)))
              for v in vids[: rng.randint(0, len(vids))]] + (tr or [])[: rng.randint(0, 1)]
    order = None
    r = rng.random()
    if r < 0.55:
        L = rng.randint(0, n + 2)
        pool = all_ids + [max(all_ids) + 5]
        order = {"type": "explicit", "element_ids": [rng.choice(pool) for _ in range(L)] if rng.random() < 0.6
                 else rng.sample(all_ids, len(all_ids))[:L]}
    elif r < 0.65:
        order = {"type": rng.choice(["payload_order", "bogus_type"])}
    hide = [i for i in all_ids if rng.random() < 0.25]
    nv = len(ids)
    empties = [i for i in range(nv) if rng.random() < 0.25]
    dim = {"view": view, "insertions": tr, "hide": hide, "hide_str": rng.random() < 0.3,
           "prune": rng.random() < 0.5, "order": order}
    return {"seam": "col", "dtype": "cat", "elems": elems, "dim": dim, "empties": empties}


def _gen_col_mr(rng):
    n = rng.choice([1, 2, 3, 4, 5])
    aliases = ["s%d" % k for k in rng.sample(range(1, 20), n)]
    elems = []
    for a in aliases:
        e = {"id": a, "missing": False, "derived": rng.random() < 0.4}
        if e["derived"]:
            r = rng.random()
            if r < 0.15:
                e["anchor"] = "top"
            elif r < 0.3:
                e["anchor"] = "bottom"
            elif r < 0.4:
                e["anchor"] = None
            else:
                e["anchor"] = {"alias": rng.choice(aliases + ["gone"]),
                               "position": rng.choice(["before", "after", "after"])}
        elems.append(e)
    order = None
    if rng.random() < 0.8:
        L = rng.randint(0, n + 1)
        order = {"type": "explicit", "element_ids": [rng.choice(aliases + ["zz9"]) for _ in range(L)]}
    hide = [a for a in aliases if rng.random() < 0.2]
    dim = {"view": None, "insertions": None, "hide": hide, "prune": rng.random() < 0.5, "order": order}
    return {"seam": "col", "dtype": "mr", "elems": elems, "dim": dim,
            "empties": [i for i in range(n) if rng.random() < 0.2]}


def _gen_syn(rng):
    """synthetic dimension-like inputs: `_Subtotal`-like objects given directly (anchors that
    by-pass normalisation: stale ints, ids of derived elements), derived items together with
    subtotals, occasionally repeated element ids (model seam only)."""
    n = rng.choice([1, 2, 3, 4, 5])
    ids = rng.sample(range(1, 3 * n + 3), n)
    if n >= 2 and rng.random() < 0.08:
        ids[rng.randrange(1, n)] = ids[0]                      # repeated element id
    elems = []
    for i in ids:
        e = {"id": i, "derived": rng.random() < 0.3}
        if e["derived"]:
            r = rng.random()
            e["anchor"] = ("top" if r < 0.15 else "bottom" if r < 0.3 else None if r < 0.4 else
                           {"alias": rng.choice(ids + [99]), "position": rng.choice(["before", "after"])})
        elems.append(e)
    m = rng.randint(0, 4)
    pool = ["top", "bottom"] + ids + ids + [77]
    subs = [{"anchor": rng.choice(pool), "id": rng.randint(1, 9)} for _ in range(m)]
    view_subs = None
    if rng.random() < 0.4:
        view_subs = [{"anchor": rng.choice(pool), "id": rng.randint(1, 9)} for _ in range(rng.randint(0, 3))]
    explicit = None
    if rng.random() < 0.6:
        explicit = [rng.choice(ids + [88]) for _ in range(rng.randint(0, n + 2))]
    return {"seam": "syn", "elems": elems, "subs": subs, "view_subs": view_subs, "explicit": explicit,
            "hidden": [k for k in range(n) if rng.random() < 0.2], "prune": rng.random() < 0.5,
            "empties": [k for k in range(n) if rng.random() < 0.2]}


API_KINDS = ["cat", "cat", "cat", "text", "binned", "mr"]


def _gen_dimdesc(rng, var):
    if var.kind == "mr":
        aliases = [it["alias"] for it in var.items]
        order = None
        if rng.random() < 0.6:
            order = {"type": "explicit", "element_ids": [rng.choice(aliases) for _ in range(rng.randint(0, len(aliases) + 1))]}
        return {"view": None, "insertions": None, "hide": [a for a in aliases if rng.random() < 0.2],
                "prune": rng.random() < 0.4, "order": order}
    all_ids = [c["id"] for c in var.cats]
    ids = [c["id"] for c in var.cats if not c["missing"]]
    mode = rng.choice(["view", "tr", "both", "none"])
    view = oc.rand_insertions(rng, ids, all_ids, rng.randint(0, 3), bad=0.08) if mode in ("view", "both") else None
    tr = oc.rand_insertions(rng, ids, all_ids, rng.randint(0, 3), bad=0.08) if mode in ("tr", "both") else None
    if mode == "both" and view and rng.random() < 0.6:
        vids = [v for v in view if v["id"] is not None]
        rng.shuffle(vids)
        tr = [copy.deepcopy(v) for v in vids]
    order = None
    if rng.random() < 0.5:
        pool = all_ids + [max(all_ids) + 5]
        order = {"type": "explicit", "element_ids": [rng.choice(pool) for _ in range(rng.randint(0, len(ids) + 2))]}
    return {"view": view, "insertions": tr, "hide": [i for i in all_ids if rng.random() < 0.2],
            "hide_str": rng.random() < 0.3, "prune": rng.random() < 0.4, "order": order}


def _gen_api(rng):
    nd = rng.choice([1, 2, 2, 2])
    kinds = [rng.choice(API_KINDS) for _ in range(nd)]
    vars_ = [gen.gen_var(rng, k, "v%d" % i, n=rng.randint(1, 4)) for i, k in enumerate(kinds)]
    survey = gen.gen_survey(rng, vars_, n_resp=rng.choice([0, 3, 8, 20]), weighted=rng.random() < 0.5)
    return {"seam": "api", "vars": [v.to_json() for v in vars_], "survey": gen.survey_to_json(survey),
            "dims": [_gen_dimdesc(rng, v) for v in vars_]}


def generate(ctx):
    rng = ctx.rng
    cases = _exhaustive(ctx)
    for _ in range(ctx.n(500, 20000)):
        cases.append(_gen_col_cat(rng))
    for _ in range(ctx.n(150, 4000)):
        cases.append(_gen_col_mr(rng))
    for _ in range(ctx.n(600, 20000)):
        cases.append(_gen_syn(rng))
    for _ in range(ctx.n(400, 6000)):
        cases.append(_gen_api(rng))
    return cases


# ---------------------------------------------------------------------------------------
# lean ops


def _explicit_of(dimdesc, elems, dtype):
    order = dimdesc.get("order")
    if not order or order.get("type") != "explicit":
        return None
    ids = order.get("element_ids") or []
    if dtype == "mr":
        aliases = [e["id"] for e in elems]
        return [i if i in aliases else None for i in ids]     # the id shim writes None for unknown ids
    return list(ids)


def _dim_ops(dimdesc, elems, dtype, empties):
    valid = [e for e in elems if not e.get("missing")]
    d = oc.lean_dim(dimdesc, valid, is_array=(dtype == "mr"))
    d.update({"op": "collate_anchored", "empties": empties, "explicit": _explicit_of(dimdesc, elems, dtype)})
    ops = [d]
    ids = [e["id"] for e in valid]
    if dtype != "mr":
        if dimdesc.get("insertions") is not None:
            ops.append({"op": "subtotal_ids", "ids": ids, "from_view": False,
                        "insertions": [oc.ins_lean(i) for i in dimdesc["insertions"]]})
        else:
            ops.append({"op": "subtotal_ids", "ids": ids, "from_view": True,
                        "insertions": [oc.ins_lean(i) for i in (dimdesc.get("view") or [])]})
    return ops


def _api_elems(var):
    if var.kind == "mr":
        return [{"id": it["alias"], "name": it["name"]} for it in var.items], "mr"
    return [{"id": c["id"], "missing": c["missing"], "name": c["name"]} for c in var.cats], "cat"


_API_CACHE = {}


def _api_run(case):
    """run the library on an api case (deterministic in the case; memoised)."""
    key = id(case)
    if key in _API_CACHE and _API_CACHE[key][0] is case:
        return _API_CACHE[key][1]
    if len(_API_CACHE) > 30000:
        _API_CACHE.clear()
    from cr.cube.cube import Cube
    from cr.cube.enums import ORDER_FORMAT as OF
    vars_ = [gen.Var.from_json(d) for d in case["vars"]]
    survey = gen.survey_from_json(case["survey"])
    resp = gen.cube_response(vars_, survey, True)
    tkeys = ["rows_dimension", "columns_dimension"]
    transforms = {}
    di = 0
    for v, dd, tk in zip(vars_, case["dims"], tkeys):
        if dd.get("view") is not None:
            resp["result"]["dimensions"][di]["references"]["view"] = {
                "transform": {"insertions": [oc.ins_real(k, i) for k, i in enumerate(dd["view"])]}}
        transforms[tk] = oc.dim_transforms(dd)
        di += len(v.dimension_dicts())
    out = {}
    try:
        cube = Cube(resp, transforms=copy.deepcopy(transforms))
        part = cube.partitions[0]
        out["ndim"] = len(vars_)
        if len(vars_) == 2:
            m = part._measures
            out["row_empties"] = common.call_impl(lambda: [int(i) for i, b in enumerate(m.rows_pruning_mask) if b])
            out["col_empties"] = common.call_impl(lambda: [int(i) for i, b in enumerate(m.columns_pruning_mask) if b])
            out["row_signed"] = oc.canon_order(common.call_impl(lambda: part.row_order()))
            out["row_bogus"] = oc.canon_order(common.call_impl(lambda: part.row_order(OF.BOGUS_IDS)))
            out["col_signed"] = oc.canon_order(common.call_impl(lambda: part.column_order()))
            out["col_bogus"] = oc.canon_order(common.call_impl(lambda: part.column_order(OF.BOGUS_IDS)))
            out["row_labels"] = common.call_impl(lambda: part.row_labels)
            out["col_labels"] = common.call_impl(lambda: part.column_labels)
        else:
            m = part._measures
            out["row_empties"] = common.call_impl(lambda: [int(i) for i, n in enumerate(m.pruning_base) if n == 0])
            out["col_empties"] = []
            out["row_signed"] = oc.canon_order(common.call_impl(lambda: part.row_order()))
            out["row_bogus"] = oc.canon_order(common.call_impl(lambda: part.row_order(OF.BOGUS_IDS)))
            out["row_labels"] = common.call_impl(lambda: part.row_labels)
        out["payload_order"] = oc.canon_order(common.call_impl(lambda: part.payload_order))
    except Exception as e:  # noqa
        out = {"raises": type(e).__name__, "msg": str(e)[:200]}
    _API_CACHE[key] = (case, out)
    return out


def _survey_empties(vars_, survey, axis):
    """unweighted emptiness of the valid elements of a non-array variable, from respondents."""
    v = vars_[axis]
    pos = v.valid_cat_pos
    cnt = [0] * len(pos)
    for w, ans in survey:
        ok = True
        for k, u in enumerate(vars_):
            if k != axis and not u.is_array and ans[k][0] not in u.valid_cat_pos:
                ok = False
        if ok and ans[axis][0] in pos:
            cnt[pos.index(ans[axis][0])] += 1
    return [i for i, c in enumerate(cnt) if c == 0]


def lean_ops(case):
    if case["seam"] == "col":
        return _dim_ops(case["dim"], case["elems"], case["dtype"], case["empties"])
    if case["seam"] == "syn":
        d = {"op": "collate_anchored", "subs": case["subs"], "hidden": case["hidden"], "prune": case["prune"],
             "empties": case["empties"], "explicit": case["explicit"],
             "elems": [{"id": e["id"], "derived": bool(e.get("derived")),
                        "anchor": e.get("anchor") if e.get("derived") else None} for e in case["elems"]]}
        if case.get("view_subs") is not None:
            d["view_subs"] = case["view_subs"]
        return [d]
    vars_ = [gen.Var.from_json(d) for d in case["vars"]]
    survey = gen.survey_from_json(case["survey"])
    any_array = any(v.is_array for v in vars_)
    lib = _api_run(case) if any_array else None
    ops = []
    for axis, (v, dd) in enumerate(zip(vars_, case["dims"])):
        elems, dtype = _api_elems(v)
        if any_array:
            emp = lib.get("row_empties" if axis == 0 else "col_empties") if isinstance(lib, dict) else []
            if not isinstance(emp, list):
                emp = []
        else:
            emp = _survey_empties(vars_, survey, axis)
        ops.extend(_dim_ops(dd, elems, dtype, emp))
    return ops


# ---------------------------------------------------------------------------------------
# evaluation


def _lean_items(x):
    return x


def _f(kind, locus, detail):
    return {"kind": kind, "locus": locus, "detail": detail}


def _cmp_ids(findings, impl_ids, lo, from_view, where):
    """ids of the valid insertions: property numbering (spec), repaired model, code as it stands."""
    if impl_ids == lo["spec"]:
        if impl_ids != lo["model"]:
            findings.append(_f("model", "seam.subtotals.ids", "%s impl=%r model=%r" % (where, impl_ids, lo["model"])))
        return True
    if from_view and impl_ids == lo["unfixed"]:
        findings.append(_f("spec", "insertion-id.view-anchor-spelling",
                           "%s: id-less view insertions numbered %r, 1-based payload display rank is %r "
                           "(_position_crosswalk tests the raw anchor)" % (where, impl_ids, lo["spec"])))
    else:
        findings.append(_f("spec", "insertion-id.view-rank" if from_view else "insertion-id.transform-position",
                           "%s: insertion ids %r, property says %r" % (where, impl_ids, lo["spec"])))
    return False


def _cmp_orders(findings, where, lo, signed, bogus, kindname, payload_like):
    ok = True
    if signed != lo["spec_signed"]:
        findings.append(_f("spec", "order.%s.signed" % kindname,
                           "%s signed order %r, property says %r" % (where, signed, lo["spec_signed"])))
        ok = False
    elif signed != lo["signed"]:
        findings.append(_f("model", "seam.collator.%s.signed" % kindname, "%s impl=%r model=%r" % (where, signed, lo["signed"])))
    if bogus != lo["spec_bogus"]:
        if ok and payload_like and bogus in (lo["bogus_unfixed"], lo.get("bogus_unfixed2")):
            findings.append(_f("spec", "order.payload.bogus-view-mapping",
                               "%s 'ins_N' order %r but signed order %r names %r (PayloadOrderCollator maps negative "
                               "indices through the view's insertion ids)" % (where, bogus, signed, lo["spec_bogus"])))
        elif ok:
            findings.append(_f("spec", "order.%s.formats-disagree" % kindname,
                               "%s 'ins_N' order %r, signed order %r names %r" % (where, bogus, signed, lo["spec_bogus"])))
        ok = False
    elif bogus != lo["bogus"]:
        findings.append(_f("model", "seam.collator.%s.bogus" % kindname, "%s impl=%r model=%r" % (where, bogus, lo["bogus"])))
    return ok


def _key(case, signed, bogus, explicit):
    if not isinstance(signed, list) or not all(isinstance(x, int) and not isinstance(x, bool) for x in signed):
        return None         # a broken signed rendering is a finding, never a harness fault
    nontrivial = len(signed) >= 2 and (any(isinstance(x, int) and x < 0 for x in signed)
                                       or [x for x in signed if x >= 0] != sorted(x for x in signed if x >= 0))
    if not nontrivial:
        return None
    return (case["seam"], tuple(signed), tuple(str(b) for b in bogus) if isinstance(bogus, list) else None,
            tuple(str(e) for e in explicit) if explicit is not None else None)


def _eval_col(case, louts, ctx):
    from cr.cube.dimension import Dimension
    from cr.cube.enums import DIMENSION_TYPE as DT, ORDER_FORMAT as OF
    from cr.cube.collator import ExplicitOrderCollator, PayloadOrderCollator
    findings = []
    dd = case["dim"]
    dtype = case["dtype"]
    elems = case["elems"]
    lo = louts[0]
    explicit = _explicit_of(dd, elems, dtype)
    ctx.count("col:%s:%s" % (dtype, "explicit" if explicit is not None else "payload"))
    if dtype == "mr":
        ddict = oc.mr_dimension_dict(elems)
        dt = DT.MR_SUBVAR
    else:
        ddict = oc.cat_dimension_dict(elems, dd.get("view"))
        dt = DT.CAT

    def mkdim():
        return Dimension(copy.deepcopy(ddict), dt, copy.deepcopy(oc.dim_transforms(dd)))

    Coll = ExplicitOrderCollator if explicit is not None else PayloadOrderCollator
    emp = tuple(case["empties"])
    signed = oc.canon_order(common.call_impl(lambda: Coll.display_order(mkdim(), emp, OF.SIGNED_INDEXES)))
    bogus = oc.canon_order(common.call_impl(lambda: Coll.display_order(mkdim(), emp, OF.BOGUS_IDS)))
    po = oc.canon_order(common.call_impl(lambda: PayloadOrderCollator(mkdim(), emp, OF.SIGNED_INDEXES).payload_order))
    where = "%s %s" % (dtype, "explicit" if explicit is not None else "payload")
    if "raises" in lo:
        ctx.count("col:bad-anchor-word")
        if not (isinstance(signed, dict) and signed.get("raises") == "ValueError"):
            findings.append(_f("model", "seam.collator.bad-anchor", "model raises ValueError, impl gives %r" % (signed,)))
        return findings, None
    if isinstance(signed, dict):
        findings.append(_f("spec", "order.anchored.raises", "%s display_order raises %r; property says %r"
                           % (where, signed, lo["spec_signed"])))
        return findings, None
    ids_ok = True
    if dtype != "mr":
        impl_ids = common.call_impl(lambda: list(mkdim().subtotals.insertion_ids))
        ids_ok = _cmp_ids(findings, impl_ids, louts[1], dd.get("insertions") is None, where)
        if any(i.get("id") is None for i in (dd.get("insertions") if dd.get("insertions") is not None else dd.get("view") or [])):
            ctx.count("col:idless")
    kindname = "explicit" if explicit is not None else "payload"
    if ids_ok:
        _cmp_orders(findings, where, lo, signed, bogus, kindname, explicit is None)
        if po != lo["payload_order"]:
            findings.append(_f("model", "seam.collator.payload_order", "%s impl=%r model=%r" % (where, po, lo["payload_order"])))
    else:
        if signed != lo["spec_signed"]:
            findings.append(_f("spec", "order.%s.signed" % kindname,
                               "%s signed order %r, property says %r" % (where, signed, lo["spec_signed"])))
    if any(isinstance(x, int) and x < 0 for x in signed):
        ctx.count("col:with-subtotals")
    if case.get("ex"):
        ctx.count("col:enumerated")
    return findings, _key(case, signed, bogus, explicit)


def _labels_expected(elems, dimdesc, signed, sub_names):
    valid = [e for e in elems if not e.get("missing")]
    names = [e.get("name") for e in valid] + sub_names
    return [names[i] for i in signed]


def _sub_names(dimdesc, valid_ids):
    src, base = (dimdesc["insertions"], 100) if dimdesc.get("insertions") is not None else (dimdesc.get("view") or [], 0)
    return ["S%d" % (k + base) for k, i in enumerate(src) if oc.ins_valid(i, valid_ids)]


def _eval_api(case, louts, ctx, lib=None):
    """`lib`: observations made by an extension module's own runner (same keys as `_api_run`)."""
    findings = []
    vars_ = [gen.Var.from_json(d) for d in case["vars"]]
    survey = gen.survey_from_json(case["survey"])
    lib = _api_run(case) if lib is None else lib
    ctx.count("api:%s" % "x".join(v.kind for v in vars_))
    # split the lean outputs per dimension
    pos = 0
    per = []
    for v in vars_:
        k = 1 if v.kind == "mr" else 2
        per.append(louts[pos:pos + k])
        pos += k
    if any("raises" in p[0] for p in per):
        ctx.count("api:bad-anchor-word")
        if "raises" not in lib and not any(isinstance(lib.get(k), dict) for k in ("row_signed", "col_signed")):
            findings.append(_f("model", "seam.api.bad-anchor", "model raises ValueError, impl gives %r" % (lib,)))
        return findings, None
    if "raises" in lib:
        findings.append(_f("spec", "order.api.raises", "cube construction raises %r" % (lib,)))
        return findings, None
    key = None
    any_array = any(v.is_array for v in vars_)
    for axis, (v, dd, p) in enumerate(zip(vars_, case["dims"], per)):
        elems, dtype = _api_elems(v)
        lo = p[0]
        name = "row" if axis == 0 else "col"
        where = "%s(%s)" % (name, v.kind)
        signed, bogus = lib[name + "_signed"], lib[name + "_bogus"]
        explicit = _explicit_of(dd, elems, dtype)
        kindname = "explicit" if explicit is not None else "payload"
        if not any_array:
            emp = _survey_empties(vars_, survey, axis)
            if lib[name + "_empties"] != emp:
                # emptiness is C09's; do not judge the order on a different hidden set
                ctx.count("api:empties-differ")
                continue
        # all opposing base vectors pruned -> the insertions of this axis disappear
        spec_signed, spec_bogus = lo["spec_signed"], lo["spec_bogus"]
        model_signed, model_bogus, unf = lo["signed"], lo["bogus"], lo["bogus_unfixed"]
        dropped = False
        if len(vars_) == 2:
            odd = case["dims"][1 - axis]
            oelems, _ = _api_elems(vars_[1 - axis])
            n_opp = len([e for e in oelems if not e.get("missing")])
            opp_emp = lib["col_empties" if axis == 0 else "row_empties"]
            if odd.get("prune") and len(opp_emp) == n_opp:
                dropped = True
                keep = [k for k, x in enumerate(spec_signed) if x >= 0]
                spec_signed = [spec_signed[k] for k in keep]
                spec_bogus = [spec_bogus[k] for k in keep]
                keepm = [k for k, x in enumerate(model_signed) if x >= 0]
                model_signed = [model_signed[k] for k in keepm]
                model_bogus = [model_bogus[k] for k in keepm] if isinstance(model_bogus, list) else model_bogus
                unf = [unf[k] for k in keepm] if isinstance(unf, list) and len(unf) == len(lo["signed"]) else unf
                ctx.count("api:subtotals-pruned")
        lo2 = dict(lo, spec_signed=spec_signed, spec_bogus=spec_bogus, signed=model_signed, bogus=model_bogus,
                   bogus_unfixed=unf)
        if isinstance(signed, dict):
            findings.append(_f("spec", "order.api.raises", "%s order raises %r" % (where, signed)))
            continue
        ids_ok = True
        if dtype != "mr":
            # ids are observable through the 'ins_N' rendering only; compare via the collator seam ids
            lo_ids = p[1]
            if lo_ids["spec"] != lo_ids["model"]:
                findings.append(_f("model", "seam.subtotals.ids", "%s model ids %r != property ids %r"
                                   % (where, lo_ids["model"], lo_ids["spec"])))
        if isinstance(bogus, dict) and explicit is None and \
                bogus in (lo["bogus_unfixed"], lo.get("bogus_unfixed2")):
            pass        # KeyError of the view-id mapping: classified by _cmp_orders below (F18)
        elif isinstance(bogus, dict):
            if dropped and bogus.get("raises") == "TypeError" and any(isinstance(x, int) and x < 0 for x in lo["signed"]):
                findings.append(_f("spec", "order.bogus.pruned-subtotals-typeerror",
                                   "%s: %s_order(BOGUS_IDS) raises TypeError ('ins_N' >= 0) when every opposing "
                                   "vector is pruned; signed order is %r" % (where, name, signed)))
            else:
                findings.append(_f("spec", "order.api.raises", "%s 'ins_N' order raises %r, signed=%r" % (where, bogus, signed)))
            bogus = spec_bogus
        if dtype != "mr" and isinstance(bogus, list) and bogus != spec_bogus and signed == spec_signed \
                and p[1]["unfixed"] != p[1]["spec"] and None not in p[1]["unfixed"] \
                and len(p[1]["unfixed"]) == len(lo["sub_ids"]) \
                and bogus == [("ins_%d" % p[1]["unfixed"][x + len(p[1]["unfixed"])]) if x < 0 else x for x in signed]:
            findings.append(_f("spec", "insertion-id.view-anchor-spelling",
                               "%s: 'ins_N' order %r numbers the id-less view insertions %r, 1-based payload display "
                               "rank is %r (_position_crosswalk tests the raw anchor)"
                               % (where, bogus, p[1]["unfixed"], p[1]["spec"])))
            bogus = spec_bogus
        _cmp_orders(findings, where, lo2, signed, bogus, kindname, explicit is None)
        # labels follow the signed order
        valid_ids = [e["id"] for e in elems if not e.get("missing")]
        if v.kind in ("cat", "mr") and signed == spec_signed:
            exp = _labels_expected(elems, dd, signed, _sub_names(dd, valid_ids))
            labels = lib[name + "_labels"]
            if labels != exp:
                findings.append(_f("spec", "order.labels", "%s labels %r, order %r names %r" % (where, labels, signed, exp)))
        if axis == 0:
            if lib["payload_order"] != lo["payload_order"]:
                findings.append(_f("model", "seam.api.payload_order", "%s impl=%r model=%r"
                                   % (where, lib["payload_order"], lo["payload_order"])))
        k = _key(case, signed, bogus, explicit)
        key = key or k
    return findings, key


class _FakeSubs(list):
    @property
    def bogus_ids(self):
        return tuple("ins_%s" % s.insertion_id for s in self)

    @property
    def insertion_ids(self):
        return tuple(s.insertion_id for s in self)


class _FakeElems(tuple):
    def get_by_id(self, element_id):
        return {e.element_id: e for e in self}[element_id]


def _fake_dimension(case):
    from types import SimpleNamespace as NS
    elems = _FakeElems(NS(element_id=e["id"], derived=bool(e.get("derived")),
                          anchor=(e.get("anchor") if e.get("derived") else None)) for e in case["elems"])
    subs = _FakeSubs(NS(anchor=s["anchor"], insertion_id=s["id"]) for s in case["subs"])
    vs = subs if case.get("view_subs") is None else _FakeSubs(NS(anchor=s["anchor"], insertion_id=s["id"])
                                                             for s in case["view_subs"])
    return NS(valid_elements=elems, element_ids=tuple(e["id"] for e in case["elems"]), subtotals=subs,
              subtotals_in_payload_order=vs, hidden_idxs=tuple(case["hidden"]), prune=case["prune"],
              order_spec=NS(element_ids=tuple(case["explicit"] or ())))


def _eval_syn(case, louts, ctx):
    from cr.cube.enums import ORDER_FORMAT as OF
    from cr.cube.collator import ExplicitOrderCollator, PayloadOrderCollator
    findings = []
    lo = louts[0]
    explicit = case["explicit"]
    Coll = ExplicitOrderCollator if explicit is not None else PayloadOrderCollator
    emp = tuple(case["empties"])
    kindname = "explicit" if explicit is not None else "payload"
    where = "synthetic %s" % kindname
    ctx.count("syn:%s" % kindname)
    signed = oc.canon_order(common.call_impl(lambda: Coll.display_order(_fake_dimension(case), emp, OF.SIGNED_INDEXES)))
    bogus = oc.canon_order(common.call_impl(lambda: Coll.display_order(_fake_dimension(case), emp, OF.BOGUS_IDS)))
    po = oc.canon_order(common.call_impl(lambda: PayloadOrderCollator(_fake_dimension(case), emp, OF.SIGNED_INDEXES).payload_order))
    if isinstance(signed, dict):
        findings.append(_f("spec", "order.anchored.raises", "%s display_order raises %r" % (where, signed)))
        return findings, None
    if lo["ids_nodup"]:
        _cmp_orders(findings, where, lo, signed, bogus, kindname, explicit is None)
    else:
        ctx.count("syn:repeated-element-id")
        if signed != lo["signed"]:
            findings.append(_f("model", "seam.collator.%s.signed" % kindname, "%s (repeated element ids) impl=%r model=%r"
                               % (where, signed, lo["signed"])))
    if po != lo["payload_order"]:
        findings.append(_f("model", "seam.collator.payload_order", "%s impl=%r model=%r" % (where, po, lo["payload_order"])))
    return findings, _key(case, signed, bogus, explicit)


def evaluate(case, louts, ctx):
    if case["seam"] == "col":
        return _eval_col(case, louts, ctx)
    if case["seam"] == "syn":
        return _eval_syn(case, louts, ctx)
    return _eval_api(case, louts, ctx)


def describe(case):
    if case["seam"] == "syn":
        return dict(case)
    if case["seam"] == "col":
        return {"seam": "col", "dtype": case["dtype"], "ids": [e["id"] for e in case["elems"]],
                "missing": [e["id"] for e in case["elems"] if e.get("missing")], "dim": case["dim"],
                "empties": case["empties"]}
    return {"seam": "api", "kinds": [v["kind"] for v in case["vars"]], "dims": case["dims"],
            "n_respondents": len(case["survey"])}


def shrink_candidates(case):
    def dim_shrinks(dd):
        for fld in ("view", "insertions"):
            l = dd.get(fld)
            if l:
                for i in range(len(l)):
                    yield dict(dd, **{fld: l[:i] + l[i + 1:]})
        if dd.get("hide"):
            yield dict(dd, hide=dd["hide"][1:])
        if dd.get("prune"):
            yield dict(dd, prune=False)
        o = dd.get("order")
        if o and o.get("element_ids"):
            e = o["element_ids"]
            for i in range(len(e)):
                yield dict(dd, order=dict(o, element_ids=e[:i] + e[i + 1:]))
        elif o:
            yield dict(dd, order=None)
    if case["seam"] == "syn":
        for k in ("subs", "view_subs", "explicit", "hidden", "empties"):
            l = case.get(k)
            if l:
                for i in range(len(l)):
                    yield dict(case, **{k: l[:i] + l[i + 1:]})
        if case["prune"]:
            yield dict(case, prune=False)
        return
    if case["seam"] == "col":
        for d in dim_shrinks(case["dim"]):
            yield dict(case, dim=d)
        if case["empties"]:
            yield dict(case, empties=case["empties"][1:])
        els = case["elems"]
        if len(els) > 1:
            for i in range(len(els)):
                n = len([e for e in els[:i] + els[i + 1:] if not e.get("missing")])
                yield dict(case, elems=els[:i] + els[i + 1:], empties=[x for x in case["empties"] if x < n])
    else:
        for a in range(len(case["dims"])):
            for d in dim_shrinks(case["dims"][a]):
                dims = list(case["dims"])
                dims[a] = d
                yield dict(case, dims=dims)
        sv = case["survey"]
        if len(sv) > 1:
            yield dict(case, survey=sv[: len(sv) // 2])
            yield dict(case, survey=sv[len(sv) // 2:])
