"""C14 extension: count tables of 10^3 .. 10^7 respondents whose median respondent sits in (or an exact 50 % split borders on)
a category that is tiny relative to the table.

The scale median is a statement about INDIVIDUAL respondents; the library computes it from tabulated counts, by a cumulative
scan (slice vectors) or by `np.repeat` + `np.median` (strand, the two overall margins of a slice).  Any shortcut that treats the
counts as relative frequencies (rescaling / sampling / rounding them to a bounded size, float32 accumulation, a tolerance on the
50 % test) is invisible on small tables and on large tables whose median lies deep inside a big category; it shows when

  * the lower and the upper mass are equal (or differ by less than the size of a TINY middle category of 1-3 respondents), so that
    the median IS the tiny category's value, or the exact-half average of it with a neighbour;
  * the masses differ by exactly one respondent (the median respondent is the last / first of a big category);
  * zero-count categories lie between the two masses; categories WITHOUT a numeric value and missing categories hold many
    respondents (they must not enter the total).

Tables are generated at a ladder of magnitudes (3e3 .. 6e6, one case per run above 1e7; thorough also above 2^24; slices at
3e7 / 1e9 / 1e12 whose margins are not read - only the cumulative scan of the vectors can go there) since a size-triggered
shortcut has some threshold; the masses are spread over several categories and rows, so margins, base vectors and
(under insertions) subtotal vectors all carry such counts.  Each table is presented both as a WEIGHTED cube (one record per
cell, integer weight = count) and as the UNWEIGHTED cube of its individual respondents (counts integer, no weight).

Judged by the property's own evaluation (props/c14.py): python oracle on the records (cumulative, exact rationals) and the
Lean spec `ScaleSpec.medianInt` (op `scale_median_int`), which `C14.median_int_spec` proves equal to the median over the
enumerated individual respondents for every size; means / std-devs / std-errs of the same tables are judged as usual.
"""
from fractions import Fraction as F
import gen
from props import pw_util as U
from props import c14 as base

PROPERTY = "C14"
LEAN_MODULE = "CrCube.Props.C14_LargeCounts"
THEOREMS = [
    "CrCube.C14.countsV_unitExpand",
    "CrCube.C14.scale_median_int_weights",
    "CrCube.C14.median_int_spec",
    "CrCube.C14.strand_median_int_weights",
    "CrCube.C14.margin_median_int_weights",
    "CrCube.C14.repeat_median_is_cumulative",
    "CrCube.C14.rescaled_counts_counterexample",
]
RULE = ("cat x cat slices and cat strands realised as integer-weighted records / unweighted count tables with totals on a ladder "
        "3e3 .. 6e6 (one > 1e7 per run; 9 slices at 3e7 / 1e9 / 1e12 with the vector medians only): equal lower / upper masses around a 1-3 respondent middle category, exact halves with "
        "zero-count categories in between, masses one respondent apart, heavy valueless and missing categories; masses spread over "
        "categories and rows (margin-targeted or vector-targeted), values on either dimension, transforms on 40 %; "
        "non-trivial = a vector or margin with >= 2 distinct values among its respondents; distinct = (design, counts)")
ASSUMPTIONS = [
    "an integer-weighted record of weight n stands for n individual respondents (ScaleSpec.unitExpand); the tabulation does not "
    "see the difference (C14.countsV_unitExpand)",
]
TRUSTED_EXTRA = []

LADDER = [3000, 40000, 300000, 900000, 1100000, 1100000, 1300000, 2 ** 21 + 10, 2500000, 3000000, 3000000, 4000000, 6000000]
HUGE = 10500000          # one case per run
HUGE_THOROUGH = 17500000  # > 2^24 (float32 integers stop being exact), thorough tier only
VALUE_POOL = [-2, -1, 0, 1, 2, 3, 5, 10, 2.2, 0.1, 7.7]


def _spread(rng, total, slots):
    """`total` respondents over `slots` (>= 1 of them; the others stay empty)"""
    out = {s: 0 for s in slots}
    if not slots or total <= 0:
        return out
    k = rng.randint(1, min(3, len(slots)))
    chosen = rng.sample(slots, k)
    rest = total
    for s in chosen[:-1]:
        part = rng.choice([1, 2, rest // 3, rest // 2, rng.randint(0, rest)]) if rest > 0 else 0
        part = max(0, min(rest, part))
        out[s] += part
        rest -= part
    out[chosen[-1]] += rest
    return out


def family_vector(rng, values, T):
    """counts per category (payload order of the valid elements) of total about T among the valued categories"""
    n = len(values)
    vj = sorted((j for j in range(n) if values[j] is not None), key=lambda j: F(str(values[j])))
    row = [0] * n
    for j in range(n):
        if values[j] is None:            # respondents without a numeric value: ignored, however many
            row[j] = rng.choice([0, 0, 1, T // 3, T, 2 * T])
    k = len(vj)
    if k == 0:
        return row
    if k == 1:
        row[vj[0]] = rng.choice([0, 1, T])
        return row
    kind = rng.choice((["tiny-middle"] * 5 if k >= 3 else []) + ["half"] * 3 + ["skew"])
    if kind == "tiny-middle":
        m = rng.randint(1, k - 2)
        t = rng.choice([1, 1, 1, 2, 3])
        H = max(1, (T - t) // 2)
        a, b = rng.choice([(0, 0), (0, 0), (0, 0), (1, 0), (0, 1), (t, 0), (0, t), (t - 1, 0), (0, t - 1), (t + 1, 0), (0, 2)])
        row[vj[m]] = t
        for s, c in _spread(rng, H + a, vj[:m]).items():
            row[s] += c
        for s, c in _spread(rng, H + b, vj[m + 1:]).items():
            row[s] += c
    elif kind == "half":
        s_ = rng.randint(0, k - 2)
        H = max(1, T // 2)
        d = rng.choice([0, 0, 0, 1, -1, 2])
        for s, c in _spread(rng, H, vj[:s_ + 1]).items():
            row[s] += c
        for s, c in _spread(rng, max(0, H + d), vj[s_ + 1:]).items():
            row[s] += c
    else:
        for j in vj:
            row[j] = rng.choice([0, 1, 2, T // 7, rng.randint(1, max(1, T // 2))])
    return row


def _split(rng, c, parts):
    """a count over `parts` rows (some possibly 0)"""
    if parts == 1:
        return [c]
    out = [0] * parts
    if c <= 3 or rng.random() < 0.3:
        out[rng.randrange(parts)] = c
        return out
    rest = c
    order = list(range(parts))
    rng.shuffle(order)
    for p in order[:-1]:
        part = rng.choice([0, 1, rest // 2, rest // 2 + 1, rng.randint(0, rest)])
        part = max(0, min(rest, part))
        out[p] = part
        rest -= part
    out[order[-1]] = rest
    return out


def _distinct_values(rng, v, at_least=3):
    """give the variable at least `at_least` valid categories with pairwise distinct numeric values (when it has that many)"""
    valid = [c for c in v.cats if not c["missing"]]
    have = {}
    for c in valid:
        if c.get("numeric_value") is not None:
            have.setdefault(c["numeric_value"], c)
    pool = [x for x in VALUE_POOL if x not in have]
    rng.shuffle(pool)
    free = [c for c in valid if c not in have.values()]
    rng.shuffle(free)
    while len(have) < at_least and free and pool:
        c = free.pop()
        c["numeric_value"] = pool.pop()
        have[c["numeric_value"]] = c


def _missing_records(rng, vars_, T):
    """records in missing categories (never counted), light or heavy"""
    out = []
    for v_idx, v in enumerate(vars_):
        miss = [p for p in range(len(v.cats)) if v.cats[p]["missing"]]
        if miss and rng.random() < 0.5:
            a = [[rng.randrange(len(w.cats))] for w in vars_]
            a[v_idx] = [rng.choice(miss)]
            out.append((F(rng.choice([1, 3, max(1, T // 2), T])), a))
    return out


GIGANTIC = [30000000, 10 ** 9, 10 ** 12]   # slice vectors only (cumulative scan): margins / strands would have to np.repeat


def gen_case(rng, T):
    typ = rng.choice(["slice"] * 5 + ["strand"] * 2) if T <= HUGE_THOROUGH else "slice"
    present = rng.choice(["expanded", "weighted"])
    if typ == "strand":
        v = gen.gen_var(rng, base._catk(rng), "v0", n=rng.randint(3, 6), numeric=rng.choice(["all", "some"]), min_valid=3)
        _distinct_values(rng, v)
        vars_ = [v]
        ax = U.axes_of(vars_)[0]
        row = family_vector(rng, ax.values, T)
        sv = [(F(row[e]), [[ax.pos[e]]]) for e in range(ax.n) if row[e]]
        sv += _missing_records(rng, vars_, T)
        transforms = {}
        if rng.random() < 0.3:
            transforms = {"rows_dimension": U.gen_dim_transforms(rng, ax)}
    else:
        o = rng.randrange(2)                  # which dimension carries the targeted values (1: columns -> rows_* measures)
        ns = [rng.randint(1, 3), rng.randint(3, 6)]
        numerics = [rng.choice(["all", "some", "some", "none"]), rng.choice(["all", "some"])]
        mins = [1, 3]
        if o == 0:
            ns.reverse(), numerics.reverse(), mins.reverse()
        vars_ = [gen.gen_var(rng, base._catk(rng), "v%d" % i, n=ns[i], numeric=numerics[i], min_valid=mins[i]) for i in range(2)]
        _distinct_values(rng, vars_[o])
        axes = U.axes_of(vars_)
        vax, oax = axes[1 - o], axes[o]
        if rng.random() < 0.6:
            # margin-targeted: the overall margin is a family vector, split over the vectors
            margin = family_vector(rng, oax.values, T)
            cols = [_split(rng, c, vax.n) for c in margin]          # cols[j][i]
            tab = [[cols[j][i] for j in range(oax.n)] for i in range(vax.n)]
        else:
            tab = [family_vector(rng, oax.values, max(2, T // vax.n)) for _ in range(vax.n)]
        table = tab if o == 1 else U.transpose(tab, oax.n)          # table[row][col]
        sv = [(F(table[i][j]), [[axes[0].pos[i]], [axes[1].pos[j]]])
              for i in range(axes[0].n) for j in range(axes[1].n) if table[i][j]]
        sv += _missing_records(rng, vars_, T)
        transforms = {}
        if rng.random() < 0.4:
            transforms = {"rows_dimension": U.gen_dim_transforms(rng, axes[0]),
                          "columns_dimension": U.gen_dim_transforms(rng, axes[1])}
    rng.shuffle(sv)
    case = {"type": typ, "family": "largecounts", "present": present, "magnitude": T,
            "vars": [v.to_json() for v in vars_], "survey": gen.survey_to_json(sv),
            "wmode": "bigint", "transforms": transforms}
    if T > HUGE_THOROUGH:
        case["skip_margins"] = True
    return case


def generate(ctx):
    rng = ctx.rng
    n = ctx.n(56, 600)
    mags = [LADDER[k % len(LADDER)] for k in range(n)]
    mags[rng.randrange(n)] = HUGE
    if not ctx.quick:
        for _ in range(6):
            mags[rng.randrange(n)] = rng.choice([HUGE, HUGE_THOROUGH])
    mags += [GIGANTIC[k % len(GIGANTIC)] for k in range(ctx.n(9, 90))]
    rng.shuffle(mags)
    # +- a little, so that no total is a round number
    return [gen_case(rng, T + rng.choice([0, 1, 2, 7, 12345 % max(2, T // 10)])) for T in mags]


def lean_ops(case):
    return base.lean_ops(case)


def evaluate(case, louts, ctx):
    ctx.count("largecounts:magnitude:1e%d" % (len(str(int(case["magnitude"]))) - 1))
    findings, key = base.evaluate(case, louts, ctx)
    if key is not None:
        key = ("largecounts", case["present"]) + tuple(key)
    return findings, key


def describe(case):
    d = base.describe(case)
    d.update({"family": "largecounts", "present": case["present"], "magnitude": case["magnitude"],
              "records": [[w, a] for w, a in case["survey"]][:12]})
    return d


def shrink_candidates(case):
    for c in base.shrink_candidates(case):
        yield c
    # smaller weights keeping the pattern: divide every big weight by 10 (spec and library see the same records)
    sv = case["survey"]
    try:
        ws = [F(w) for w, _ in sv]
    except Exception:
        return
    if ws and max(ws) > 1000:
        yield dict(case, survey=[[gen.frac_str(w // 10 if w > 20 else w), a] for w, a in zip(ws, [a for _, a in sv])])
