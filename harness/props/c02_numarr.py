"""C02 extension — bases and margins when valid counts stand in for counts: numeric arrays (the valid counts ARE the
counts and bases: eligible = has a value on that particular item) and numeric measures over cat / MR / CA dimensions.
"""
from props import _numarr_gen as ng
from props import c01_numeric, c01_numarr

PROPERTY = "C02"
LEAN_MODULE = "CrCube.Props.C02_NumArray"
THEOREMS = [
    "CrCube.C02.numarr_counts_respondents",
    "CrCube.C02.numarr_rowBase_respondents",
    "CrCube.C02.numarr_column_and_table_bases",
    "CrCube.C02.numarr_item_eligibility",
    "CrCube.C02.numarr_extents",
    "CrCube.C02.numarr_strand_respondents",
    "CrCube.C02.numarr_strand_kind",
    "CrCube.C02.valid_counts_unweighted_count_respondents",
    "CrCube.C02.numeric_valid_counts_respondents_2d",
    "CrCube.C02.numeric_valid_rowBase_respondents_2d",
    "CrCube.C02.numeric_valid_counts_respondents_1d",
    "CrCube.C02.valid_counts_summary_range_respondents",
    "CrCube.C02.valid_counts_summary_range_respondents_strand",
    "CrCube.C02.valid_counts_summary_range_respondents_scalar",
    "CrCube.C02.valid_counts_summary_range_none",
    "CrCube.C02.valid_counts_summary_range_mr_counterexample",
]
RULE = ("numeric arrays (alone / x cat-like / x mr / x cat x cat / x ca) and numeric measures over 1-3 apparent "
        "dimensions, with valid counts {u,w,uw} (and a few without); per-item missingness; min-base sizes 0-5; every "
        "base, margin, range and mask of every partition; non-trivial = >= 2 distinct base values; "
        "distinct = (kinds, n_items, valid-count mode, values)")
ASSUMPTIONS = ["valid_count_unweighted / valid_count_weighted of the raw cell (group cell, item) = (weighted) number of "
               "respondents of the group cell that have a value on the item (Spec.validCountsOf)"]


def generate(ctx):
    out = []
    rng = ctx.rng
    for _ in range(ctx.n(110, 2200)):
        vc = rng.choice(["uw"] * 5 + ["u"] * 5 + ["w", "none"])
        if rng.random() < 0.7:
            nit = rng.choice([1, 2, 2, 3, 3, 4])
            out.append(ng.gen_case(rng, c01_numarr.gen_kinds(rng), nit, True, vc=vc))
        else:
            kinds = c01_numeric.gen_kinds(rng)
            while not kinds:
                kinds = c01_numeric.gen_kinds(rng)
            out.append(ng.gen_case(rng, kinds, 1, False, vc=vc))
    return out


def lean_ops(case):
    return ng.lean_ops(case)


def evaluate(case, louts, ctx):
    pre = "numarr" if ng.is_array(case) else "numeric"
    return ng.evaluate_case(case, louts, ctx, "c02", pre)


describe = ng.describe
shrink_candidates = ng.shrink_candidates
