"""C06 extension - partition k of a 3-D response = the 2-D analysis of the restricted survey, on the END-TO-END pipeline model.

What this module adds to c06.py (library partition k vs the library's own analysis of the restricted survey, no transforms):
the restriction is done IN LEAN.  The 3-D case is sent to the driver op `pipe_slice_part`, which applies
`CubeData.partition2d` (table variable dropped, every raw array - weighted counts, unweighted counts, numeric payloads -
replaced by its sub-tensor at the RAW position of valid table element k) and runs the 2-D pipeline model under the case's
transforms; the result is compared, output for output and cell for cell, with partition k of the REAL library run on the
3-D response.  So the object the theorems of Props/C06_Pipeline.lean speak about (`cube2` = the tabulated 2-D cube data of
`restrictTo T k s`) is tied to the library: (i) Lean's sub-tensors must be `cubeOf [R, C]` of the restricted survey (checked
in Lean) and the Python tabulation of the Python-restricted survey (checked here), (ii) the 2-D model on them must be the
library's partition k, (iii) the respondent-level cells of the RESTRICTED survey must be the displayed base cells.  On every
third case the executable twin of `C06.pipelineX_partition` (3-D pipeline output = 2-D pipeline output) is evaluated too.
Library-level oracle WITH transforms (c06.py has none): partition k under the transforms vs the library's 2-D cube of the
restricted survey under the same transforms, ~45 outputs (a spec-kind finding: the property statement itself).
"""
import copy
import itertools
from fractions import Fraction
import common
import gen
from props import _slice_common as sc
from props import c05_pipeline as cp

PROPERTY = "C06"
LEAN_MODULE = ["CrCube.Props.C06_Pipeline"]
THEOREMS = [
    "CrCube.C06.extractors_partition_raw",
    "CrCube.C06.numeric_partition_raw",
    "CrCube.C06.baseline_partition_raw",
    "CrCube.C06.partition_same_raw",
    "CrCube.C06.pipelineX_partition_raw",
    "CrCube.C06.raw_partition_is_restricted_cube",
    "CrCube.C06.restrict_unweight",
    "CrCube.C06.partition_cube_data",
    "CrCube.C06.partition_same",
    "CrCube.C06.baseline_partition",
    "CrCube.C06.baseline_partition_respondents",
    "CrCube.C06.slice_blocks_partition",
    "CrCube.C06.slice_avail_partition",
    "CrCube.C06.pruning_masks_partition",
    "CrCube.C06.slice_orders_partition",
    "CrCube.C06.slice_output_partition",
    "CrCube.C06.slice_out_cells_partition",
    "CrCube.C06.scale_marginals_partition",
    "CrCube.C06.slice_outputX_partition",
    "CrCube.C06.pipeline_partition",
    "CrCube.C06.pipelineX_partition",
    "CrCube.C06.slice_wf_partition",
    "CrCube.C06.partition_counts_respondents",
    "CrCube.C06.baseline_unfixed_partition_counterexample",
]
RULE = ("pipeline-partition: 3-D designs [T, R, C] (T over cat / cat_date / text / datetime / mr incl. missing items and a "
        "MISSING FIRST payload category in half of the categorical tables; R, C over cat / cat_date / mr) under the C05 "
        "pipeline transform grammar (all order types incl. sorts by col_index / z-score / numeric keys, insertions incl. "
        "differences, hide, prune), numeric measures, population; each partition k: Lean 2-D pipeline on the restricted "
        "cube data vs library partition k; non-trivial = an order that differs from the stripped one or >= 2 partitions "
        "with different counts; distinct = (kinds, transforms, first partition's counts)")
ASSUMPTIONS = ["Spec.cubeOf is the back end's tabulation (checked per case in C01; here: Lean sub-tensor = cubeOf of the "
               "restricted survey = Python tabulation of the Python-restricted survey)",
               "population fraction 1 (no filter statistics): the same population and fraction on both sides"]
TRUSTED_EXTRA = ["Python restriction of the survey and sub-tensor of the numeric payload (independent of the Lean ones)"]

T_KINDS = ["cat", "cat", "cat", "mr", "mr", "cat_date", "text", "datetime"]
RC_KINDS = ["cat", "cat", "cat", "mr", "cat_date"]

# outputs of the library-level oracle (partition k under transforms vs 2-D cube of the restricted survey under the same)
LIB_OUTPUTS = cp.MATS + cp.MARGS + [
    "shape", "inserted_row_idxs", "inserted_column_idxs", "diff_row_idxs", "diff_column_idxs", "row_labels", "column_labels",
    "rows_scale_mean", "columns_scale_mean", "rows_scale_median", "columns_scale_median", "rows_scale_mean_stddev",
    "columns_scale_mean_stddev", "rows_margin_proportion", "columns_margin_proportion", "is_empty"]


def _force_missing_first(rng, v):
    """a table variable whose FIRST payload category is missing and a later one valid (the F4 shape)"""
    if v.is_array or len(v.cats) < 2:
        return
    v.cats[0]["missing"] = True
    if all(c["missing"] for c in v.cats):
        v.cats[rng.randrange(1, len(v.cats))]["missing"] = False


def _sort_transforms(rng, vars_, ms):
    """the sort-by-value family of c05_pipeline.gen_sort_case on the last two variables, col_index favoured"""
    R, C = vars_[-2], vars_[-1]
    cat_date = any(v.kind == "cat_date" for v in (R, C))
    rd, cd = {}, {}
    ri, ci = cp._at_least_two_insertions(rng, R), cp._at_least_two_insertions(rng, C)
    if ri:
        rd["insertions"] = cp._with_fills(rng, ri)
    if ci:
        cd["insertions"] = cp._with_fills(rng, ci)
    rkeys, ckeys = sc.element_keys(R), sc.element_keys(C)

    def measure():
        return "col_index" if rng.random() < 0.3 else cp._pick_measure(rng, cat_date, ms)
    rt = rng.choice(["opposing_element", "opposing_element", "opposing_insertion", "marginal", "label"])
    if rt == "opposing_element":
        ro = {"type": rt, "element_id": rng.choice(ckeys), "measure": measure()}
    elif rt == "opposing_insertion":
        ro = {"type": rt, "insertion_id": rng.choice(cp._ins_ids(cd) + [77]) if not C.is_array else 77, "measure": measure()}
    elif rt == "marginal":
        ro = {"type": rt, "marginal": rng.choice(cp.MARGINAL_OK)}
        for cc in C.cats:
            if cc.get("numeric_value") is None and rng.random() < 0.7:
                cc["numeric_value"] = rng.choice([-2, -1, 0, 1, 2, 3, 5, 10])
    else:
        ro = {"type": "label"}
    rd["order"] = cp._sort_opts(rng, ro, rkeys)
    ct = rng.choice(["opposing_element", "opposing_insertion", "label", "explicit", "none"])
    if ct == "opposing_element":
        cd["order"] = cp._sort_opts(rng, {"type": ct, "element_id": rng.choice(rkeys), "measure": measure()}, ckeys)
    elif ct == "opposing_insertion":
        cd["order"] = cp._sort_opts(rng, {"type": ct, "insertion_id": rng.choice(cp._ins_ids(rd) + [78]) if not R.is_array else 78,
                                          "measure": measure()}, ckeys)
    elif ct == "label":
        cd["order"] = cp._sort_opts(rng, {"type": "label"}, ckeys)
    elif ct == "explicit":
        l = list(ckeys)
        rng.shuffle(l)
        cd["order"] = {"type": "explicit", "element_ids": l[: rng.randint(0, len(l))]}
    for d, keys in ((rd, rkeys), (cd, ckeys)):
        el = {str(k): {"hide": True} for k in keys if rng.random() < 0.12}
        if el:
            d["elements"] = el
        if rng.random() < 0.3:
            d["prune"] = True
    return {"rows_dimension": rd, "columns_dimension": cd}


def _general_transforms(rng, vars_):
    """the general family of c05_pipeline._gen_case0"""
    R, C = vars_[-2], vars_[-1]
    cd = cp._gen_dim(rng, C, R, [])
    rd = cp._gen_dim(rng, R, C, cd.get("insertions", []))
    cp._fix_opp_ins(rng, rd, cd, R.is_array, C.is_array)
    tr = {"rows_dimension": rd, "columns_dimension": cd}
    for d in tr.values():
        if d.get("insertions"):
            cp._with_fills(rng, d["insertions"])
    if rng.random() < 0.1:
        tr.pop(rng.choice(sorted(tr)))
    return tr


def gen_case(rng):
    sort_family = rng.random() < 0.5
    kinds = [rng.choice(T_KINDS), rng.choice(RC_KINDS), rng.choice(RC_KINDS)]
    hi = 4 if sort_family else 3
    vars_ = [gen.gen_var(rng, k, "v%d" % i, n=rng.randint(2 if sort_family and i else 1, hi), missing_items=True,
                         derived_items=not sort_family) for i, k in enumerate(kinds)]
    if rng.random() < 0.5:
        _force_missing_first(rng, vars_[0])
    for v in vars_[1:]:
        if v.kind in ("cat", "cat_date") and rng.random() < 0.2:
            v.view_insertions = cp._rich_insertions(rng, v) if rng.random() < 0.6 else sc.gen_insertions(rng, v, allow_diff=True)
    weighted = rng.random() < 0.7
    survey = gen.gen_survey(rng, vars_, n_resp=rng.choice([None, None, 0, 3, rng.randint(15, 40), rng.randint(15, 40)]),
                            weighted=weighted, skew=rng.random() < 0.3, tiny=not sort_family)
    # zero-weight whole rows: weighted-empty but unweighted non-empty vectors (prune must use unweighted counts)
    if weighted and survey and rng.random() < 0.3:
        v0 = vars_[1]
        tgt = rng.randrange(len(v0.cats))
        survey = [(Fraction(0) if ans[1][0] == tgt else w, ans) for w, ans in survey]
    ms = cp._gen_measures(rng, vars_, p=0.5)
    tr = _sort_transforms(rng, vars_, ms) if sort_family else _general_transforms(rng, vars_)
    case = {"vars": [v.to_json() for v in vars_], "survey": gen.survey_to_json(survey), "weighted": weighted, "min_base": 0,
            "transforms": tr, "population": rng.choice([0, 1000, 1000, 250])}
    if ms:
        case["measures"] = ms
    vars_, _ = sc.load(case)
    if cp._missing_array_item(vars_):
        for d in case["transforms"].values():
            o = (d or {}).get("order") or {}
            if o.get("measure") == "col_index":
                o["measure"] = "col_percent"
    return case


def generate(ctx):
    return [gen_case(ctx.rng) for _ in range(ctx.n(45, 700))]


def _twins(case):
    return (len(case["survey"]) + len(repr(case.get("transforms")))) % 3 == 1


def lean_ops(case):
    out = []
    for op in cp.lean_ops(case):
        op = dict(op)
        op["op"] = "pipe_slice_part"
        op["twins"] = _twins(case)
        out.append(op)
    return out


def _fr(x):
    return None if x in ("nan", None) else Fraction(x)


def _restrict(vars_, survey, k):
    """survey restricted to the members of valid element k of vars_[0] (MR: who selected valid item k), that answer dropped"""
    T = vars_[0]
    out = []
    if T.is_array:
        kk = T.valid_item_pos[k]
        for w, ans in survey:
            if ans[0][kk] == 0:
                out.append((w, ans[1:]))
    else:
        pos = T.valid_cat_pos[k]
        for w, ans in survey:
            if ans[0][0] == pos:
                out.append((w, ans[1:]))
    return out


def _valid_shape(vars_):
    sh = []
    for v in vars_:
        if v.is_array:
            sh += [len(v.valid_item_pos), len(v.cats)]
        else:
            sh.append(len(v.cats))
    return sh


def _subtensor(flat, shape, prefix):
    rest = shape[len(prefix):]
    out = []
    for ix in itertools.product(*[range(n) for n in rest]):
        pos = 0
        for n, i in zip(shape, list(prefix) + list(ix)):
            pos = pos * n + i
        out.append(flat[pos])
    return out


def _raw_subtensor(flat, vars_, k):
    """sub-tensor of a RAW payload (all items) at valid table element k"""
    T = vars_[0]
    prefix = [T.valid_item_pos[k], 0] if T.is_array else [T.valid_cat_pos[k]]
    return _subtensor(flat, gen.raw_shape(vars_), prefix)


def _get(obj, name):
    def thunk():
        v = getattr(obj, name)
        return v() if callable(v) else v
    return common.call_impl(thunk)


def _library_oracle(case, vars_, survey, cube, k, findings):
    """the property at library level WITH transforms: partition k vs the 2-D cube of the restricted survey"""
    from cr.cube.cube import Cube
    rs = _restrict(vars_, survey, k)
    extra = {}
    for name, data in (case.get("measures") or {}).items():
        extra[name] = [{"?": -1} if x is None else gen.num(Fraction(x)) for x in _raw_subtensor(data, vars_, k)]
    resp2 = gen.cube_response(vars_[1:], rs, case["weighted"], extra_measures=extra or None)
    c2 = Cube(resp2, transforms=copy.deepcopy(case["transforms"]), population=case.get("population", 0))
    a, b = cube.partitions[k], c2.partitions[0]
    have = set((case.get("measures") or {}).keys())
    names = ["row_order", "column_order"] + LIB_OUTPUTS + [nm for nm, need in cp.NUMERIC_MATS.items() if need in have]
    for name in names:
        if name == "column_index" and cp._missing_array_item(vars_):
            continue
        va, vb = _get(a, name), _get(b, name)
        ok, where = common.deep_close(va, vb)
        if not ok:
            findings.append({"kind": "spec", "locus": "ppipe.library.%s" % name,
                             "detail": "k=%d partition of the 3-D response%s | partition=%s 2-D cube of the restricted survey=%s" % (
                                 k, where, sc._short(va), sc._short(vb))})


def evaluate(case, louts, ctx):
    findings = []
    vars_, survey = sc.load(case)
    T = vars_[0]
    ctx.count("ppipe.table:" + T.kind)
    if not T.is_array and T.cats[0]["missing"]:
        ctx.count("ppipe.table_first_category_missing")
    if len(louts) != sc.nparts(vars_):
        raise common.HarnessFault("c06_pipeline: %d outputs for %d partitions" % (len(louts), sc.nparts(vars_)))
    mo3 = cp._measure_ops(case, vars_)
    vshape = _valid_shape(vars_)
    firsts = []
    for k, lo in enumerate(louts):
        # (i) the restriction done in Lean is the tabulated cube of the restricted survey - in Lean and in Python
        if lo.get("restrict_equal") is not True:
            raise common.HarnessFault("c06_pipeline: Lean rawPartition of the 3-D payload is not cubeOf of restrictTo (k=%d)" % k)
        rs = _restrict(vars_, survey, k)
        if lo.get("n_restricted") != len(rs):
            raise common.HarnessFault("c06_pipeline: restricted survey sizes differ: Lean %r Python %d (k=%d)" % (lo.get("n_restricted"), len(rs), k))
        prefix = [k, 0] if T.is_array else [T.valid_cat_pos[k]]
        want = {"wdata_2d": gen.tabulate_valid_items(vars_[1:], rs, case["weighted"]),
                "udata_2d": gen.tabulate_valid_items(vars_[1:], rs, False)}
        for fld in ("sums", "means", "stddevs", "medians"):
            want[fld + "_2d"] = None if mo3.get(fld) is None else _subtensor(mo3[fld], vshape, prefix)
        for nm, w in want.items():
            got = lo.get(nm)
            if w is None and got is None:
                continue
            if w is None or got is None or [_fr(x) for x in got] != [_fr(gen.frac_str(x) if isinstance(x, Fraction) else x) for x in w]:
                raise common.HarnessFault("c06_pipeline: %s k=%d Lean %s vs Python %s" % (nm, k, sc._short(got), sc._short(w)))
        if "raises" not in lo and _twins(case):
            ctx.count("ppipe.twin_evaluated")
            if not lo["twin"]:
                findings.append({"kind": "model", "locus": "ppipe.twin-of-pipelineX_partition",
                                 "detail": "k=%d the 3-D pipeline output differs from the 2-D pipeline output on the restricted cube data" % k})
        firsts.append(repr(lo.get("wdata_2d")))
    if findings:
        return findings, None
    # (ii) + (iii): the 2-D model on the restricted cube data vs the library's partition k of the 3-D response
    try:
        f2, key = cp.evaluate(case, louts, ctx)
    except common.HarnessFault:
        raise
    except Exception as e:  # noqa  (a badly broken partition can make the cell-by-cell comparison itself fail)
        f2, key = [{"kind": "model", "locus": "pipeline.comparison-raised", "detail": "%s: %s" % (type(e).__name__, e)}], None
    for f in f2:
        f = dict(f)
        f["locus"] = "ppipe." + f["locus"].replace("pipeline.", "", 1)
        f["detail"] = "library partition of the 3-D response vs model on CubeData.partition2d (2-D data of the restricted survey): " + f["detail"]
        findings.append(f)
    # the property at library level, with the transforms
    try:
        cube = cp._make_cube(case, case["transforms"])
        nparts = len(cube.partitions)
    except Exception as e:  # noqa
        return findings + [{"kind": "model", "locus": "ppipe.cube-construction", "detail": "%s: %s" % (type(e).__name__, e)}], None
    if nparts != len(louts):
        findings.append({"kind": "spec", "locus": "ppipe.npartitions", "detail": "%d partitions, %d valid table elements" % (nparts, len(louts))})
        return findings, None
    for k in range(nparts):
        _library_oracle(case, vars_, survey, cube, k, findings)
    if key is None and len(set(firsts)) >= 2 and not findings:
        key = ("x".join(sc.kinds_of(vars_)), repr(case["transforms"]), firsts[0])
    return findings, (("P",) + tuple(key) if key else None)


def describe(case):
    d = cp.describe(case) if hasattr(cp, "describe") else {}
    return d


shrink_candidates = sc.shrink_candidates
