"""C19 — array items may be referenced by alias, sub-variable id or element id alike.

Seams
  shim   `Dimension(...).translate_element_id`, `_ElementIdShim(...).shimmed_dimension_transforms_dict`
         (the caller's dict afterwards, and after a SECOND shim object over the same dicts), the
         dimension-level consumers (element transforms, hidden idxs, ExplicitOrderCollator descriptors,
         SortByValueCollator fixed idxs, opposing-element index)  vs  Lean Model (`translate`, `shimXf`,
         `view`) and Lean Spec (`resolve` = what the statement says a reference denotes).
  dt     the same for DATETIME dimensions (`translateDt`, position id / value).
  api    real cubes (MR / CA / numeric-array dimensions on rows, columns, both, 1-D, 3-D): labels, order
         and values of `_Slice` / `_Strand` under every spelling of the same transform are identical, equal
         to what the Lean spec resolver predicts, and unmatched references change nothing.

Universe of the `shim` seam (run completely in BOTH tiers, see RULE).
"""
import copy
import itertools
import json

import common
import gen
from props import shim_common as sc

PROPERTY = "C19"
LEAN_MODULE = "CrCube.Props.C19"
THEOREMS = [
    "CrCube.C19.pyInt_decStr",
    "CrCube.C19.translate_mem_aliases",
    "CrCube.C19.translate_eq_resolve",
    "CrCube.C19.unmatched_none",
    "CrCube.C19.spellings_agree",
    "CrCube.C19.position_rule_int",
    "CrCube.C19.position_rule_str",
    "CrCube.C19.collision_inherent",
    "CrCube.C19.collision_counterexample",
    "CrCube.C19.element_ids_after_shim",
    "CrCube.C19.slots_factor",
    "CrCube.C19.sameItem_of_spellings",
    "CrCube.C19.slots_agree",
    "CrCube.C19.opposing_agree",
    "CrCube.C19.datetime_by_position_or_value",
    "CrCube.C19.unfixed_null_raises",
    "CrCube.C19.unfixed_agrees_off_null",
    "CrCube.C19.unfixed_datetime_missing_ref_counterexample",
]
RULE = ("shim seam, EXHAUSTIVE over the finite universe U: family A = every array dimension shape with 1-4 items "
        "x kind (MR, MR with view insertions, CA, numeric array) x element-id pattern (positions, 1..n, reversed, "
        "sparse, with negatives) x every subset of inserted (anchored) items x derived flags (= anchored | all | complement), collision-free spellings; "
        "family B = the same shapes with deliberate collisions (decimal sub-variable ids as in real MR-insertion "
        "payloads, sub-variable id = another item's alias, alias = another item's decimal id / position); family D = CA "
        "dimensions with one / all elements lacking the optional value.id (the library then has no sub-variable ids); for each "
        "dimension: every spelling of every item + positions + stale + malformed references through `translate`, "
        "and for every (spelling class x item rotation) one transforms dict filling ALL slots (hide, rename, "
        "explicit order, fixed top/bottom, opposing element) + stale/malformed/duplicate mixes + 'key' modes; "
        "family C = random dimensions over a small shared string pool (accidental collisions). dt seam: datetime "
        "dimensions incl. missing elements and digit-string values. api seam: random real cubes. A case is "
        "non-trivial when at least one reference resolves to an item other than by alias; distinct = distinct "
        "(kind, n, patterns, anchors) / api design key")
ASSUMPTIONS = [
    "array element ids are ints and every item has a string alias (as in all fixtures); value.id is optional (family D)",
    "references are JSON ints, ASCII strings or null; floats / bools / containers as references are out of scope",
    "the literal string 'key' spells no item",
    "datetime values are not digit strings naming an element id (DtNoCollision; counterexample theorem otherwise)",
]
TRUSTED_EXTRA = ["Python `int(str)` / `str(int)` on ASCII strings = Lean `pyInt` / `decStr` (cross-checked by op `py_int` on every run)"]
EXHAUSTIVE = True

STALE = [999, "999", -7, "-7", "zz", "N a"]
MALFORMED = ["", " ", "1.0", "1e0", " 1", "1 ", "01", "+1", "-0", "1_0", "1__0", "_1", "0x1", "\t2\n", None]
PYINT_PROBE = ["0", "7", "-3", "+3", " 4 ", "\t5\n", "0_0", "1_000", "1__0", "_1", "1_", "", " ", "-", "+", "--1",
               "+-1", "- 1", "1 2", "12a", "a12", "1.0", "1e3", "0x10", "007", "-007", "\x0c9\x0b", "\x1c8\x1f"]

# ---------------------------------------------------------------------------------------
# the finite universe of the shim seam


def id_patterns(n):
    return {
        "pos": list(range(n)),
        "one": list(range(1, n + 1)),
        "rev": list(range(n, 0, -1)),
        "sparse": [11, 23, 35, 47][:n],
        "neg": [-1, 0, 7, 2][:n],
    }


def mk_dim(n, kind, idpat, anchors, sv="pad", al="plain", derived=None, noid=None):
    ids = id_patterns(n)[idpat]
    aliases = []
    for i in range(n):
        alias = "A_%c" % chr(97 + i)
        if al == "numeric" and n >= 2:
            alias = str(ids[(i + 1) % n])           # alias = another item's decimal element id
        elif al == "poslike" and n >= 2:
            alias = str((i + 1) % n)                # alias = another item's position
        aliases.append(alias)
    items = []
    for i in range(n):
        svid = "%04d" % (ids[i] + 20)
        if sv == "dec":
            svid = str(i + 1)                       # as in real MR-insertion payloads
        elif sv == "alias_next" and n >= 2:
            svid = aliases[(i + 1) % n]             # sub-variable id = another item's alias
        elif sv == "hex":
            svid = "%c%x%c" % (chr(102 + i), 160 + i, chr(98 + i))
        anc = bool(anchors[i]) if anchors else False
        der = anc if derived is None else bool(derived[i])
        items.append({"id": ids[i], "alias": aliases[i], "subvar_id": svid, "anchor": anc, "derived": der})
        if noid == "all" or (noid == "first" and i == 0) or (noid == "last" and i == n - 1):
            items[-1]["no_id"] = True             # the element comes without the optional `value.id`
    return {"items": items, "mr_ins": kind == "MR_INS", "no_subvar_ids": any(it.get("no_id") for it in items)}


def universe():
    out = []
    # family A
    for n in (1, 2, 3, 4):
        for kind in sc.KINDS:
            pats = ["pos"] if kind == "NUM_ARRAY" else ["pos", "one", "rev", "sparse", "neg"]
            for idpat in pats:
                if kind == "MR_INS":
                    for anchors in itertools.product((0, 1), repeat=n):
                        out.append(("A", kind, n, idpat, anchors, "pad", "plain", None))
                        out.append(("A", kind, n, idpat, anchors, "pad", "plain", tuple([1] * n)))
                elif kind == "MR":
                    out.append(("A", kind, n, idpat, None, "pad", "plain", None))
                    out.append(("A", kind, n, idpat, None, "hex", "plain", tuple(int(i == 0) for i in range(n))))
                else:
                    out.append(("A", kind, n, idpat, None, "pad", "plain", None))
    # family B
    for n in (2, 3, 4):
        for kind in ("MR", "MR_INS", "CA"):
            ancs = [None]
            if kind == "MR_INS":
                ancs = [tuple([0] * n), tuple(int(i == 0) for i in range(n)),
                        tuple(int(i == n - 1) for i in range(n)), tuple(i % 2 for i in range(n))]
            for anchors in ancs:
                for idpat in ("one", "rev", "pos"):
                    for sv in ("pad", "dec", "alias_next"):
                        for al in ("plain", "numeric", "poslike"):
                            if sv == "pad" and al == "plain":
                                continue
                            out.append(("B", kind, n, idpat, anchors, sv, al, None))
                            if kind == "MR_INS":
                                # `derived` is independent of `anchor`: a derived MR variable (every real
                                # sub-variable derived), and derived exactly on the NON-inserted items
                                out.append(("B", kind, n, idpat, anchors, sv, al, tuple([1] * n)))
                                out.append(("B", kind, n, idpat, anchors, sv, al, tuple(1 - a for a in anchors)))
    # family D: elements without the optional `value.id` (one of them / all of them): the library then has no
    # sub-variable ids at all.  CA only: an MR dimension with an id-less element cannot be built at all
    # (`Elements._hidden_transforms` indexes `value["id"]`)
    for n in (1, 2, 3, 4):
        for idpat in ("one", "sparse", "pos"):
            for noid in ("first", "last", "all"):
                for sv in ("pad", "dec"):
                    out.append(("D", "CA", n, idpat, None, sv, "plain", None, noid))
    return out


def spelling(dim, k, cls):
    it = dim["items"][k]
    eids = [x["id"] for x in dim["items"]]
    if cls == "alias":
        return it["alias"]
    if cls == "subvar":
        return it["alias"] if it.get("no_id") else it["subvar_id"]
    if cls == "int":
        return it["id"]
    if cls == "str":
        return str(it["id"])
    if cls == "posint":
        return k if k not in eids else it["alias"]
    if cls == "posstr":
        return str(k) if k not in eids else it["alias"]
    raise ValueError(cls)


CLASSES = ("alias", "subvar", "int", "str", "posint", "posstr")


def xf_for(dim, cls, r):
    n = len(dim["items"])
    idx = [(r + i) % n for i in range(n)]
    ref = lambda k: spelling(dim, k, cls)  # noqa
    entries = [[ref(idx[0]), {"hide": True, "name": None}]]
    if n >= 2 and ref(idx[1]) != ref(idx[0]):
        entries.append([ref(idx[1]), {"hide": None, "name": "R%d" % idx[1]}])
    return {"elements": {"mode": "absent", "entries": entries},
            "order_ids": [ref(k) for k in reversed(idx)],
            "top": [ref(idx[0])],
            "bottom": [ref(idx[1])] if n >= 2 else [],
            "opposing": {"ref": ref(idx[0])}}


def dedupe_entries(entries):
    seen = []
    out = []
    for k, v in entries:
        pk = ("n", None) if k is None else (type(k).__name__, k)
        if pk in seen:
            continue
        seen.append(pk)
        out.append([k, v])
    return out


def extra_xfs(dim):
    n = len(dim["items"])
    a = lambda k, c: spelling(dim, k % n, c)  # noqa
    out = []
    # stale + malformed + duplicates, all slots (no null: the first pass must go through, F7 shows on the second)
    stale = {"elements": {"mode": "absent", "entries": dedupe_entries(
                    [["zz", {"hide": True, "name": None}], [a(0, "subvar"), {"hide": None, "name": "first"}],
                     [999, {"hide": True, "name": None}], [a(0, "alias"), {"hide": True, "name": None}],
                     [" 1", {"hide": None, "name": "ws"}], [a(n - 1, "str"), {"hide": None, "name": "last"}]])},
             "order_ids": [a(n - 1, "str"), "zz", a(0, "int"), a(n - 1, "alias"), 999, "", a(1, "subvar")],
             "top": ["zz", a(0, "subvar")],
             "bottom": [a(n - 1, "int"), -7, a(n - 1, "alias")],
             "opposing": {"ref": "zz"}}
    out.append(stale)
    withnull = copy.deepcopy(stale)
    withnull["order_ids"].insert(2, None)
    withnull["top"].append(None)
    out.append(withnull)
    out.append({"elements": None, "order_ids": [], "top": [], "bottom": None, "opposing": {"ref": None}})
    out.append({"elements": {"mode": "absent", "entries": []}, "order_ids": None, "top": None,
                "bottom": [None, a(0, "posstr")], "opposing": {"ref": a(n - 1, "posint")}})
    # "key" modes
    out.append({"elements": {"mode": "alias", "entries": dedupe_entries(
                    [[a(0, "alias"), {"hide": True, "name": None}], [a(1, "subvar"), {"hide": None, "name": "nk"}]])},
                "order_ids": None, "top": None, "bottom": None, "opposing": None})
    out.append({"elements": {"mode": "subvar_id", "entries": dedupe_entries(
                    [[a(0, "subvar"), {"hide": True, "name": None}], [a(1, "alias"), {"hide": None, "name": "byalias"}],
                     [a(n - 1, "str"), {"hide": None, "name": "bystr"}], ["zz", {"hide": True, "name": None}]])},
                "order_ids": [a(0, "subvar")], "top": None, "bottom": None, "opposing": None})
    return out


def refs_for(dim):
    n = len(dim["items"])
    refs = []
    for k in range(n):
        for c in ("alias", "subvar", "int", "str"):
            refs.append(spelling(dim, k, c))
    for p in range(-1, n + 2):
        refs += [p, str(p)]
    refs += STALE + MALFORMED
    return refs


POOL = ["a", "b", "c", "0", "1", "2", "3", "01", "10", "-1", " 1", "x1", "2_0", "+2"]


def random_dim(rng):
    n = rng.randint(1, 4)
    kind = rng.choice(sc.KINDS)
    ids = list(range(n)) if kind == "NUM_ARRAY" else [rng.choice([-1, 0, 1, 2, 3, 10, 20]) for _ in range(n)]
    if rng.random() < 0.8:
        ids = ids if len(set(ids)) == n else rng.sample([-1, 0, 1, 2, 3, 10, 20], n)
    items = []
    for i in range(n):
        anc = kind == "MR_INS" and rng.random() < 0.4
        items.append({"id": ids[i], "alias": rng.choice(POOL), "subvar_id": rng.choice(POOL),
                      "anchor": anc, "derived": anc or (kind != "NUM_ARRAY" and rng.random() < 0.15)})
    if rng.random() < 0.7:      # mostly distinct aliases
        for i, it in enumerate(items):
            it["alias"] = it["alias"] + "ABCD"[i] if rng.random() < 0.7 else it["alias"]
    return kind, {"items": items, "mr_ins": kind == "MR_INS"}


# ---------------------------------------------------------------------------------------
# datetime


def dt_cases(rng, count):
    out = []
    for c in range(count):
        n = rng.randint(1, 5)
        ids = rng.sample([-1, 0, 1, 2, 3, 4, 5, 9], n)
        style = rng.choice(["iso", "iso", "year", "digits"])
        items = []
        for i, eid in enumerate(ids):
            missing = rng.random() < 0.25
            if style == "iso":
                v = "20%02d-0%d-01T00:00:00" % (i + 1, i % 9 + 1)
            elif style == "year":
                v = "20%02d" % (i + 1)
            else:
                v = str(rng.choice([0, 1, 2, 3, 4, 5, 9, 77]))
            items.append({"id": eid, "value": None if missing else v})
        refs = []
        for it in items:
            refs += [it["id"], str(it["id"])]
            if it["value"] is not None:
                refs.append(it["value"])
        refs += [77, "77", "zz", "", None, " 1", "01", "2001", "2001-01"]
        k = rng.randrange(n)
        spell = rng.choice(["id", "strid", "value"])

        def sp(i):
            it = items[i % n]
            if spell == "value" and it["value"] is not None:
                return it["value"]
            return it["id"] if spell == "id" else str(it["id"])
        xf = {"elements": {"mode": rng.choice(["absent", "absent", "alias"]),
                           "entries": dedupe_entries([[sp(k), {"hide": True, "name": None}],
                                                      [sp(k + 1), {"hide": None, "name": "R"}],
                                                      ["zz", {"hide": True, "name": None}]])},
              "order_ids": [sp(k + 2), sp(k), "zz", sp(k + 1)] if rng.random() < 0.8 else None,
              "top": [sp(k)], "bottom": [sp(k + 1), 77], "opposing": {"ref": sp(k)}}
        out.append({"t": "dt", "dim": {"items": items}, "refs": refs, "xf": xf, "style": style, "spell": spell})
    return out


def real_dt_dim(dim):
    els = []
    for it in dim["items"]:
        els.append({"id": it["id"], "missing": it["value"] is None,
                    "value": {"?": -1} if it["value"] is None else it["value"]})
    return {"derived": True, "references": {"alias": "dt", "name": "DT"},
            "type": {"class": "enum", "elements": els,
                     "subtype": {"class": "datetime", "resolution": "Y", "missing_reasons": {"No Data": -1},
                                 "missing_rules": {}}}}


# ---------------------------------------------------------------------------------------
# api cases (real cubes)

API_LAYOUTS = ["mr_x_cat", "cat_x_mr", "mr_x_mr", "ca_x_cat", "cat_x_ca", "mr", "cat_x_mr_x_cat", "mr_x_cat_x_mr",
               "numarr_x_cat", "mrins_x_cat", "cat_x_mrins"]


def api_case(rng):
    layout = rng.choice(API_LAYOUTS)
    n = rng.randint(2, 4)
    idpat = rng.choice(["one", "rev", "sparse", "neg", "pos"])
    return {"t": "api", "layout": layout, "n": n, "idpat": idpat, "seed": rng.randrange(1 << 30),
            "slot": rng.choice(["hide", "rename", "explicit", "fixed", "opposing", "opposing", "mixed"]),
            "k": rng.randrange(n), "stale": rng.random() < 0.5}


def api_case_mrins(rng):
    """MR with view insertions as in real payloads: decimal sub-variable ids shifted against the renumbered element
    ids (colliding spellings), real sub-variables derived or not; half of the cases sort the OTHER dimension by one of
    its items, so that the MR dimension itself carries no transforms at all"""
    n = rng.randint(3, 4)
    return {"t": "api", "layout": rng.choice(["mrins_x_cat", "cat_x_mrins"]), "n": n,
            "idpat": rng.choice(["one", "one", "rev", "sparse"]), "seed": rng.randrange(1 << 30),
            "slot": rng.choice(["opposing", "opposing", "opposing", "opposing", "hide", "rename", "explicit", "fixed"]),
            "k": rng.randrange(n), "stale": False, "sv": "dec", "all_derived": rng.random() < 0.4, "ncat": rng.randint(4, 5)}


# ---------------------------------------------------------------------------------------


def generate(ctx):
    cases = []
    cases.append({"t": "pyint", "strs": PYINT_PROBE + [m for m in MALFORMED if m is not None] + POOL,
                  "ints": [0, 1, -1, 10, -10, 123456789012345678901234567890, -99]})
    for u in universe():
        fam, kind, n, idpat, anchors, sv, al, derived = u[:8]
        cases.append({"t": "shim", "fam": fam, "kind": kind, "n": n, "idpat": idpat,
                      "anchors": list(anchors) if anchors else None, "sv": sv, "al": al,
                      "derived": list(derived) if derived else None, "noid": u[8] if len(u) > 8 else None})
    ctx.count("exhaustive_done")
    ctx.count("universe_dims", len(cases) - 1)
    for _ in range(ctx.n(150, 6000)):
        kind, dim = random_dim(ctx.rng)
        cases.append({"t": "shim", "fam": "C", "kind": kind, "dim": dim})
    cases += dt_cases(ctx.rng, ctx.n(120, 3000))
    for _ in range(ctx.n(110, 2500)):
        cases.append(api_case(ctx.rng))
    for _ in range(ctx.n(80, 800)):
        cases.append(api_case_mrins(ctx.rng))
    for _ in range(ctx.n(16, 200)):       # numeric arrays (sub-variable ids in non-ascending payload order)
        cases.append(dict(api_case(ctx.rng), layout="numarr_x_cat"))
    from props import shim_api
    for _ in range(ctx.n(40, 600)):
        cases.append(shim_api.keys_case(ctx.rng))
    return cases


def case_dim(case):
    if "dim" in case:
        return case["dim"]
    return mk_dim(case["n"], case["kind"], case["idpat"], case["anchors"], case["sv"], case["al"], case["derived"],
                  case.get("noid"))


def case_xfs(case, dim):
    n = len(dim["items"])
    xfs = []
    if case.get("fam") == "C":
        for cls in CLASSES:
            xfs.append(xf_for(dim, cls, 0))
        xfs += extra_xfs(dim)[:2]
        return xfs
    rots = range(n) if case.get("fam") == "A" else (0, n - 1)
    for cls in CLASSES:
        for r in rots:
            xfs.append(xf_for(dim, cls, r))
    xfs += extra_xfs(dim)
    return xfs


def lean_ops(case):
    if case["t"] == "pyint":
        return [{"op": "py_int", "strs": case["strs"], "ints": case["ints"]}]
    if case["t"] == "shim":
        dim = case_dim(case)
        ops = [{"op": "translate", "dim": dim, "refs": refs_for(dim)}]
        for xf in case_xfs(case, dim):
            ops.append({"op": "shim_transforms", "dim": dim, "xf": xf})
        return ops
    if case["t"] == "dt":
        return [{"op": "translate_dt", "dim": case["dim"], "refs": case["refs"]},
                {"op": "shim_dt", "dim": case["dim"], "xf": case["xf"]}]
    if case["t"] == "keys":
        return []
    if case["t"] == "api":
        from props import shim_api
        return shim_api.lean_ops(case)
    raise common.HarnessFault("unknown case type %r" % case.get("t"))


def F(kind, locus, detail):
    return {"kind": kind, "locus": locus, "detail": detail[:900]}


def evaluate(case, louts, ctx):
    t = case["t"]
    ctx.count("cases:" + t)
    try:
        if t == "pyint":
            return eval_pyint(case, louts, ctx)
        if t == "shim":
            return eval_shim(case, louts, ctx)
        if t == "dt":
            return eval_dt(case, louts, ctx)
        from props import shim_api
        if t == "keys":
            return shim_api.eval_keys(case, ctx)
        return shim_api.evaluate(case, louts, ctx)
    except common.HarnessFault:
        raise
    except Exception as e:  # noqa
        # an exception escaping from LIBRARY code at a place where the harness expects none is a finding about
        # the library (e.g. a broken cache), not a harness fault
        import traceback
        tb = traceback.extract_tb(e.__traceback__)
        lib = [fr for fr in tb if "/cr/cube/" in fr.filename]
        if not lib:
            raise
        return [{"kind": "spec", "locus": "%s.library-raises" % case["t"],
                 "detail": "%s: %s at %s:%d (%s)" % (type(e).__name__, e, lib[-1].filename.split("/cr/cube/")[-1],
                                                    lib[-1].lineno, lib[-1].name)}], None


def eval_pyint(case, louts, ctx):
    out = louts[0]
    for s, m, isn in zip(case["strs"], out["int"], out["isnumeric"]):
        try:
            py = int(s)
        except ValueError:
            py = None
        if py != m:
            raise common.HarnessFault("Lean pyInt(%r)=%r but Python int gives %r" % (s, m, py))
        if s.isnumeric() != isn:
            raise common.HarnessFault("Lean isNumeric(%r)=%r but Python gives %r" % (s, isn, s.isnumeric()))
    for n, m in zip(case["ints"], out["str"]):
        if str(n) != m:
            raise common.HarnessFault("Lean decStr(%r)=%r" % (n, m))
    return [], None


def eval_shim(case, louts, ctx):
    from cr.cube.dimension import Dimension, _ElementIdShim
    findings = []
    dim = case_dim(case)
    kind = case["kind"]
    dtype = sc.dim_type_of(kind)
    aliases = [it["alias"] for it in dim["items"]]
    refs = refs_for(dim)
    tout = louts[0]
    nocoll = tout["nocollision"]
    ctx.count("fam:%s" % case.get("fam"))
    ctx.count("nocollision:%s" % nocoll)
    nontrivial = False
    # ---- translate ----------------------------------------------------------------------
    dd = sc.real_dim_dict(dim, kind)
    d_obj = Dimension(dd, dtype)
    for r, m, s in zip(refs, tout["model"], tout["spec"]):
        val, exc = sc.exc_name(lambda: d_obj.translate_element_id(r))
        impl = {"raises": exc} if exc else val
        if isinstance(s, dict):
            want = aliases[s["item"]]
            if impl != want:
                findings.append(F("spec", "translate.spelling" if not exc else "translate.spelling-raises",
                                  "dim=%s kind=%s ref=%r denotes item %d (%r) but library gives %r" %
                                  (json.dumps(dim), kind, r, s["item"], want, impl)))
            if r != want:
                nontrivial = True
        elif s == "nothing":
            if exc:
                findings.append(F("spec", "ref.null-raises" if r is None else "translate.unmatched-raises",
                                  "dim=%s kind=%s ref=%r matches nothing but library raises %s" %
                                  (json.dumps(dim), kind, r, exc)))
            elif impl is not None:
                findings.append(F("spec", "translate.unmatched-resolves",
                                  "dim=%s kind=%s ref=%r matches nothing but library gives %r" %
                                  (json.dumps(dim), kind, r, impl)))
        else:
            ctx.count("translate:" + s)
        if impl != m and not (exc and s == "nothing"):
            findings.append(F("model", "seam.translate", "dim=%s kind=%s ref=%r impl=%r model=%r" %
                              (json.dumps(dim), kind, r, impl, m)))
    # ---- transforms -------------------------------------------------------------------------
    for xf, lo in zip(case_xfs(case, dim), louts[1:]):
        findings += shim_one(dim, kind, dtype, xf, lo, ctx)
        if len(findings) > 6:
            break
    key = None
    if nontrivial:
        key = (case.get("fam"), kind, json.dumps(dim, sort_keys=True))
    return findings, key


def shim_one(dim, kind, dtype, xf, lo, ctx):
    from cr.cube.dimension import _ElementIdShim
    findings = []
    dd = sc.real_dim_dict(dim, kind)
    t = sc.real_xf(xf)
    ctxs = "dim=%s kind=%s xf=%s" % (json.dumps(dim), kind, json.dumps(xf))
    has_null = any(r is None for lst in (xf.get("order_ids"), xf.get("top"), xf.get("bottom")) if lst for r in lst) \
        or any(k is None for k, _ in (xf["elements"]["entries"] if xf.get("elements") else []))
    # first pass
    _, exc = sc.exc_name(lambda: _ElementIdShim(dtype, dd, t).shimmed_dimension_transforms_dict)
    if exc:
        findings.append(F("spec", "ref.null-raises" if has_null else "shim.first-pass-raises",
                          "%s: shimming raises %s" % (ctxs, exc)))
        return findings
    bad = sc.non_json_path(t)
    if bad:
        findings.append(F("spec", "shim.non-list-value", "%s: the shim wrote a value that is not plain data into the "
                          "caller's dict: %s (a one-shot iterator is empty for every reader but the first)" % (ctxs, bad)))
        return findings
    got1 = sc.model_xf(t)
    want1 = sc.norm_model_xf(lo["xf1"])
    if got1 != want1:
        findings.append(F("model", "seam.shim_transforms", "%s: dict after shim %s, model %s" %
                          (ctxs, json.dumps(got1), json.dumps(want1))))
    snapshot = copy.deepcopy(t)
    dd_snapshot = copy.deepcopy(dd)
    # second pass: a NEW shim object over the SAME (already rewritten) dicts
    _, exc = sc.exc_name(lambda: _ElementIdShim(dtype, dd, t).shimmed_dimension_transforms_dict)
    if exc:
        findings.append(F("spec", "shim.reshim-raises",
                          "%s: a second shim over the rewritten dict %s raises %s (an unmatched reference must be "
                          "ignored, not raise)" % (ctxs, json.dumps(got1), exc)))
        return findings
    if t != snapshot:
        findings.append(F("spec", "shim.not-idempotent", "%s: second shim changed the dict %s -> %s" %
                          (ctxs, json.dumps(sc.model_xf(snapshot)), json.dumps(sc.model_xf(t)))))
    if sc.model_xf(t) != sc.norm_model_xf(lo["xf2"]):
        findings.append(F("model", "seam.shim_transforms.second", "%s: after 2nd shim %s, model %s" %
                          (ctxs, json.dumps(sc.model_xf(t)), json.dumps(lo["xf2"]))))
    # consumers (third and fourth Dimension over the same dicts)
    iv, exc = sc.exc_name(lambda: sc.impl_view(dd, dtype, t))
    if exc:
        opp_null = xf.get("opposing") is not None and xf["opposing"]["ref"] is None
        findings.append(F("spec", "ref.null-raises" if opp_null else "slot.consumer-raises",
                          "%s: analysis raises %s" % (ctxs, exc)))
        return findings
    sa = [e.get("subvar_alias") for e in dd["type"]["elements"]]
    if sa != [it["subvar_alias"] for it in lo["dim1"]["items"]]:
        findings.append(F("model", "seam.shim_dimension", "%s: subvar_alias %r model %r" % (ctxs, sa, lo["dim1"])))
    dd_snapshot, t_snapshot = copy.deepcopy(dd), copy.deepcopy(t)
    iv2, exc = sc.exc_name(lambda: sc.impl_view(dd, dtype, t))
    if exc or iv2 != iv:
        findings.append(F("spec", "shim.view-changes-on-reuse", "%s: second look %r (%s) vs first %r" % (ctxs, iv2, exc, iv)))
    if dd != dd_snapshot or t != t_snapshot:
        findings.append(F("spec", "shim.not-idempotent", "%s: dicts changed on a further look" % ctxs))
    mv = sc.model_view_cmp(lo["view"])
    ic = sc.impl_view_cmp(iv)
    for k in mv:
        if mv[k] != ic[k]:
            findings.append(F("model", "seam.view.%s" % k, "%s: impl %r model %r" % (ctxs, ic[k], mv[k])))
    # spec view (what the statement determines)
    sp = lo["spec"]
    if sp["xforms"] is not None:
        want = [{"hide": True if x["hide"] is True else None, "name": x["name"]} for x in sp["xforms"]]
        if want != ic["xforms"]:
            findings.append(F("spec", "slot.hide-rename", "%s: element transforms %r, statement gives %r" %
                              (ctxs, ic["xforms"], want)))
    else:
        ctx.count("spec-open:xforms")
    for name, locus in (("order", "slot.explicit-order"), ("top", "slot.fixed-top"), ("bottom", "slot.fixed-bottom")):
        if sp[name] is None:
            ctx.count("spec-open:" + name)
        elif sp[name] != ic[name]:
            findings.append(F("spec", locus, "%s: %s idxs %r, statement gives %r" % (ctxs, name, ic[name], sp[name])))
    if sp["opposing"] == "open":
        ctx.count("spec-open:opposing")
    elif sp["opposing"] != ic["opposing"]:
        findings.append(F("spec", "slot.opposing-element", "%s: opposing idx %r, statement gives %r" %
                          (ctxs, ic["opposing"], sp["opposing"])))
    return findings


def eval_dt(case, louts, ctx):
    from cr.cube.dimension import Dimension, _ElementIdShim
    from cr.cube.enums import DIMENSION_TYPE as DT
    findings = []
    dim = case["dim"]
    dd = real_dt_dim(dim)
    tout, sout = louts
    ctx.count("dt-nocollision:%s" % tout["nocollision"])
    d_obj = Dimension(dd, DT.DATETIME)
    ctxs = "dtdim=%s" % json.dumps(dim)
    nontrivial = False
    missing_ids = [it["id"] for it in dim["items"] if it["value"] is None]
    for r, m, s in zip(case["refs"], tout["model"], tout["spec"]):
        val, exc = sc.exc_name(lambda: d_obj.translate_element_id(r))
        impl = {"raises": exc} if exc else sc.canon_ref(val) if not isinstance(val, dict) else {"object": True}
        if isinstance(impl, dict) and impl.get("object"):
            findings.append(F("spec", "datetime.missing-element-ref",
                              "%s ref=%r (position id of a MISSING element) translates to the element's value object "
                              "%r, which is unhashable: using it as a key / in an id list raises TypeError" % (ctxs, r, val)))
            continue
        if tout["nocollision"] and len(s) == 1:
            want = dim["items"][s[0]]["value"]
            if impl != want:
                findings.append(F("spec", "datetime.position-or-value", "%s ref=%r denotes element %d (%r), library gives %r" %
                                  (ctxs, r, s[0], want, impl)))
            if r != want:
                nontrivial = True
        elif len(s) == 0 and exc:
            findings.append(F("spec", "datetime.unmatched-raises", "%s ref=%r raises %s" % (ctxs, r, exc)))
        if impl != m:
            findings.append(F("model", "seam.translate_dt", "%s ref=%r impl=%r model=%r" % (ctxs, r, impl, m)))
    # transforms dict
    xf = case["xf"]
    t = sc.real_xf(xf)
    uses_missing = False

    def _refs():
        for lst in (xf.get("order_ids"), xf.get("top"), xf.get("bottom")):
            for r in lst or []:
                yield r
        for k, _ in xf["elements"]["entries"]:
            yield k
    for r in _refs():
        if r in missing_ids or (isinstance(r, str) and r.isnumeric() and int(r) in missing_ids):
            uses_missing = True
    _, exc = sc.exc_name(lambda: _ElementIdShim(DT.DATETIME, dd, t).shimmed_dimension_transforms_dict)
    if exc:
        findings.append(F("spec", "datetime.missing-element-ref" if uses_missing else "datetime.shim-raises",
                          "%s xf=%s: shimming raises %s" % (ctxs, json.dumps(xf), exc)))
        return findings, None
    bad = sc.non_json_path(t)
    if bad:
        findings.append(F("spec", "shim.non-list-value", "%s xf=%s: the shim wrote a value that is not plain data: %s" %
                          (ctxs, json.dumps(xf), bad)))
        return findings, None
    got1 = sc.model_xf(t)
    if got1 != sc.norm_model_xf(sout["xf1"]):
        findings.append(F("model", "seam.shim_dt", "%s xf=%s: dict after shim %s, model %s" %
                          (ctxs, json.dumps(xf), json.dumps(got1), json.dumps(sout["xf1"]))))
    snap = copy.deepcopy(t)
    _, exc = sc.exc_name(lambda: _ElementIdShim(DT.DATETIME, dd, t).shimmed_dimension_transforms_dict)
    if exc:
        findings.append(F("spec", "datetime.missing-element-ref" if uses_missing else "datetime.reshim-raises",
                          "%s xf=%s: second shim raises %s" % (ctxs, json.dumps(xf), exc)))
    elif t != snap and tout["nocollision"]:
        findings.append(F("spec", "datetime.not-idempotent", "%s xf=%s: %s -> %s" %
                          (ctxs, json.dumps(xf), json.dumps(sc.model_xf(snap)), json.dumps(sc.model_xf(t)))))
    elif sc.model_xf(t) != sc.norm_model_xf(sout["xf2"]):
        findings.append(F("model", "seam.shim_dt.second", "%s xf=%s: %s model %s" %
                          (ctxs, json.dumps(xf), json.dumps(sc.model_xf(t)), json.dumps(sout["xf2"]))))
    eids, exc = sc.exc_name(lambda: [sc.canon_ref(e) for e in Dimension(dd, DT.DATETIME, {}).all_elements.element_ids])
    if eids != sout["element_ids"]:
        findings.append(F("model", "seam.dt_element_ids", "%s: %r vs model %r" % (ctxs, eids, sout["element_ids"])))
    key = ("dt", case["style"], case["spell"], len(dim["items"]), tuple(missing_ids)) if nontrivial else None
    return findings, key


def describe(case):
    if case["t"] == "shim":
        return {"t": "shim", "kind": case["kind"], "dim": case_dim(case)}
    return {k: v for k, v in case.items() if k in ("t", "layout", "n", "idpat", "slot", "k", "style", "spell", "dim")}


def shrink_candidates(case):
    if case["t"] == "shim" and "dim" in case and len(case["dim"]["items"]) > 1:
        items = case["dim"]["items"]
        for i in range(len(items)):
            d = dict(case["dim"], items=items[:i] + items[i + 1:])
            yield dict(case, dim=d)
    if case["t"] == "api":
        if case["n"] > 2:
            yield dict(case, n=case["n"] - 1, k=case["k"] % (case["n"] - 1))
        if case.get("stale"):
            yield dict(case, stale=False)
