"""C17 extension — which display positions are blanked (subtotal DIFFERENCES) must not depend on how insertions are
IDENTIFIED, listed or placed.

The base module generates insertions without an "id" and in the plain layout only. Here the same population
seams (`population_counts`, `population_counts_moe`, `population_proportions`, `population_fraction`,
linearity, `_Slice` and `_Strand`) are driven over the family

  ids       : none | all distinct (any ints, may equal element ids) | reversed (n..1) | explicit duplicates |
              MIXED explicit and id-less, the explicit ones drawn from 1..n so that they collide with the
              number the library gives the id-less ones (transform insertions: position in the list + 1;
              view insertions: rank in display position) -> two insertions of one dimension share an id,
              one a plain subtotal, the other a difference
  listing   : entries the library skips (non-dict, other function, hide: true, no name, only stale / missing
              arguments) interleaved with the valid ones, so that "k-th listed" != "k-th subtotal"
  placement : insertions on the transforms, on the variable's view, or on both (the transforms win — also an
              EMPTY transforms list, which removes every view insertion and with it every NaN)
  display   : anchors top / bottom / element id / stale id; optional explicit element order; optional hidden
              elements (the display positions of the insertions shift, the blanked positions must follow)

The expected blanked positions are computed here from the raw insertion dicts alone (a subtotal that subtracts
at least one valid category), never from the library; the Lean Spec / Model ops are those of the base module.
Extra seam: `_Slice.diff_row_idxs / diff_column_idxs`, `_Strand.diff_row_idxs` against the same positions
(model kind) and against the Lean model `Pipeline.flagPositions` on the positional flag list.
"""
from fractions import Fraction
import copy
import math

import gen
import common
from props import c17 as base

PROPERTY = "C17"
LEAN_MODULE = "CrCube.Props.C17_DiffIdxs"
THEOREMS = [
    "CrCube.C17.diffIdxs_mem",
    "CrCube.C17.diffIdxs_base_not_mem",
    "CrCube.C17.diffIdxs_by_id_eq_of_nodup",
    "CrCube.C17.diffIdxs_by_id_counterexample",
    "CrCube.C17.slice_blank_iff_difference",
]
RULE = ("insertion identity: slices / strands whose subtotal-capable dimensions carry 2-4 insertions (>= 1 plain and >= 1 "
        "difference whenever the dimension allows) x id style {none, distinct, reversed, duplicate, mixed-colliding} x skipped "
        "entries interleaved x placement {transforms, view, both, both-with-empty-transforms} x anchors {top, bottom, id, "
        "stale} x explicit order x hidden elements; non-trivial = a dimension with a difference AND a plain subtotal that "
        "shows >= 1 positive finite estimate; distinct = (seam, mode, id style, placement, shares-id, order, hidden) key")
ASSUMPTIONS = [
    "insertion ids are ints; two insertions of one dimension may carry the same id (the library itself numbers id-less "
    "transform insertions by list position, which collides with explicit ids)",
    "display order is cross-checked against the library's own (C05-C08's business): disagreement is a model-kind finding",
]
EXHAUSTIVE = False

Z = base.Z
ID_STYLES = ["mixed", "mixed", "mixed", "dup", "distinct", "reversed", "none"]
PLACEMENTS = ["transforms", "transforms", "transforms", "view", "view", "both", "both-empty"]


# ---------------------------------------------------------------------------------------
# generation


def _valid_ids(v):
    return [c["id"] for c in v.cats if not c["missing"]]


def _dead_ids(v):
    return [c["id"] for c in v.cats if c["missing"]] + [max(c["id"] for c in v.cats) + 7, 9999]


def _one_insertion(rng, v, k, want_diff):
    ids = _valid_ids(v)
    dead = _dead_ids(v)
    if want_diff:
        neg = rng.sample(ids, rng.randint(1, min(2, len(ids))))
        rest = [i for i in ids if i not in neg]
        style = rng.random()
        if not rest or style < 0.2:
            pos = []                                              # negative-only
        elif style < 0.3:
            pos = rng.sample(dead, 1)                             # positive side all stale
        else:
            pos = rng.sample(rest, rng.randint(1, min(2, len(rest))))
        if rng.random() < 0.2:
            neg = neg + rng.sample(dead, 1)
    else:
        pos = rng.sample(ids, rng.randint(1, min(3, len(ids))))
        neg = rng.sample(dead, 1) if rng.random() < 0.2 else []  # negative side all stale: a plain subtotal
        if rng.random() < 0.2:
            pos = pos + rng.sample(dead, 1)
    anchor = rng.choice(["top", "bottom", "bottom"] + ids + [dead[-1]])
    kwargs = {}
    if neg:
        kwargs["negative"] = neg
    if pos and rng.random() < 0.3:
        kwargs["positive"] = list(pos)
    d = {"function": "subtotal", "name": "S%d" % k, "anchor": anchor, "args": list(pos)}
    if kwargs or rng.random() < 0.5:
        d["kwargs"] = kwargs
    return d


def _skipped_entry(rng, v):
    dead = _dead_ids(v)
    ids = _valid_ids(v)
    return copy.deepcopy(rng.choice([
        "not-a-dict",
        {"function": "other", "name": "X", "anchor": "top", "args": ids[:1], "kwargs": {"negative": ids[:1]}},
        {"function": "subtotal", "name": "H", "anchor": "top", "args": ids[:1], "kwargs": {"negative": ids[-1:]}, "hide": True},
        {"function": "subtotal", "anchor": "bottom", "args": ids[:1], "kwargs": {"negative": ids[-1:]}},          # no name
        {"function": "subtotal", "name": "D", "anchor": "top", "args": dead[:1], "kwargs": {"negative": dead[-1:]}},  # stale only
        {"function": "subtotal", "name": "E", "anchor": "top", "args": [], "kwargs": {}},                             # no terms
    ]))


def _assign_ids(rng, valid_entries, style):
    n = len(valid_entries)
    if style == "none" or n == 0:
        return
    if style == "distinct":
        pool = rng.sample(range(1, 12), n)
        for e, i in zip(valid_entries, pool):
            e["id"] = i
    elif style == "reversed":
        for k, e in enumerate(valid_entries):
            e["id"] = n - k
    elif style == "dup":
        pool = [rng.randint(1, max(1, n - 1)) for _ in range(n)]
        pool[rng.randrange(n)] = pool[(rng.randrange(n))]
        if len(set(pool)) == n:
            pool[-1] = pool[0]
        for e, i in zip(valid_entries, pool):
            e["id"] = i
    else:  # mixed: at least one with, at least one without (when n >= 2); explicit ids from 1..n
        with_id = [rng.random() < 0.5 for _ in range(n)]
        if n >= 2:
            if all(with_id):
                with_id[rng.randrange(n)] = False
            if not any(with_id):
                with_id[rng.randrange(n)] = True
        for e, w in zip(valid_entries, with_id):
            if w:
                e["id"] = rng.randint(1, n)


def gen_insertions(rng, v, style):
    """raw insertion list of one dimension: valid entries (>= 1 plain and >= 1 difference) with skipped ones between"""
    n = rng.choice([2, 2, 3, 3, 4])
    kinds = [rng.random() < 0.5 for _ in range(n)]
    if all(kinds):
        kinds[rng.randrange(n)] = False
    if not any(kinds):
        kinds[rng.randrange(n)] = True
    valid = [_one_insertion(rng, v, k, d) for k, d in enumerate(kinds)]
    _assign_ids(rng, valid, style)
    out = []
    for e in valid:
        while rng.random() < 0.25:
            out.append(_skipped_entry(rng, v))
        out.append(e)
    if rng.random() < 0.2:
        out.append(_skipped_entry(rng, v))
    return out


def gen_dim_cfg(rng, v):
    """per dimension: {"placement", "style", "tr": list | None, "view": list | None, "order": ids | None, "hidden": ids}"""
    cfg = {"placement": "none", "style": "none", "tr": None, "view": None, "order": None, "hidden": []}
    if v.kind not in ("cat", "cat_date"):
        return cfg
    ids = _valid_ids(v)
    if rng.random() < 0.85:
        cfg["placement"] = rng.choice(PLACEMENTS)
        cfg["style"] = rng.choice(ID_STYLES)
        main = gen_insertions(rng, v, cfg["style"])
        if cfg["placement"] == "transforms":
            cfg["tr"] = main
        elif cfg["placement"] == "view":
            cfg["view"] = main
        elif cfg["placement"] == "both":
            cfg["tr"] = main
            cfg["view"] = gen_insertions(rng, v, rng.choice(ID_STYLES))
        else:
            cfg["tr"] = []
            cfg["view"] = main
    if rng.random() < 0.3:
        o = rng.sample(ids, rng.randint(1, len(ids)))
        if rng.random() < 0.3:
            o = o + [o[0], 9999]
        cfg["order"] = o
    if len(ids) >= 2 and rng.random() < 0.3:
        cfg["hidden"] = rng.sample(ids, rng.randint(1, len(ids) - 1))
    return cfg


def gen_case(rng, strand):
    sub_kinds = ["cat", "cat", "cat_date"]
    if strand:
        kinds = [rng.choice(sub_kinds)]
    else:
        a, b = rng.choice(sub_kinds), rng.choice(base.KINDS2)
        kinds = [a, b] if rng.random() < 0.5 else [b, a]
        if rng.random() < 0.12:
            kinds = ["cat"] + kinds
    vars_ = [gen.gen_var(rng, k, "v%d" % i, n=rng.choice([2, 3, 3, 4, 5])) for i, k in enumerate(kinds)]
    cfgs = [gen_dim_cfg(rng, v) for v in (vars_ if strand else vars_[-2:])]
    for v, cfg in zip(vars_ if strand else vars_[-2:], cfgs):
        if cfg["view"] is not None:
            v.view_insertions = copy.deepcopy(cfg["view"])
    weighted = rng.random() < 0.6
    survey = gen.gen_survey(rng, vars_, weighted=weighted, n_resp=rng.randint(6, 50))
    return {"t": "strand" if strand else "slice", "vars": [v.to_json() for v in vars_],
            "survey": gen.survey_to_json(survey), "weighted": weighted, "cfg": cfgs,
            "population": rng.choice([p for p in base.POPULATIONS if p]), "k": rng.choice([2, 3, 0.5, 10]),
            "extras": base.random_extras(rng) if rng.random() < 0.6 else {}, "form": rng.choice(base.FORMS)}


def generate(ctx):
    rng = ctx.rng
    cases = []
    for _ in range(ctx.n(150, 4000)):
        cases.append(gen_case(rng, strand=False))
    for _ in range(ctx.n(60, 1500)):
        cases.append(gen_case(rng, strand=True))
    return cases


# ---------------------------------------------------------------------------------------
# reading a raw insertion list the way the property (and `_Subtotals._iter_valid_subtotal_dicts`) does


def effective(v, cfg):
    """[{add: valid positions, diff: bool, anchor: 'top' | 'bottom' | valid id, id: explicit id | None}] of the
    insertions that apply: the transforms' list when there is one (even an empty one), else the view's"""
    raw = cfg["tr"] if cfg["tr"] is not None else (cfg["view"] or [])
    ids = _valid_ids(v)
    id2pos = {c["id"]: p for p, c in enumerate(v.cats) if not c["missing"]}
    out = []
    for d in raw:
        if not isinstance(d, dict) or d.get("function") != "subtotal" or d.get("hide") is True:
            continue
        if "anchor" not in d or "name" not in d:
            continue
        positive = d.get("kwargs", {}).get("positive") or d.get("args", [])
        negative = d.get("kwargs", {}).get("negative", [])
        if not any(i in id2pos for i in list(positive) + list(negative)):
            continue
        a = d["anchor"]
        anchor = a if a in ("top", "bottom") else (a if a in ids else "bottom")
        out.append({"add": [id2pos[i] for i in positive if i in id2pos],
                    "diff": any(i in id2pos for i in negative), "anchor": anchor, "id": d.get("id")})
    return out


def predicted_order(v, cfg, eff):
    if v.kind == "mr":
        return list(range(len(v.items)))
    ids = _valid_ids(v)
    seq, seen = [], set()
    for i in cfg["order"] or []:
        if i in ids and i not in seen:
            seq.append(ids.index(i))
            seen.add(i)
    seq += [e for e in range(len(ids)) if ids[e] not in seen]
    ns = len(eff)
    out = [k - ns for k, s in enumerate(eff) if s["anchor"] == "top"]
    for e in seq:
        if ids[e] not in cfg["hidden"]:
            out.append(e)
        out.extend(k - ns for k, s in enumerate(eff) if s["anchor"] not in ("top", "bottom") and s["anchor"] == ids[e])
    out.extend(k - ns for k, s in enumerate(eff) if s["anchor"] == "bottom")
    return out


def display_lines(v, eff, order):
    b = base.base_lines(v)
    valid = v.valid_cat_pos
    ns = len(eff)
    lines, diffs = [], []
    for pos, idx in enumerate(order):
        if idx >= 0:
            lines.append(b[idx])
        else:
            s = eff[ns + idx]
            lines.append({"cat": {"members": s["add"], "valid": valid}})
            if s["diff"]:
                diffs.append(pos)
    return lines, diffs


def _dim_transform(cfg):
    t = {}
    if cfg["tr"] is not None:
        t["insertions"] = copy.deepcopy(cfg["tr"])
    if cfg["order"] is not None:
        t["order"] = {"type": "explicit", "element_ids": list(cfg["order"])}
    if cfg["hidden"]:
        t["elements"] = {str(i): {"hide": True} for i in cfg["hidden"]}
    return t


def transforms(case):
    names = ["rows_dimension"] if case["t"] == "strand" else ["rows_dimension", "columns_dimension"]
    tr = {}
    for nm, cfg in zip(names, case["cfg"]):
        t = _dim_transform(cfg)
        if t:
            tr[nm] = t
    return tr


def _flags_op(v, eff, order):
    n = len(v.items) if v.kind == "mr" else len(v.valid_cat_pos)
    return {"op": "c17_diff_idxs", "n_valid": n, "flags": [bool(s["diff"]) for s in eff], "order": list(order),
            "ids": [s["id"] if s["id"] is not None else -1 for s in eff]}


def lean_ops(case):
    vars_, survey = base._load(case)
    ops = [{"op": "pop_fraction", "results": [case["extras"]]}]
    fr = base._frac_wire(base.py_fraction(case["extras"]))
    pop = gen.frac_str(Fraction(case["population"]))
    if case["t"] == "strand":
        v = vars_[0]
        eff = effective(v, case["cfg"][0])
        order = predicted_order(v, case["cfg"][0], eff)
        lines, diffs = display_lines(v, eff, order)
        ops.append({"op": "pop_strand", "survey": base._lean_survey(survey, case["weighted"]), "row_lines": lines,
                    "rows_cat_date": v.kind == "cat_date", "diff_rows": diffs, "population": pop, "fraction": fr})
        ops.append(_flags_op(v, eff, order))
        return ops
    rv, cv = vars_[-2:]
    reff, ceff = effective(rv, case["cfg"][0]), effective(cv, case["cfg"][1])
    ro, co = predicted_order(rv, case["cfg"][0], reff), predicted_order(cv, case["cfg"][1], ceff)
    rl, rd = display_lines(rv, reff, ro)
    cl, cd = display_lines(cv, ceff, co)
    for k in range(base._nparts(vars_)):
        vs, sv = base._restrict(vars_, survey, k)
        ops.append({"op": "pop_slice", "survey": base._lean_survey(sv, case["weighted"]), "rv": 0, "cv": 1,
                    "row_lines": rl, "col_lines": cl, "rows_cat_date": rv.kind == "cat_date",
                    "cols_cat_date": cv.kind == "cat_date", "diff_rows": rd, "diff_cols": cd,
                    "population": pop, "fraction": fr})
    ops.append(_flags_op(rv, reff, ro))
    ops.append(_flags_op(cv, ceff, co))
    return ops


# ---------------------------------------------------------------------------------------
# evaluation


def _shares_id(v, cfg, eff):
    """does a difference share its (explicit or library-given) id with a plain subtotal?  The library's numbering
    of id-less insertions is reproduced only for this COUNTER / key, never for a verdict."""
    if not eff:
        return False
    given = [s["id"] for s in eff]
    if any(i is None for i in given):
        if cfg["tr"] is not None:
            given = [i if i is not None else k + 1 for k, i in enumerate(given)]
        else:
            return None      # view numbering: by display rank; not reproduced
    d = {i for i, s in zip(given, eff) if s["diff"]}
    p = {i for i, s in zip(given, eff) if not s["diff"]}
    return bool(d & p)


def _style_tag(cfg):
    return "%s/%s" % (cfg["placement"], cfg["style"])


def eval_case(case, louts, ctx):
    import numpy as np
    from cr.cube.cube import Cube
    vars_, survey = base._load(case)
    strand = case["t"] == "strand"
    findings = []
    extras, pop = case["extras"], case["population"]
    resp = gen.cube_response(vars_, survey, case["weighted"])
    for k, val in extras.items():
        resp["result"][k] = copy.deepcopy(val)
    tr = transforms(case)
    form = case.get("form", "dict")
    cube = Cube(base.as_form(resp, form), transforms=copy.deepcopy(tr), population=pop)
    frac = common.model_to_float(base._frac_wire(base.py_fraction(extras)))
    spec_frac = common.model_to_float(louts[0]["per"][0]["spec"])
    if not base._same(frac, spec_frac):
        raise common.HarnessFault("python fraction %r != Lean spec %r on %r" % (frac, spec_frac, extras))
    cls = base.shape_class(extras).split("|")[0]
    nparts = 1 if strand else base._nparts(vars_)
    parts = cube.partitions
    if len(parts) != nparts:
        raise common.HarnessFault("partition count %d != %d" % (len(parts), nparts))
    cube2 = Cube(base.as_form(copy.deepcopy(resp), form), transforms=copy.deepcopy(tr), population=pop * case["k"])
    dvars = vars_ if strand else vars_[-2:]
    effs = [effective(v, c) for v, c in zip(dvars, case["cfg"])]
    orders = [predicted_order(v, c, e) for v, c, e in zip(dvars, case["cfg"], effs)]
    dl = [display_lines(v, e, o) for v, e, o in zip(dvars, effs, orders)]
    # the Lean model of the positional flag list must give the positions computed here
    for d in range(len(dvars)):
        lm = louts[1 + nparts + d]
        if list(lm["positions"]) != dl[d][1]:
            raise common.HarnessFault("Lean flagPositions %r != python %r" % (lm["positions"], dl[d][1]))
    shares = [_shares_id(v, c, e) for v, c, e in zip(dvars, case["cfg"], effs)]
    for c, e, s in zip(case["cfg"], effs, shares):
        if e:
            ctx.count("insids:%s%s" % (_style_tag(c), ":shared-id" if s else ""))
    mixed_dim = any(any(s["diff"] for s in e) and any(not s["diff"] for s in e) for e in effs)
    key = None
    for k in range(nparts):
        part = parts[k]
        out = louts[1 + k]
        impl_frac = common.call_impl(lambda: part.population_fraction)
        if not base._same(impl_frac, frac):
            findings.append({"kind": "spec", "locus": "insids.population_fraction." + cls,
                             "detail": "partition fraction %r != spec %r on %r" % (impl_frac, frac, extras)})
        if strand:
            v = vars_[0]
            mode = "catdate" if v.kind == "cat_date" else "table"
            order = common.call_impl(lambda: list(part.row_order()))
            if order != orders[0]:
                findings.append({"kind": "model", "locus": "seam.insids.display-order",
                                 "detail": "row order %r != predicted %r (cfg %r)" % (order, orders[0], case["cfg"][0])})
                continue
            diffs = dl[0][1]
            tag = "insids.strand.%s" % mode
            note = "ids=%s pop=%r frac=%r diff-rows=%r" % (_style_tag(case["cfg"][0]), pop, frac, diffs)
            impl_d = common.call_impl(lambda: [int(i) for i in part.diff_row_idxs])
            if impl_d != diffs:
                findings.append({"kind": "model", "locus": "seam.insids.strand.diff_row_idxs",
                                 "detail": "%r != %r (%s)" % (impl_d, diffs, note)})
            impl_c = common.call_impl(lambda: part.population_counts)
            impl_m = common.call_impl(lambda: part.population_counts_moe)
            base._cmp(findings, "spec", tag + ".population_counts" + (".diff" if diffs else ""), impl_c,
                      common.model_to_float(out["spec"]["counts"]), note)
            base._cmp(findings, "model", "seam." + tag + ".population_counts", impl_c,
                      common.model_to_float(out["model"]["counts"]), note)
            im = [None if i in diffs else x for i, x in enumerate(impl_m)] if isinstance(impl_m, list) else impl_m
            base._cmp(findings, "spec", tag + ".population_counts_moe", im, common.model_to_float(out["spec"]["moe"]), note)
            own_se = common.call_impl(lambda: part.table_proportion_stderrs)
            if isinstance(own_se, list) and isinstance(impl_m, list):
                want = [Z * pop * frac * (0.0 if mode == "catdate" else s) for s in own_se]
                base._cmp(findings, "spec", tag + ".population_counts_moe.matching-stderr", impl_m, want, note)
            impl_c2 = common.call_impl(lambda: cube2.partitions[k].population_counts)
            if isinstance(impl_c, list):
                base._cmp(findings, "spec", tag + ".population_counts.linearity", impl_c2,
                          [case["k"] * x for x in impl_c], "k=%r" % case["k"])
            if mixed_dim and isinstance(impl_c, list) and base._distinct_pos(impl_c) >= 1:
                c = case["cfg"][0]
                key = ("strand", mode, _style_tag(c), bool(shares[0]), c["order"] is not None, bool(c["hidden"]))
            continue
        rv, cv = dvars
        rcd, ccd = rv.kind == "cat_date", cv.kind == "cat_date"
        mode = "both-catdate" if (rcd and ccd) else ("catdate-rows" if rcd else ("catdate-cols" if ccd else "table"))
        ro = common.call_impl(lambda: list(part.row_order()))
        co = common.call_impl(lambda: list(part.column_order()))
        if ro != orders[0] or co != orders[1]:
            findings.append({"kind": "model", "locus": "seam.insids.display-order",
                             "detail": "display order %r/%r != predicted %r/%r (cfg %r)" % (ro, co, orders[0], orders[1], case["cfg"])})
            continue
        rd, cd = dl[0][1], dl[1][1]
        tag = "insids.slice.%s" % mode
        note = "part=%d ids=%s|%s pop=%r frac=%r diff-rows=%r diff-cols=%r" % (
            k, _style_tag(case["cfg"][0]), _style_tag(case["cfg"][1]), pop, frac, rd, cd)
        impl_rd = common.call_impl(lambda: [int(i) for i in part.diff_row_idxs])
        impl_cd = common.call_impl(lambda: [int(i) for i in part.diff_column_idxs])
        if impl_rd != rd:
            findings.append({"kind": "model", "locus": "seam.insids.slice.diff_row_idxs", "detail": "%r != %r (%s)" % (impl_rd, rd, note)})
        if impl_cd != cd:
            findings.append({"kind": "model", "locus": "seam.insids.slice.diff_column_idxs", "detail": "%r != %r (%s)" % (impl_cd, cd, note)})
        impl_c = common.call_impl(lambda: part.population_counts)
        impl_m = common.call_impl(lambda: part.population_counts_moe)
        base._cmp(findings, "spec", tag + ".population_counts" + (".diff" if (rd or cd) else ""), impl_c,
                  common.model_to_float(out["spec"]["counts"]), note)
        base._cmp(findings, "model", "seam." + tag + ".population_counts", impl_c,
                  common.model_to_float(out["model"]["counts"]), note)
        impl_p = common.call_impl(lambda: part.population_proportions)
        base._cmp(findings, "model", "seam." + tag + ".population_proportions", impl_p,
                  common.model_to_float(out["model"]["props"]), note)
        im = base._mask(impl_m, rd, cd) if isinstance(impl_m, list) else impl_m
        base._cmp(findings, "spec", tag + ".population_counts_moe", im, common.model_to_float(out["spec"]["moe"]), note)
        own = {"catdate-rows": "row_std_err", "both-catdate": "row_std_err", "catdate-cols": "column_std_err",
               "table": "table_std_err"}[mode]
        own_se = common.call_impl(lambda: getattr(part, own))
        if isinstance(own_se, list) and isinstance(impl_m, list):
            with np.errstate(all="ignore"):
                want = (Z * (pop * frac) * np.array(own_se, dtype=np.float64)).tolist()
            base._cmp(findings, "spec", tag + ".population_counts_moe.matching-stderr", impl_m, want, note)
        impl_c2 = common.call_impl(lambda: cube2.partitions[k].population_counts)
        if isinstance(impl_c, list):
            base._cmp(findings, "spec", tag + ".population_counts.linearity", impl_c2,
                      [[case["k"] * x for x in r] for r in impl_c], "k=%r" % case["k"])
        if mixed_dim and isinstance(impl_c, list) and base._distinct_pos(impl_c) >= 1:
            key = ("slice", mode, _style_tag(case["cfg"][0]), _style_tag(case["cfg"][1]), bool(shares[0]), bool(shares[1]),
                   any(c["order"] is not None for c in case["cfg"]), any(bool(c["hidden"]) for c in case["cfg"]))
    return findings, key


def evaluate(case, louts, ctx):
    return eval_case(case, louts, ctx)


def describe(case):
    return {"t": "insids-" + case["t"], "kinds": [v["kind"] for v in case["vars"]], "n_respondents": len(case["survey"]),
            "cfg": case["cfg"], "population": case["population"], "extras": case["extras"], "form": case.get("form", "dict")}


def _set_cfg(case, d, **kw):
    cfgs = copy.deepcopy(case["cfg"])
    cfgs[d].update(kw)
    c = dict(case, cfg=cfgs)
    if "view" in kw:
        vs = copy.deepcopy(case["vars"])
        off = len(vs) - len(cfgs)
        vs[off + d]["view_insertions"] = copy.deepcopy(kw["view"])
        c["vars"] = vs
    return c


def shrink_candidates(case):
    sv = case["survey"]
    n = len(sv)
    if n > 1:
        yield dict(case, survey=sv[: n // 2])
        yield dict(case, survey=sv[n // 2:])
    for i in range(min(n, 12)):
        yield dict(case, survey=sv[:i] + sv[i + 1:])
    for d, cfg in enumerate(case["cfg"]):
        for fld in ("tr", "view"):
            lst = cfg[fld]
            if lst:
                for i in range(len(lst)):
                    yield _set_cfg(case, d, **{fld: lst[:i] + lst[i + 1:]})
        if cfg["order"] is not None:
            yield _set_cfg(case, d, order=None)
        if cfg["hidden"]:
            yield _set_cfg(case, d, hidden=[])
    if case["extras"]:
        yield dict(case, extras={})
    if case.get("form", "dict") != "dict":
        yield dict(case, form="dict")
    if any(w != "1" for w, _ in sv):
        yield dict(case, survey=[["1", a] for _, a in sv])
