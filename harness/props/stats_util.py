"""Shared pieces of the C11 / C12 / C16 property modules (owned by the stats slice).

Designs are 2 or 3 variables, each categorical-like ('cat', 'cat_date', 'datetime', 'text',
'binned') or multiple response ('mr'); a displayed row/column ("side") is described by the
positions, among the VALID elements of its dimension, of its addends and subtrahends
(a base element e is add=[e], sub=[]).  Respondent-level primitives are computed here in
Python straight from the survey; the Lean Spec computes them again from the same survey.
"""
from fractions import Fraction
import copy
import math

import gen
import common

CATLIKE = ("cat", "cat_date", "datetime", "text", "binned")


# ---------------------------------------------------------------------------------------
# designs


def mk_cat_var(rng, kind, alias, flags):
    """categorical-like variable with the given missing flags (payload order), random distinct ids"""
    n = len(flags)
    ids = rng.sample(range(1, 3 * n + 4), n)
    cats = [{"id": cid, "missing": bool(m), "name": "c%d" % cid,
             "numeric_value": rng.choice([None, 1, 2, 3])} for cid, m in zip(ids, flags)]
    return gen.Var(kind, alias, cats=cats)


def gen_flags(rng, n_valid, n_missing, missing_first=None):
    flags = [False] * n_valid + [True] * n_missing
    rng.shuffle(flags)
    if missing_first is True and n_missing and n_valid:
        # a missing category BEFORE a valid one
        i = flags.index(False)
        jm = [k for k, f in enumerate(flags) if f]
        if jm[0] > i:
            flags[i], flags[jm[0]] = flags[jm[0]], flags[i]
    return flags


def gen_dim_var(rng, kind, alias, n_valid=None, n_missing=None, missing_first=None, p_perm=0.0):
    """p_perm: probability that a cat / cat_date typedef lists its categories in another order than the
    data (`type.order` carries the data order; `Var.cats` stays in data order)"""
    if kind == "mr":
        return gen.gen_var(rng, "mr", alias, n=n_valid if n_valid is not None else rng.randint(1, 4))
    n_valid = n_valid if n_valid is not None else rng.randint(1, 4)
    n_missing = n_missing if n_missing is not None else rng.choice([0, 1, 1, 2])
    v = mk_cat_var(rng, kind, alias, gen_flags(rng, n_valid, n_missing, missing_first))
    if kind in ("cat", "cat_date") and len(v.cats) >= 2 and rng.random() < p_perm:
        perm = list(range(len(v.cats)))
        while perm == list(range(len(v.cats))):
            rng.shuffle(perm)
        v.typedef_perm = perm
    return v


def n_valid_elems(v):
    return len(v.items) if v.kind == "mr" else len(v.valid_cat_pos)


# ---------------------------------------------------------------------------------------
# insertions


def gen_insertions(rng, var, n, p_diff=0.5, p_overlap=0.0, p_stale=0.15, neg_only=0.05):
    """subtotal / difference insertion dicts for a categorical-like variable"""
    valid_ids = [c["id"] for c in var.cats if not c["missing"]]
    all_ids = [c["id"] for c in var.cats]
    if not valid_ids:
        return []
    out = []
    for k in range(n):
        pos = rng.sample(valid_ids, rng.randint(1, min(3, len(valid_ids))))
        neg = []
        if rng.random() < p_diff:
            rest = [i for i in valid_ids if i not in pos]
            if rng.random() < p_overlap:
                rest = valid_ids
            if rest:
                neg = rng.sample(rest, rng.randint(1, min(2, len(rest))))
        if neg and rng.random() < neg_only:
            pos = []
        # stale / missing ids contribute nothing
        if rng.random() < p_stale:
            extra = [i for i in all_ids if i not in valid_ids] + [max(all_ids) + 7]
            (pos if rng.random() < 0.5 or not neg else neg).append(rng.choice(extra))
            rng.shuffle(pos)
        d = {"function": "subtotal", "args": pos, "anchor": rng.choice(["top", "bottom"] + valid_ids),
             "name": "ins%d" % k}
        if neg:
            d["kwargs"] = {"negative": neg}
        out.append(d)
    return out


def sides_of(var, insertions):
    """(base sides, inserted sides) in the library's block order"""
    if var.kind == "mr":
        return [{"add": [k], "sub": [], "inserted": False} for k in range(len(var.items))], []
    vpos = var.valid_cat_pos
    id2e = {var.cats[p]["id"]: e for e, p in enumerate(vpos)}
    base = [{"add": [e], "sub": [], "inserted": False} for e in range(len(vpos))]
    subs = []
    for d in insertions:
        pos = d.get("kwargs", {}).get("positive") or d.get("args", [])
        neg = d.get("kwargs", {}).get("negative", [])
        a = sorted({id2e[i] for i in pos if i in id2e})
        s = sorted({id2e[i] for i in neg if i in id2e})
        if not a and not s:
            continue
        subs.append({"add": a, "sub": s, "inserted": True})
    return base, subs


def transforms_of(row_ins, col_ins, row_hide=(), col_hide=(), pairwise=None):
    """row_hide / col_hide: element ids hidden by an element transform; pairwise: a
    `pairwise_indices` settings dict (alpha list, only_larger)"""
    tr = {}
    if row_ins:
        tr["rows_dimension"] = {"insertions": row_ins}
    if col_ins:
        tr["columns_dimension"] = {"insertions": col_ins}
    if row_hide:
        tr.setdefault("rows_dimension", {})["elements"] = {str(i): {"hide": True} for i in row_hide}
    if col_hide:
        tr.setdefault("columns_dimension", {})["elements"] = {str(i): {"hide": True} for i in col_hide}
    if pairwise is not None:
        tr["pairwise_indices"] = pairwise
    return tr


def valid_element_ids(v):
    """element ids of the valid elements of the (single apparent) dimension, in element order"""
    if v.kind == "mr":
        return [it["id"] for it in v.items]
    return [v.cats[p]["id"] for p in v.valid_cat_pos]


def gen_hide(rng, v, p=0.3):
    """some valid element ids to hide (never all of them)"""
    ids = valid_element_ids(v)
    if len(ids) < 2 or rng.random() >= p:
        return []
    return rng.sample(ids, rng.randint(1, len(ids) - 1))


# ---------------------------------------------------------------------------------------
# surveys


def gen_survey(rng, vars_, n_resp, weighted, uneven_missing=True, zero_w=True):
    """respondents whose probability of a MISSING answer on a later variable depends on their
    answer on the previous one (heavy, uneven missingness)."""
    weights = gen.WEIGHTS if zero_w else [w for w in gen.WEIGHTS if w > 0]
    # per variable: a support restriction so that empty rows / columns occur
    supports = []
    for v in vars_:
        ncat = len(v.cats)
        if rng.random() < 0.3 and ncat > 1:
            supports.append(rng.sample(range(ncat), rng.randint(1, ncat)))
        else:
            supports.append(list(range(ncat)))
    # missing propensity table: keyed by (var index, previous answer signature)
    pm = {}
    survey = []
    for _ in range(n_resp):
        w = rng.choice(weights) if weighted else Fraction(1)
        ans = []
        prev_sig = 0
        for vi, (v, sup) in enumerate(zip(vars_, supports)):
            miss_pos = [i for i, c in enumerate(v.cats) if c["missing"]]
            val_pos = [i for i in sup if i not in miss_pos] or [i for i in range(len(v.cats)) if i not in miss_pos]
            key = (vi, prev_sig)
            if key not in pm:
                pm[key] = rng.choice([0.0, 0.1, 0.3, 0.6, 0.85]) if uneven_missing else 0.2
            p = pm[key]

            def one():
                if miss_pos and rng.random() < p:
                    return rng.choice(miss_pos)
                return rng.choice(val_pos) if val_pos else rng.randrange(len(v.cats))
            if v.is_array:
                a = [one() for _ in v.items]
            else:
                a = [one()]
            ans.append(a)
            prev_sig = a[0] % 4
        survey.append((w, ans))
    return survey


# ---------------------------------------------------------------------------------------
# weight regimes (all dyadic, so the exact model applies and binary64 sums stay exact)

TINY = Fraction(1, 2 ** 40)
MINUTE = Fraction(1, 2 ** 34)
SMALLS = [Fraction(1, 2 ** 6), Fraction(1, 2 ** 5), Fraction(1, 2 ** 4), Fraction(1, 2 ** 3)]


def pick_regime(rng, weighted, p_each=0.08, allowed=("tiny", "mixed", "small")):
    """None, or one of: 'tiny' (all weights x 2^-40), 'mixed' (one row/category answered only by
    respondents of weight ~2^-34 next to ordinary weights), 'small' (all weights in 2^-6..2^-3)"""
    if not weighted:
        return None
    x = rng.random()
    for i, name in enumerate(("tiny", "mixed", "small")):
        if x < (i + 1) * p_each:
            return name if name in allowed else None
    return None


def apply_regime(rng, vars_, survey, regime, mixed_var=None):
    if regime is None:
        return survey
    if regime == "tiny":
        return [(w * TINY, a) for w, a in survey]
    if regime == "small":
        return [((rng.choice(SMALLS) if w != 0 else w), a) for w, a in survey]
    # mixed: everybody who belongs to one element of one variable (default: the rows variable)
    vi = mixed_var if mixed_var is not None else max(0, len(vars_) - 2)
    v = vars_[vi]
    ne = n_valid_elems(v)
    if ne == 0:
        return survey
    e = rng.randrange(ne)
    out = []
    for w, a in survey:
        if in_elem(v, a[vi], e):
            w = MINUTE * rng.choice([1, 1, 2, 3])
        out.append((w, a))
    return out


# ---------------------------------------------------------------------------------------
# respondent-level predicates (Python twin of Lean `Spec/CellSpec.lean`)


def in_elem(v, a, e):
    if v.kind == "mr":
        return a[e] == 0
    return a[0] == v.valid_cat_pos[e]


def elig_for(v, a, e):
    if v.kind == "mr":
        return a[e] in (0, 1)
    return a[0] in v.valid_cat_pos


def in_any(v, a, es):
    return any(in_elem(v, a, e) for e in es)


def side_elig(v, a, side):
    es = side["add"] + side["sub"]
    return elig_for(v, a, es[0] if es else 0)


class SliceCtx:
    """the respondents of one partition of a 2- or 3-variable cube"""

    def __init__(self, vars_, survey, k):
        self.vars = vars_
        self.k = k
        self.vt = vars_[0] if len(vars_) == 3 else None
        self.vr, self.vc = vars_[-2], vars_[-1]
        off = len(vars_) - 2
        self.resp = []
        for w, ans in survey:
            if self.vt is not None and not in_elem(self.vt, ans[0], k):
                continue
            self.resp.append((w, ans[off], ans[off + 1]))

    def W(self, pred, weighted=True):
        return sum(((w if weighted else 1) for w, ar, ac in self.resp if pred(ar, ac)), Fraction(0))

    def in_row_add(self, R):
        return lambda ar, ac: in_any(self.vr, ar, R["add"])

    def base_pred(self, dirn, R, C):
        vr, vc = self.vr, self.vc
        if dirn == "row":
            return lambda ar, ac: in_any(vr, ar, R["add"]) and side_elig(vc, ac, C)
        if dirn == "col":
            return lambda ar, ac: side_elig(vr, ar, R) and in_any(vc, ac, C["add"])
        return lambda ar, ac: side_elig(vr, ar, R) and side_elig(vc, ac, C)

    def pos_pred(self, R, C):
        vr, vc = self.vr, self.vc
        return lambda ar, ac: in_any(vr, ar, R["add"]) and in_any(vc, ac, C["add"])

    def neg_pred(self, R, C):
        vr, vc = self.vr, self.vc
        return lambda ar, ac: ((in_any(vr, ar, R["sub"]) and in_any(vc, ac, C["add"]))
                               or (in_any(vr, ar, R["add"]) and in_any(vc, ac, C["sub"])))


# ---------------------------------------------------------------------------------------
# large samples: the survey replicated K times (every count and weight times the integer K)

SCALES = [10 ** 4, 10 ** 5, 3 * 10 ** 6]


def pick_scale(rng, p=0.15):
    return rng.choice(SCALES) if rng.random() < p else 1


def scaled_survey(survey, k):
    if k == 1:
        return survey
    return [(w * k, a) for w, a in survey]


def scale_response(resp, k):
    """the cube response of the K-fold replicated survey (integer payload stays integer)"""
    if k == 1:
        return resp
    res = resp["result"]
    res["counts"] = [gen.num(Fraction(x) * k) for x in res["counts"]]
    res["n"] = res["n"] * k
    cnt = res["measures"]["count"]
    cnt["data"] = [gen.num(Fraction(x) * k) for x in cnt["data"]]
    return resp


# ---------------------------------------------------------------------------------------
# misc


def fs(x):
    """Fraction / None -> driver number string ("nan" for None)"""
    if x is None:
        return "nan"
    return gen.frac_str(x)


def lean_vars(vars_):
    return [v.lean() for v in vars_]


def load_case(case):
    vars_ = [gen.Var.from_json(d) for d in case["vars"]]
    survey = gen.survey_from_json(case["survey"])
    return vars_, survey


def kinds_key(vars_):
    return "x".join(v.kind for v in vars_)


def n_partitions(vars_):
    return 1 if len(vars_) < 3 else n_valid_elems(vars_[0])


def block_pick(block_mat, ro, co):
    """displayed matrix from a [base..., inserted...] block-ordered matrix and signed indexes"""
    return [[block_mat[i][j] for j in co] for i in ro]


def isnan(x):
    return isinstance(x, float) and math.isnan(x)


def shrink_survey(case):
    sv = case["survey"]
    n = len(sv)
    if n > 1:
        yield dict(case, survey=sv[: n // 2])
        yield dict(case, survey=sv[n // 2:])
    for i in range(min(n, 25)):
        yield dict(case, survey=sv[:i] + sv[i + 1:])
    if any(w != "1" for w, _ in sv) and not case.get("weighted"):
        pass
