"""C16 extension: WHO the elements are must not matter - only whether they are valid or missing.

The column index is stated over "base cells" (every valid element of the rows x columns dimensions, whatever
its provenance) and its baseline counts respondents "regardless of whether their column answer is valid or
missing" (every missing element, whatever KIND of missing it is).  The main module's designs use plain
multiple-response items and missing categories with small positive ids only, so a change that singles out
elements by identity passes it.  Two families, freely combined, on all pairings, 2-D and 3-D:

* derived items: multiple-response dimensions (rows / columns / table) where some - one, several, the first,
  the only, or all - of the subvariables are "derived" (inserted subvariables such as 'A or B' that the back end
  puts into the payload as elements with value.derived = true, with any kind of anchor).  Half of them answer
  consistently with an `any_selected` over the plain items, the others independently.  A derived item is a base
  element: an ordinary index in every cell, NaN only under the usual conditions.
* kinds of missing: categorical-like dimensions (cat, cat_date, datetime, text, binned) whose missing elements
  carry the ids real payloads use for them - the system 'No Data' (-1), other negative reasons (-8, -9, ...),
  0 (falsy), ids far above the valid ones - next to ordinary user-defined missing categories with positive ids,
  at any payload position; a valid category may have id 0.  At least one missing element of the columns
  variable is forced (85 %) and the survey's missingness is uneven over the rows (stats_util.gen_survey), so a
  baseline that leaves out any one kind of missing answer differs from the unconditional row share.

Judged exactly as the main module's cases (same Lean ops: respondent-level Spec, Model from the raw array, the
`.baseline` seam); the Lean model and the C16 theorems are stated over positions and missing FLAGS only - element
ids, names and the derived flag do not occur in them - so they cover both families as they stand.
"""

import gen
from props import stats_util as su
from props import c16

PROPERTY = "C16"
THEOREMS = []
RULE = ("element identity: 2-D / 3-D designs where MR dimensions (rows, columns, table) carry derived items (one / several / "
        "all / first / only; any anchor; half answering as any_selected of the plain items) and categorical-like dimensions "
        "carry missing elements with system ids (-1 'No Data', other negatives, 0, very large) next to user-defined ones, "
        "a missing column element forced in 85% with uneven missingness over rows; insertions, hides, typedef order, "
        "weights and large samples as in the main module; non-trivial / distinct as in the main module, tagged by family")

CATLIKE = ["cat", "cat", "cat", "cat_date", "datetime", "text", "binned"]
SYS_IDS = [-1, -1, -1, -1, 0, -8, -9, -2, -127, 999, 32767]
ANCHORS = ["top", "bottom", None, "before", "after", "nowhere"]


def _mr_var(rng, alias, n, p_derived):
    v = gen.gen_var(rng, "mr", alias, n=n)
    if rng.random() >= p_derived:
        return v
    mode = rng.choice(["one", "one", "first", "several", "all"])
    if mode == "one":
        ks = [rng.randrange(n)]
    elif mode == "first":
        ks = [0]
    elif mode == "several":
        ks = rng.sample(range(n), rng.randint(1, n))
    else:
        ks = list(range(n))
    for k in ks:
        it = v.items[k]
        others = [o["alias"] for j, o in enumerate(v.items) if j != k] or ["no_such_alias"]
        a = rng.choice(ANCHORS)
        if a in ("before", "after"):
            a = {"position": a, "alias": rng.choice(others)}
        elif a == "nowhere":
            a = {"position": "after", "alias": "no_such_alias"}
        it["derived"] = True
        it["anchor"] = a
        it["name"] = "%s or else %d" % (alias, k)
        # the payload id of a derived subvariable is not a zero-padded number
        it["subvar_id"] = "%s_any_%d" % (alias, k)
    return v


def _system_ids(rng, v):
    """give the missing elements of a categorical-like variable the ids real payloads use for them"""
    miss = [c for c in v.cats if c["missing"]]
    valid = [c for c in v.cats if not c["missing"]]
    used = {c["id"] for c in v.cats}
    rng.shuffle(miss)
    # the first (in random order) always becomes a system-missing element, the others half of the time
    for i, c in enumerate(miss):
        if i > 0 and rng.random() < 0.5:
            continue                                  # stays an ordinary user-defined missing category
        pool = [x for x in SYS_IDS if x not in used]
        if not pool:
            break
        used.discard(c["id"])
        # the system 'No Data' (-1) is by far the most common one in real payloads
        c["id"] = -1 if (-1 in pool and rng.random() < 0.5) else rng.choice(pool)
        used.add(c["id"])
        c["name"] = "No Data" if c["id"] == -1 else "sys%d" % c["id"]
        c["numeric_value"] = None
    if valid and 0 not in used and rng.random() < 0.2:
        c = rng.choice(valid)
        c["id"] = 0
        c["name"] = "c0"
    return v


def _dim_var(rng, kind, alias, n_valid, n_missing, missing_first, fam_derived, fam_ids):
    if kind == "mr":
        return _mr_var(rng, alias, n_valid, 0.9 if fam_derived else 0.0)
    v = su.gen_dim_var(rng, kind, alias, n_valid=n_valid, n_missing=n_missing, missing_first=missing_first, p_perm=0.3)
    if fam_ids:
        _system_ids(rng, v)
    return v


def _consistent_derived(rng, vars_, survey):
    """half of the variables with derived items answer them as `any_selected` of the plain items"""
    out = survey
    for vi, v in enumerate(vars_):
        if v.kind != "mr" or rng.random() < 0.5:
            continue
        der = [k for k, it in enumerate(v.items) if it.get("derived")]
        plain = [k for k in range(len(v.items)) if k not in der]
        if not der or not plain:
            continue
        new = []
        for w, ans in out:
            a = list(ans[vi])
            for k in der:
                got = [a[p] for p in plain]
                a[k] = 0 if 0 in got else (2 if all(g == 2 for g in got) else 1)
            new.append((w, [a if j == vi else x for j, x in enumerate(ans)]))
        out = new
    return out


def gen_case(rng):
    fam = rng.choice(["derived", "ids", "ids", "both", "both"])
    fam_derived, fam_ids = fam != "ids", fam != "derived"
    nd = rng.choice([2, 2, 2, 3, 3])
    # pairings: the derived items need an MR dimension (all three pairings, MR x MR twice: derived rows AND columns), the kinds
    # of missing a categorical-like one (mostly the columns: its missing answers are what the baseline must count)
    pairing = rng.choice({"derived": ["cm", "mc", "mm", "mm"], "both": ["cm", "mc"], "ids": ["cc", "cc", "cc", "cm", "mc"]}[fam])
    rk, ck = [rng.choice(CATLIKE) if x == "c" else "mr" for x in pairing]
    tk = rng.choice(["cat", "cat", "cat_date", "mr", "mr", "text"]) if nd == 3 else None
    vars_ = []
    if nd == 3:
        vars_.append(_dim_var(rng, tk, "t", rng.randint(1, 3), rng.choice([0, 1, 1, 2, 2]), rng.random() < 0.6,
                              fam_derived, fam_ids))
    vars_.append(_dim_var(rng, rk, "r", rng.randint(1, 4), rng.choice([0, 1, 1, 2]), rng.random() < 0.5,
                          fam_derived, fam_ids))
    nmc = rng.choice([0, 1, 1, 2, 3])
    if fam_ids and rng.random() < 0.85:
        nmc = max(nmc, 1)
    vars_.append(_dim_var(rng, ck, "c", rng.randint(1, 4), nmc, rng.random() < 0.5, fam_derived, fam_ids))
    weighted = rng.random() < 0.6
    n_resp = rng.choice([1, 3, 8, 15, 25, 40])
    survey = su.gen_survey(rng, vars_, n_resp, weighted)
    survey = _consistent_derived(rng, vars_, survey)
    regime = su.pick_regime(rng, weighted, p_each=0.05)
    survey = su.apply_regime(rng, vars_, survey, regime)
    row_ins = col_ins = []
    if vars_[-2].kind in ("cat", "cat_date") and rng.random() < 0.3:
        row_ins = su.gen_insertions(rng, vars_[-2], rng.randint(1, 2))
    if vars_[-1].kind in ("cat", "cat_date") and rng.random() < 0.3:
        col_ins = su.gen_insertions(rng, vars_[-1], rng.randint(1, 2))
    return {"vars": [v.to_json() for v in vars_], "survey": gen.survey_to_json(survey), "weighted": weighted,
            "row_ins": row_ins, "col_ins": col_ins, "scale": su.pick_scale(rng, 0.08),
            "row_hide": su.gen_hide(rng, vars_[-2], 0.2), "col_hide": su.gen_hide(rng, vars_[-1], 0.1),
            "wregime": regime}


def generate(ctx):
    return [gen_case(ctx.rng) for _ in range(ctx.n(220, 7000))]


lean_ops = c16.lean_ops


def _features(vars_):
    f = []
    for nm, v in zip(("table", "rows", "cols")[-len(vars_):], vars_):
        if v.kind == "mr":
            nder = sum(1 for it in v.items if it.get("derived"))
            if nder:
                f.append("derived-items.%s%s" % (nm, ".all" if nder == len(v.items) else ""))
        else:
            ids = [c["id"] for c in v.cats if c["missing"]]
            if -1 in ids:
                f.append("missing-id-minus1.%s" % nm)
            if 0 in ids:
                f.append("missing-id-0.%s" % nm)
            if any(i < -1 for i in ids):
                f.append("missing-id-negative.%s" % nm)
            if any(i > 0 for i in ids) and any(i <= 0 for i in ids):
                f.append("missing-system-and-user.%s" % nm)
            if any(c["id"] == 0 for c in v.cats if not c["missing"]):
                f.append("valid-id-0.%s" % nm)
    return f


def evaluate(case, louts, ctx):
    findings, key = c16.evaluate(case, louts, ctx)
    vars_, _ = su.load_case(case)
    feats = _features(vars_)
    for f in feats:
        ctx.count("elems:" + f)
        if key is not None:
            ctx.count("elems_nontrivial:" + f)
    if key is not None:
        key = ("elems", tuple(feats)) + tuple(key)
    return findings, key


def describe(case):
    d = c16.describe(case)
    vars_, _ = su.load_case(case)
    d["features"] = _features(vars_)
    d["ids"] = [[c["id"] for c in v.cats] for v in vars_]
    d["derived"] = [[bool(it.get("derived")) for it in v.items] for v in vars_]
    return d


def shrink_candidates(case):
    for c in c16.shrink_candidates(case):
        yield c
