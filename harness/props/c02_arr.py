"""C02 extension — bases and margins of cubes in which a categorical array is crossed with another variable, of the
transposed (categories x items) layout and of CA-as-0th strands, against the respondent-level statement.

What each base IS (Props/C02_Arr.lean): for a slice whose ROWS are array items (ARR x CAT, ARR x MR) the row base of a
cell is "in the partition, with a valid answer on that item [and non-missing on the MR column item]", the table base is
the row base and the column base is the cell's own count (nothing is ever added across items); CAT x ARR is the mirror
image; an item-k partition (CA leading) is an ordinary CAT x X table of that item.  1-D margins / the scalar exist
exactly where the extractor class defines them and are then the collapsed per-cell bases (C02.margins_collapse,
cmXca_margins, caT_margins); otherwise the public margin falls back to the 2-D bases (C02.rows/columnsMargin_cases).
"""
import random

import common
from props import _arr_common as ac

PROPERTY = "C02"
LEAN_MODULE = "CrCube.Props.C02_Arr"
THEOREMS = [
    "CrCube.C02.cmXca_bases_spec",
    "CrCube.C02.cmXca_rowBase_const",
    "CrCube.C02.cmXca_margins",
    "CrCube.C02.caXcm_rowBase_spec",
    "CrCube.C02.caXcm_colBase_spec",
    "CrCube.C02.caXcm_tableBase_spec",
    "CrCube.C02.caT_bases_spec",
    "CrCube.C02.caT_margins",
    "CrCube.C02.caTXcm_bases_spec",
    "CrCube.C02.cmXcaT_bases_spec",
    "CrCube.C02.ca0th_bases_spec",
]
RULE = ("designs as in c01_arr (categorical array alone / under a table variable / leading / transposed / CA-as-0th; "
        "missing categories first / middle / last / all-but-one; missing items); every 2-D base (weighted and "
        "unweighted), every margin, the table base / margin and their ranges of every partition vs the "
        "respondent-level spec; all 11 attributes of both `_BaseCubeCounts` objects vs the model; "
        "non-trivial = >= 2 distinct unweighted base values in some partition; distinct = (layout tag, raw unweighted counts)")
ASSUMPTIONS = ["Spec.cubeOf / cubeOfT is the back end's tabulation (checked against the Python tabulator per case)"]

BASES_2D = [("row_weighted_bases", "row_bases", True), ("column_weighted_bases", "column_bases", True),
            ("table_weighted_bases", "table_bases", True), ("row_unweighted_bases", "row_bases", False),
            ("column_unweighted_bases", "column_bases", False), ("table_unweighted_bases", "table_bases", False)]


def generate(ctx):
    rng = random.Random("C02|arr|%s|%d" % (ctx.tier, ctx.seed))
    return [ac.gen_case(rng, "c02_arr") for _ in range(ctx.n(110, 2200))]


def lean_ops(case):
    return ac.lean_ops(case)


def _col0(m):
    return [row[0] for row in m]


def _margins(rk, ck, row, col, tab):
    """public margins as collapsed per-cell bases (same function for weighted and unweighted)"""
    out = {}
    out["rows"] = _col0(row) if (rk, ck) in ac.ROWS_BASE_DEFINED else row
    out["columns"] = col[0] if (rk, ck) in ac.COLS_BASE_DEFINED else col
    if (rk, ck) == ("cat", "cat"):
        out["table"] = tab[0][0]
    elif (rk, ck) in ac.COLS_BASE_DEFINED:
        out["table"] = tab[0]
    elif (rk, ck) in ac.ROWS_BASE_DEFINED:
        out["table"] = _col0(tab)
    else:
        out["table"] = tab
    flat = [x for r in tab for x in r]
    out["range"] = [min(flat), max(flat)]
    return out


def evaluate(case, louts, ctx):
    common.ensure_repo_on_path()
    vars_, survey = ac.load(case)
    layout = case["layout"]
    tg = ac.tag(layout, vars_)
    ctx.count("arr:" + tg)
    ac.check_oracles(case, vars_, survey, louts)
    findings = []
    cube = ac.make_cube(case)
    parts = ac.partitions_or_finding(case, cube, vars_, findings)
    if parts is None:
        return findings, None
    w = case["weighted"]
    nontrivial = False
    for k, p in enumerate(parts):
        sp, mw, mu = louts[1 + 3 * k], louts[2 + 3 * k], louts[3 + 3 * k]
        det = "partition %d" % k
        if layout == "ca0":
            wb = common.model_to_float(sp["bases"] if w else sp["ubases"])
            ub = common.model_to_float(sp["ubases"])
            for name, exp in (("weighted_bases", wb), ("unweighted_bases", ub)):
                ac.compare(findings, "spec", "arr.%s.%s" % (tg, name), common.call_impl(lambda: getattr(p, name)), exp, det)
            if ub:
                ac.compare(findings, "spec", "arr.%s.table_base_range" % tg,
                           common.call_impl(lambda: p.table_base_range), [min(ub), max(ub)], det)
                ac.compare(findings, "spec", "arr.%s.table_margin_range" % tg,
                           common.call_impl(lambda: p.table_margin_range), [min(wb), max(wb)], det)
            for m, which in ((mw, "weighted"), (mu, "unweighted")):
                obj = p._measures._cube_measures.weighted_cube_counts if which == "weighted" \
                    else p._measures._cube_measures.unweighted_cube_counts
                ac.compare(findings, "model", "arr.%s.seam.bases" % tg, common.call_impl(lambda: obj.bases),
                           common.model_to_float(m["stripe"]["bases"]), det + " " + which)
                ac.compare(findings, "model", "arr.%s.seam.table_base" % tg, common.call_impl(lambda: obj.table_base),
                           common.model_to_float(m["stripe"]["table_base"]), det + " " + which)
            nontrivial = nontrivial or (len(ub) >= 1 and ub[0] > 0 and len(parts) >= 2)
            continue
        rk, ck = ac.slice_kinds(layout, vars_)
        spec = {}
        for name, skey, wtd in BASES_2D:
            exp = common.model_to_float(sp[skey if (wtd and w) else "u" + skey])
            spec[name] = exp
            ac.compare(findings, "spec", "arr.%s.%s" % (tg, skey if wtd else "u" + skey),
                       common.call_impl(lambda: getattr(p, name)), exp, det + " " + name)
        if spec["table_unweighted_bases"] and spec["table_unweighted_bases"][0]:
            mu_ = _margins(rk, ck, spec["row_unweighted_bases"], spec["column_unweighted_bases"], spec["table_unweighted_bases"])
            mw_ = _margins(rk, ck, spec["row_weighted_bases"], spec["column_weighted_bases"], spec["table_weighted_bases"])
            for name, exp in (("rows_base", mu_["rows"]), ("columns_base", mu_["columns"]), ("table_base", mu_["table"]),
                              ("table_base_range", mu_["range"]), ("rows_margin", mw_["rows"]),
                              ("columns_margin", mw_["columns"]), ("table_margin", mw_["table"]),
                              ("table_margin_range", mw_["range"])):
                ac.compare(findings, "spec", "arr.%s.%s" % (tg, name), common.call_impl(lambda: getattr(p, name)), exp, det)
            vals = {x for r in spec["table_unweighted_bases"] for x in r} | {x for r in spec["column_unweighted_bases"] for x in r}
            nontrivial = nontrivial or len(vals) >= 2
            ctx.count("arr_zero_base", int(0 in vals))
        wobj, uobj = ac.seam_objects(cube, k)
        for obj, which, m in ((wobj, "weighted", mw), (uobj, "unweighted", mu)):
            cls = type(obj).__name__
            if cls != ac.CLS[(rk, ck)]:
                findings.append({"kind": "model", "locus": "arr.%s.seam.extractor_class" % tg,
                                 "detail": "%s: %s, expected %s" % (det, cls, ac.CLS[(rk, ck)])})
                continue
            ac.compare_xtr(findings, tg, obj, m["xtr"], k, which)
    key = (tg, tuple(louts[0]["unweighted"])) if nontrivial else None
    return findings, key


describe = ac.describe
shrink_candidates = ac.shrink_candidates
