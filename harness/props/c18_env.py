"""C18 (extension) -- the two channels of history that are NOT a cache of the object under test:

  env    PROCESS-GLOBAL state.  A read may depend on the process environment the caller runs it in (numpy's floating-point
         error mode, the warning filters, print options, scipy.special's error mode, the random generators, module- and
         class-level containers of cr.cube.*); if a read WRITES that environment, every later read -- on this or on a
         brand-new cube over pristine copies -- runs in another environment than a fresh evaluation does.
         Lean (`Props/C18_Env.lean`): `env_read_refines` -- if no read changes the environment, every read of every
         history returns the value of a fresh evaluation in the caller's environment; `env_write_counterexample`.
         The hypothesis is checked here: the caller's configuration (numpy default / divide+invalid='raise' / all='raise' /
         RuntimeWarning turned into an error) is installed ONCE around a whole schedule (a per-read `with np.errstate`
         would undo a leak on exit and hide it); tables with EMPTY rows / columns / everything (the library's unguarded
         0/0 divisions); the schedule reads every public property of one partition in random order, the public properties
         of the helper objects a read returns (`pairwise_significance_tests[i].t_stats` ...), interleaved with reads of
         the other objects; a snapshot of the environment is compared after EVERY read.
         An event triggers the witness search: read X alone on new objects, then read Y on a BRAND-NEW cube over
         pristine copies (no cache is shared: the environment is the only channel) versus Y alone; a difference in
         outcome (value or exception type) is a `spec` finding, no witness a `model` finding.
  args   the caller's RESPONSE dict.  Documented in-place edits of a plain Cube are the keys `subvar_alias` /
         `datetime_value` on elements; everything else must stay deep-equal to a pristine copy after every construction
         and batch of reads, and a SECOND cube (cube set) built from the used dict must report what a fresh one on a
         pristine copy reports (dimension types, partition kinds, every public read of a partition).  Designs make the
         difference observable: typedefs carrying `order` (the payload axis is laid out in another order than the
         typedef lists its categories / elements) on categorical, CA-category, MR-selection, logical, datetime and text
         dimensions, incl. the id alphabet {1, 0, -1} with a `selected` category in all 6 x 6 listing / data orders
         (the listing [1, 0, -1] is what makes a dimension MR / LOGICAL).
"""
import copy
import json
import random

import common
import gen
from props import c18
from props import shim_common as sc

PROPERTY = "C18"
LEAN_MODULE = "CrCube.Props.C18_Env"
THEOREMS = [
    "CrCube.C18.env_read_refines",
    "CrCube.C18.env_preserved_run",
    "CrCube.C18.env_write_counterexample",
    "CrCube.C18.args_reuse_refines",
    "CrCube.C18.args_write_counterexample",
]
RULE = ("env: api / scale / diffs / strand designs of c18.py with the counts of random whole rows / columns / everything "
        "zeroed x caller configuration (numpy default, divide+invalid raise, all raise, RuntimeWarning as error) x a "
        "schedule = every public property of one partition + nested reads of returned helper objects in random order, "
        "interleaved with reads of other objects; environment snapshot after every read.  args: api designs + the "
        "{1,0,-1}+selected alphabet on CA / MR / logical / plain categorical dimensions x typedef `order` permutations "
        "x first user (Cube / CubeSet) read, then a second user on the same dict vs a fresh one.  Non-trivial = env: "
        ">= 30 reads under a non-default configuration or with an empty margin; args: at least one typedef whose "
        "listing differs from its data order; distinct = distinct (kinds, config / permutations, schedule length) key")
ASSUMPTIONS = [
    "process environment = numpy error mode + error callback, numpy print options, warnings.filters, scipy.special error "
    "mode, python / numpy global random generator state, decimal context, recursion limit, module-level and class-level "
    "mutable containers (dict / list / set / bytearray / ndarray) of every loaded cr.cube.* module (dunder names excluded)",
    "documented in-place edits of a response by a plain Cube: element keys `subvar_alias`, `datetime_value` (anchors of C18)",
    "outcomes under a strict floating-point mode are compared ACROSS objects only (a value cached inside a guarded "
    "region and re-read outside it on the same object is not demanded to raise)",
]
TRUSTED_EXTRA = ["np.geterr / warnings.filters / scipy.special.geterr report the state the library's arithmetic runs under"]


def F(kind, locus, detail):
    return {"kind": kind, "locus": locus, "detail": detail[:1500]}


# ---------------------------------------------------------------------------------------
# process environment


def _fp(x):
    import numpy as np
    if isinstance(x, np.ndarray):
        return ("nd", x.dtype.str, x.shape, x.tobytes() if not x.dtype.hasobject else repr(x.tolist()))
    try:
        return repr(x)
    except Exception:  # noqa
        return "<unrepr %s>" % type(x).__name__


def env_snapshot():
    """name -> fingerprint of every piece of process-global state the library could touch"""
    import decimal
    import sys
    import warnings
    import numpy as np
    out = {}
    out["numpy.geterr"] = repr(sorted(np.geterr().items()))
    out["numpy.geterrcall"] = repr(np.geterrcall())
    out["numpy.printoptions"] = repr(sorted((k, repr(v)) for k, v in np.get_printoptions().items()))
    out["warnings.filters"] = repr([(f[0], getattr(f[1], "pattern", f[1]), f[2].__name__, getattr(f[3], "pattern", f[3]), f[4])
                                    for f in warnings.filters])
    try:
        import scipy.special as ss
        out["scipy.special.geterr"] = repr(sorted(ss.geterr().items()))
    except Exception:  # noqa
        pass
    out["random.state"] = hash(random.getstate())
    st = np.random.get_state()
    out["numpy.random.state"] = hash((st[0], st[1].tobytes(), st[2], st[3], st[4]))
    out["decimal.context"] = repr(decimal.getcontext())
    out["sys.recursionlimit"] = sys.getrecursionlimit()
    mutable = (dict, list, set, bytearray, np.ndarray)
    for mname, mod in list(sys.modules.items()):
        if mod is None or not (mname == "cr.cube" or mname.startswith("cr.cube.")):
            continue
        for k, v in list(vars(mod).items()):
            if k.startswith("__"):
                continue
            if isinstance(v, mutable):
                out["%s.%s" % (mname, k)] = _fp(v)
            elif isinstance(v, type) and getattr(v, "__module__", None) == mname:
                for a, w in list(vars(v).items()):
                    if a.startswith("__"):
                        continue
                    if isinstance(w, mutable):
                        out["%s.%s.%s" % (mname, k, a)] = _fp(w)
    return out


CONFIGS = ["default", "raise", "raise", "all-raise", "warn-error"]


def apply_config(cfg):
    """install the CALLER's configuration (as a caller would: process-wide, not scoped)"""
    import warnings
    import numpy as np
    warnings.resetwarnings()
    warnings.simplefilter("ignore")
    if cfg == "raise":
        np.seterr(divide="raise", over="warn", under="ignore", invalid="raise")
    elif cfg == "all-raise":
        np.seterr(divide="raise", over="raise", under="raise", invalid="raise")
    else:
        np.seterr(divide="warn", over="warn", under="ignore", invalid="warn")
        if cfg == "warn-error":
            warnings.filterwarnings("error", category=RuntimeWarning)


class CallerEnv:
    """saves / restores what apply_config and a leaking library may change, so that the harness itself is left alone"""

    def __enter__(self):
        import warnings
        import numpy as np
        self.err = np.geterr()
        self.call = np.geterrcall()
        self.filters = list(warnings.filters)
        self.po = np.get_printoptions()
        self.rs = random.getstate()
        self.nrs = np.random.get_state()
        try:
            import scipy.special as ss
            self.sserr = ss.geterr()
        except Exception:  # noqa
            self.sserr = None
        return self

    def __exit__(self, *a):
        import warnings
        import numpy as np
        np.seterr(**self.err)
        np.seterrcall(self.call)
        warnings.filters[:] = self.filters
        if hasattr(warnings, "_filters_mutated"):
            warnings._filters_mutated()
        elif hasattr(warnings, "_filters_mutated_lock_held"):
            try:
                with warnings._lock:
                    warnings._filters_mutated_lock_held()
            except Exception:  # noqa
                pass
        po = dict(self.po)
        po.pop("override_repr", None)
        try:
            np.set_printoptions(**po)
        except Exception:  # noqa
            pass
        random.setstate(self.rs)
        np.random.set_state(self.nrs)
        if self.sserr is not None:
            import scipy.special as ss
            ss.seterr(**self.sserr)
        return False


def raw_read(obj, name):
    """outcome of one read WITHOUT any scoped guard of the harness's own (value canonicalised, exception type as a value).
    name: 'prop' | 'meth()' | 'meth(0)' | 'prop[i].sub'"""
    try:
        if "[" in name and "]." in name:
            head, rest = name.split("[", 1)
            idx, sub = rest.split("].", 1)
            v = getattr(getattr(obj, head)[int(idx)], sub)
        elif name.endswith("()"):
            v = getattr(obj, name[:-2])()
        elif name.endswith("(0)"):
            v = getattr(obj, name[:-3])(0)
        else:
            v = getattr(obj, name)
        return c18.canon(v)
    except Exception as e:  # noqa
        return {"raises": type(e).__name__}


def nested_reads(obj, names, cap=3):
    """reads THROUGH helper objects a public property returns: `pairwise_significance_tests[i].t_stats`, ... (depth 1)"""
    import inspect
    from cr.cube.util import lazyproperty
    out = []
    skip = ("Cube", "CubeSet", "_Slice", "_Strand", "_Nub", "Dimension", "Dimensions")
    for n in names:
        if not n.isidentifier():
            continue
        try:
            v = getattr(obj, n)
        except Exception:  # noqa
            continue
        if not isinstance(v, (tuple, list)) or not v:
            continue
        for i, h in enumerate(list(v)[:cap]):
            cls = type(h)
            if not (getattr(cls, "__module__", "") or "").startswith("cr.cube") or cls.__name__ in skip:
                break
            for a in dir(cls):
                if a.startswith("_"):
                    continue
                if isinstance(inspect.getattr_static(cls, a), (lazyproperty, property)):
                    out.append("%s[%d].%s" % (n, i, a))
    return out


# ---------------------------------------------------------------------------------------
# env cases


def raw_shape_of(resp):
    sh = []
    for d in resp["result"]["dimensions"]:
        t = d["type"]
        sh.append(len(t["categories"]) if t["class"] == "categorical" else len(t["elements"]))
    return sh


def zero_margins(resp, mode, rng):
    """empty rows / columns / table: the counts (both) of whole hyperplanes of the payload set to 0"""
    import numpy as np
    res = resp["result"]
    sh = raw_shape_of(resp)
    if not sh or mode is None:
        return None
    arrs = [np.array(res["counts"], dtype=object).reshape(sh), np.array(res["measures"]["count"]["data"], dtype=object).reshape(sh)]
    what = mode
    if mode == "axis":
        ax = rng.randrange(len(sh))
        idx = [i for i in range(sh[ax]) if rng.random() < 0.6] or [rng.randrange(sh[ax])]
        sl = [slice(None)] * len(sh)
        sl[ax] = idx
        for a in arrs:
            a[tuple(sl)] = 0
        what = "axis %d positions %s" % (ax, idx)
    elif mode == "numeric":
        # exactly the categories that carry a numeric value are empty (scale means divide by their total)
        done = []
        for ax, d in enumerate(res["dimensions"]):
            t = d["type"]
            if t["class"] != "categorical":
                continue
            idx = [i for i, c in enumerate(t["categories"]) if c.get("numeric_value") is not None]
            if not idx or (done and rng.random() < 0.5):
                continue
            sl = [slice(None)] * len(sh)
            sl[ax] = idx
            for a in arrs:
                a[tuple(sl)] = 0
            done.append((ax, idx))
        what = "numeric-valued categories %s" % done
    elif mode == "all":
        for a in arrs:
            a[...] = 0
    else:   # allbut1
        keep = tuple(rng.randrange(s) for s in sh)
        for a in arrs:
            v = a[keep]
            a[...] = 0
            a[keep] = v
        what = "all but cell %s" % (keep,)
    res["counts"] = arrs[0].ravel().tolist()
    res["measures"]["count"]["data"] = arrs[1].ravel().tolist()
    return what


def gen_strand(rng):
    return {"kinds": [rng.choice(["cat", "cat", "cat_date", "mr"])], "seed": rng.randrange(1 << 30), "nsched": 0,
            "population": rng.choice([None, 1000]), "min_base": 0, "with_set": rng.random() < 0.3,
            "ncubes": rng.choice([1, 2]), "mrins": False, "holes": False, "numeric_all": rng.random() < 0.6,
            "no_missing": rng.random() < 0.5, "pairwise": None, "measures": rng.random() < 0.5}


def gen_env(rng):
    g = rng.choice([c18.gen_scale, c18.gen_scale, c18.gen_diffs, c18.gen_api, gen_strand,
                    lambda r: dict(c18.gen_api(r), kinds=r.choice([["cat", "cat"], ["cat", "cat"], ["cat", "mr"], ["mr", "cat"], ["cat", "cat", "cat"]]))])
    c = dict(g(rng))
    c["holes"] = False
    c["t"] = "env"
    c["zero"] = rng.choice(["axis", "axis", "numeric", "numeric", "all", "allbut1", None])
    c["config"] = rng.choice(CONFIGS)
    c["nextra"] = rng.randint(4, 10)
    c["ncubes"] = rng.choice([1, 1, 2])
    return c


def env_build(case):
    resp0, tr0 = c18.api_build(case)
    what = zero_margins(resp0, case.get("zero"), random.Random(case["seed"] ^ 0x77))
    return resp0, tr0, what


def eval_env(case, ctx):
    import numpy as np
    findings = []
    resp0, tr0, zwhat = env_build(case)
    cfg = case["config"]
    rng = random.Random(case["seed"] ^ 0x5eed)
    desc = "kinds=%s transforms=%s population=%r min_base=%r empty=%s caller-config=%s" % (
        case["kinds"], json.dumps(tr0), case["population"], case["min_base"], zwhat, cfg)

    def new_objects():
        return c18.make_objects(case, copy.deepcopy(resp0), copy.deepcopy(tr0))

    with CallerEnv():
        apply_config("default")
        probe = new_objects()
        try:
            nparts = len(probe["cube0"].partitions)
            targets = []
            for lab in probe:
                targets.append(lab)
                for k in range(nparts):
                    targets.append("%s.p%d" % (lab, k))
            reads_by_target = {}
            for t in targets:
                o = c18.resolve_target(probe, t)
                names = c18.public_reads(o)
                reads_by_target[t] = names + (nested_reads(o, names) if "." in t else [])
        except Exception:  # noqa   (c18.py reports cubes whose partitions cannot be built)
            ctx.count("env-unbuildable")
            return [], None
        main = "cube0.p%d" % rng.randrange(nparts)
        sweep = [(main, n) for n in reads_by_target[main]]
        rng.shuffle(sweep)
        universe = [(t, n) for t in targets for n in reads_by_target[t]]
        sched = list(sweep)
        for _ in range(case.get("nextra", 6)):
            sched.insert(rng.randrange(len(sched) + 1), rng.choice(universe))

        # ---- the schedule, in the caller's environment; snapshot after every read
        apply_config(cfg)
        objs = new_objects()
        before = env_snapshot()
        after_construction = before
        events = []
        for i, (t, n) in enumerate(sched):
            try:
                target = c18.resolve_target(objs, t)
            except Exception:  # noqa
                target = None
            now = env_snapshot()
            if now != before:        # resolving a partition is a read too
                events.append({"culprit": (t, None), "changed": diff_env(before, now), "step": i})
                apply_config(cfg)
                before = env_snapshot()
            if target is None:
                continue
            raw_read(target, n)
            now = env_snapshot()
            if now != before:
                events.append({"culprit": (t, n), "changed": diff_env(before, now), "step": i})
                apply_config(cfg)            # carry on from the caller's configuration
                before = env_snapshot()
                if len(events) >= 4:
                    break
        ctx.count("env-reads", len(sched))
        ctx.count("env-config:%s" % cfg)
        ctx.count("env-zero:%s" % case.get("zero"))

        # ---- witness search
        reported = set()
        for ev in events:
            t, n = ev["culprit"]
            names_changed = sorted(ev["changed"])
            tag = names_changed[0]
            if tag in reported:
                continue
            reported.add(tag)
            what = "read #%d %s%s changed the process environment: %s" % (
                ev["step"], t, "" if n is None else "." + n,
                "; ".join("%s: %s -> %s" % (k, v[0][:120], v[1][:120]) for k, v in sorted(ev["changed"].items())[:3]))
            witness = None
            if n is not None:
                witness = find_witness(case, resp0, tr0, (t, n), [cfg] + [c for c in ("raise", "warn-error") if c != cfg],
                                       main, reads_by_target)
            if witness:
                findings.append(F("spec", "env.global-state:%s" % tag, "%s: %s; %s" % (desc, what, witness)))
            else:
                findings.append(F("model", "env.global-state:%s" % tag,
                                  "%s: %s (hypothesis EnvPreserved of env_read_refines fails); no read on a brand-new cube was "
                                  "found whose outcome differs" % (desc, what)))
    sensitive = cfg != "default" or case.get("zero") is not None
    key = ("env", tuple(case["kinds"]), cfg, case.get("zero"), len(sched)) if len(sched) >= 30 and sensitive else None
    return findings, key


def diff_env(a, b):
    return {k: (str(a.get(k)), str(b.get(k))) for k in set(a) | set(b) if a.get(k) != b.get(k)}


def find_witness(case, resp0, tr0, culprit, cfgs, main, reads_by_target):
    """a read on a BRAND-NEW cube (pristine copies) whose outcome differs when `culprit` was read before on another"""
    one = dict(case, ncubes=1, with_set=False)
    names = [n for n in reads_by_target[main] if "[" not in n]
    cube_names = reads_by_target.get("cube0", [])
    cands = [(main, n) for n in names] + [("cube0", n) for n in cube_names if n != "partitions"]
    for cfg in cfgs:
        for (t, n) in cands:
            apply_config(cfg)
            try:
                want = raw_read(c18.resolve_target(c18.make_objects(one, copy.deepcopy(resp0), copy.deepcopy(tr0)), t), n)
            except Exception:  # noqa
                continue
            apply_config(cfg)
            try:
                a = c18.make_objects(case, copy.deepcopy(resp0), copy.deepcopy(tr0))
                raw_read(c18.resolve_target(a, culprit[0]), culprit[1])
                got = raw_read(c18.resolve_target(c18.make_objects(one, copy.deepcopy(resp0), copy.deepcopy(tr0)), t), n)
            except Exception:  # noqa
                continue
            ok, where = common.deep_close(got, want)
            if not ok:
                apply_config(cfg)
                return ("witness (caller configuration %s): %s.%s on a BRAND-NEW cube over pristine copies gives %s when %s.%s "
                        "was read on another cube before, and %s when it was not (%s)" % (
                            cfg, t, n, json.dumps(got)[:140], culprit[0], culprit[1], json.dumps(want)[:140], where))
    # ... no read of THIS table tells (typically because every sensitive read runs the writing code itself first):
    # reads of OTHER cubes whose outcome is known to depend on the floating-point mode (unguarded 0/0)
    from cr.cube.cube import Cube
    for cfg in cfgs:
        for label, resp, names in sentinels():
            for n in names:
                apply_config(cfg)
                try:
                    want = raw_read(Cube(copy.deepcopy(resp)).partitions[0], n)
                    apply_config(cfg)
                    a = c18.make_objects(case, copy.deepcopy(resp0), copy.deepcopy(tr0))
                    raw_read(c18.resolve_target(a, culprit[0]), culprit[1])
                    got = raw_read(Cube(copy.deepcopy(resp)).partitions[0], n)
                except Exception:  # noqa
                    continue
                ok, where = common.deep_close(got, want)
                if not ok:
                    apply_config(cfg)
                    return ("witness (caller configuration %s): .%s of the first partition of ANOTHER cube (%s; response %s) gives %s "
                            "when %s.%s was read on this cube before, and %s when it was not (%s)" % (
                                cfg, n, label, json.dumps(resp["result"]["measures"]["count"]["data"])[:80], json.dumps(got)[:140],
                                culprit[0], culprit[1], json.dumps(want)[:140], where))
    return None


_SENTINELS = []


def sentinels():
    """small cubes with reads whose outcome depends on the floating-point mode: the library divides 0 by 0 outside any guard"""
    if not _SENTINELS:
        rng = random.Random(18)
        r, c = gen.gen_var(rng, "cat", "r", n=3, numeric="all", allow_missing=False), gen.gen_var(rng, "cat", "c", n=2, numeric="all", allow_missing=False)
        for v in (r, c):
            v.typedef_perm = None
        r.cats[2]["numeric_value"] = None
        survey = gen.gen_survey(rng, [r, c], n_resp=12, weighted=False)
        resp = gen.cube_response([r, c], survey, False)
        zero_margins(resp, "numeric", random.Random(1))
        _SENTINELS.append(("CAT x CAT whose rows carrying a numeric value are empty", resp,
                           ["columns_scale_mean_margin", "rows_scale_mean_margin", "columns_margin_proportion", "rows_margin_proportion"]))
        resp2 = gen.cube_response([r], survey, False)
        zero_margins(resp2, "all", random.Random(1))
        _SENTINELS.append(("empty CAT strand", resp2, ["table_proportion_stddevs", "table_proportion_stderrs", "population_counts_moe",
                                                        "share_sum", "scale_mean", "table_proportions"]))
    return _SENTINELS


# ---------------------------------------------------------------------------------------
# args cases: typedef `order`, the {1, 0, -1} alphabet, re-use of the response dict

PERMS3 = [[0, 1, 2], [0, 2, 1], [1, 0, 2], [1, 2, 0], [2, 0, 1], [2, 1, 0]]
SEL_CATS = [
    {"id": 1, "missing": False, "name": "Yes", "numeric_value": 1, "selected": True},
    {"id": 0, "missing": False, "name": "No", "numeric_value": 0},
    {"id": -1, "missing": True, "name": "No Data", "numeric_value": None},
]


def gen_args(rng):
    fam = rng.choice(["sel", "sel", "sel", "api", "api"])
    if fam == "sel":
        kinds = rng.choice([["casel"], ["casel"], ["mr"], ["logical"], ["cat", "casel"], ["cat", "mr"], ["logical", "cat"],
                            ["cat", "logical"], ["mr", "cat"], ["casel", "cat"]])
        return {"t": "args", "fam": "sel", "kinds": kinds, "seed": rng.randrange(1 << 30),
                "data_perm": rng.choice(PERMS3), "list_perm": rng.choice(PERMS3 + [None]),
                "force_logical": rng.random() < 0.6,
                "population": rng.choice([None, 1000]), "min_base": 0, "first": rng.choice(["cube", "cube", "set"]),
                "nreads": rng.randint(5, 40)}
    c = dict(c18.gen_api(rng))
    c.update(t="args", fam="api", first=rng.choice(["cube", "cube", "set"]), nreads=rng.randint(5, 40), holes=False, mrins=False)
    return c


def permute_typedefs(resp, rng, p_cat=0.75, p_enum=0.4, fixed=None):
    """typedefs get an `order` key = the ids in DATA order, and list their categories / elements in another order.
    -> number of typedefs whose listing now differs from the data order"""
    n = 0
    for d in resp["result"]["dimensions"]:
        t = d["type"]
        key = "categories" if t["class"] == "categorical" else "elements"
        if t["class"] == "enum" and t.get("subtype", {}).get("class") in ("variable", "num_arr"):
            continue
        defs = t[key]
        if "order" in t or len(defs) < 2:
            n += "order" in t and [e["id"] for e in defs] != t["order"]
            continue
        if rng.random() >= (p_cat if key == "categories" else p_enum):
            continue
        ids = [e["id"] for e in defs]
        perm = list(range(len(defs)))
        if fixed is not None and len(defs) == 3 and sorted(ids) == [-1, 0, 1]:
            perm = [ids.index(i) for i in fixed]
        else:
            rng.shuffle(perm)
        t["order"] = ids
        t[key] = [defs[i] for i in perm]
        n += perm != list(range(len(defs)))
    return n


def args_build(case):
    if case["fam"] == "api":
        resp0, tr0 = c18.api_build(case)
        nperm = permute_typedefs(resp0, random.Random(case["seed"] ^ 0x0de5))
        return resp0, tr0, nperm
    rng = random.Random(case["seed"])
    vars_ = []
    for i, k in enumerate(case["kinds"]):
        alias = "v%d" % i
        if k in ("casel", "mr", "logical"):
            cats = [copy.deepcopy(SEL_CATS[j]) for j in case["data_perm"]]     # payload-axis order
            if k == "logical":
                v = gen.Var("logical", alias, cats=cats)
            else:
                v = gen.Var("mr" if k == "mr" else "ca", alias, cats=cats, items=gen.gen_items(rng, rng.randint(1, 3), alias))
        else:
            v = gen.gen_var(rng, k, alias, n=rng.randint(2, 4), min_valid=2)
            v.typedef_perm = None
        vars_.append(v)
    survey = gen.gen_survey(rng, vars_, n_resp=rng.randint(8, 30), weighted=rng.random() < 0.5)
    resp0 = gen.cube_response(vars_, survey, True)
    # listing order of the {1,0,-1} typedefs: either what makes the dimension logical ([1,0,-1]) or a given permutation
    data_ids = [SEL_CATS[j]["id"] for j in case["data_perm"]]
    if case.get("force_logical") and data_ids != [1, 0, -1]:
        fixed = [1, 0, -1]
    elif case.get("list_perm") is not None:
        fixed = [SEL_CATS[j]["id"] for j in case["list_perm"]]
    else:
        fixed = None
    nperm = permute_typedefs(resp0, rng, p_cat=1.0 if fixed is not None else 0.75, fixed=fixed)
    tr0 = {}
    if rng.random() < 0.4:
        tr0 = {"rows_dimension": {"prune": rng.random() < 0.5}}
    return resp0, tr0, nperm


STRIP_KEYS = ("subvar_alias", "datetime_value")


def stripped(x):
    """the response without the keys a plain Cube is documented to add in place"""
    if isinstance(x, dict):
        return {k: stripped(v) for k, v in x.items() if k not in STRIP_KEYS}
    if isinstance(x, (list, tuple)):
        return [stripped(v) for v in x]
    return x


def first_diff(a, b, path="$"):
    if type(a) is not type(b):
        return "%s: %s -> %s" % (path, sc.jdump(a)[:120], sc.jdump(b)[:120])
    if isinstance(a, dict):
        for k in list(a) + [k for k in b if k not in a]:
            if k not in a or k not in b:
                return "%s.%s: %s -> %s" % (path, k, "absent" if k not in a else sc.jdump(a[k])[:120],
                                            "absent" if k not in b else sc.jdump(b[k])[:120])
            r = first_diff(a[k], b[k], "%s.%s" % (path, k))
            if r:
                return r
        if list(a) != list(b):
            return "%s: key order %s -> %s" % (path, list(a), list(b))
        return None
    if isinstance(a, list):
        if len(a) != len(b):
            return "%s: length %d -> %d" % (path, len(a), len(b))
        for i, (x, y) in enumerate(zip(a, b)):
            r = first_diff(x, y, "%s[%d]" % (path, i))
            if r:
                return r
        return None
    if a != b and not (a != a and b != b):
        return "%s: %r -> %r" % (path, a, b)
    return None


def diff_class(path):
    """stable name of WHERE in the response the change is: the path without indices"""
    import re
    return re.sub(r"\[\d+\]", "[]", path.split(":")[0]).replace("$.result.", "")


def fingerprint(user, kind, names_by_part):
    """what a user of the response sees.  user: Cube or CubeSet"""
    out = {}
    if kind == "set":
        for n in c18.public_reads(user):
            if n != "partition_sets":
                out["set." + n] = c18.read(user, n)
        ps, exc = sc.exc_name(lambda: user.partition_sets)
        if exc:
            out["partition_sets"] = {"raises": exc}
            return out
        parts = [tup[0] for tup in ps]
    else:
        for n in c18.public_reads(user):
            if n != "partitions":
                out["cube." + n] = c18.read(user, n)
        try:
            out["cube.dimension_types"] = [getattr(dt, "name", str(dt)) for dt in user.dimension_types]
        except Exception as e:  # noqa
            out["cube.dimension_types"] = {"raises": type(e).__name__}
        parts, exc = sc.exc_name(lambda: user.partitions)
        if exc:
            out["partitions"] = {"raises": exc}
            return out
    out["partition-kinds"] = [type(p).__name__ for p in parts]
    for k, p in enumerate(parts):
        names = names_by_part(k, p)
        for n in names:
            out["p%d.%s" % (k, n)] = c18.read(p, n)
    return out


def eval_args(case, ctx):
    from cr.cube.cube import Cube, CubeSet
    findings = []
    resp0, tr0, nperm = args_build(case)
    rng = random.Random(case["seed"] ^ 0xa465)
    pop, mb = case["population"], case["min_base"]
    desc = "kinds=%s dimensions=%s transforms=%s first-user=%s" % (
        case["kinds"], sc.jdump([{"class": d["type"]["class"], "listed": [e["id"] for e in d["type"].get("categories", d["type"].get("elements", []))],
                                  "order": d["type"].get("order")} for d in resp0["result"]["dimensions"]])[:500],
        json.dumps(tr0), case["first"])

    def user(resp, tr):
        if case["first"] == "set":
            return CubeSet([resp], [tr], pop, mb)
        return Cube(resp, transforms=tr, population=pop, mask_size=mb)

    kind = case["first"]
    picked = {}

    def names_by_part(k, p):
        key = (k, type(p).__name__)
        if key not in picked:
            names = [n for n in c18.public_reads(p) if n not in ("pairwise_significance_tests",)]
            r2 = random.Random(case["seed"] ^ (k + 1))
            r2.shuffle(names)
            core = [n for n in ("shape", "counts", "row_labels", "column_labels", "row_proportions", "table_proportions",
                                "dimension_types", "rows_margin", "unweighted_counts", "name", "rows_dimension_type") if n in names]
            picked[key] = core + [n for n in names if n not in core][:case["nreads"]]
        return picked[key]

    try:
        want = fingerprint(user(copy.deepcopy(resp0), copy.deepcopy(tr0)), kind, names_by_part)
    except Exception as e:  # noqa
        ctx.count("args-fresh-raises")
        return [], None
    R, T = copy.deepcopy(resp0), copy.deepcopy(tr0)
    base = stripped(resp0)
    mutated = None
    differs = None
    for rnd in range(3):
        try:
            u = user(R, T)                       # the SAME response / transforms objects every round
        except Exception as e:  # noqa
            differs = "constructing user #%d on the used response raises %s, a fresh one does not" % (rnd + 1, type(e).__name__)
            break
        d = first_diff(base, stripped(R))
        if d and mutated is None:
            mutated = (d, "constructing user #%d" % (rnd + 1))
        got = fingerprint(u, kind, names_by_part)
        ok, where = common.deep_close(got, want)
        if not ok and differs is None:
            # name the most telling difference first
            who = "user #%d (%s) built on the already used response dict" % (rnd + 1, "CubeSet([resp])" if kind == "set" else "Cube(resp)")
            differs = "%s differs from a fresh one on a pristine copy at %s" % (who, where)
            for k0 in ("cube.dimension_types", "partition-kinds", "cube.ndim", "p0.shape", "p0.counts", "p0.row_labels", "p0.column_labels"):
                if k0 in got or k0 in want:
                    ok0, _ = common.deep_close(got.get(k0), want.get(k0))
                    if not ok0:
                        differs = "%s reports %s = %s, a fresh one on a pristine copy %s (first difference: %s)" % (
                            who, k0, sc.jdump(got.get(k0))[:200], sc.jdump(want.get(k0))[:200], where[:80])
                        break
        d = first_diff(base, stripped(R))
        if d and mutated is None:
            mutated = (d, "the reads of user #%d" % (rnd + 1))
        if differs:
            break
    # ... and the JSON text of the response as it is NOW must still describe the same cube (what a caller who
    # serialises its dict after use would send next time)
    if differs is None and mutated is None:
        try:
            again = fingerprint(user(json.loads(json.dumps(R)), copy.deepcopy(tr0)), kind, names_by_part)
            ok, where = common.deep_close(again, want)
            if not ok:
                differs = "a user built on the JSON round-trip of the used response differs from a fresh one at %s" % where
        except Exception:  # noqa
            pass
    if differs:
        tag = diff_class(mutated[0]) if mutated else "no-visible-edit"
        findings.append(F("spec", "args.reuse-response.differs-from-fresh:%s" % tag,
                          "%s: %s%s" % (desc, differs, "; the caller's response dict was edited in place by %s at %s" % (
                              mutated[1], mutated[0]) if mutated else "")))
    elif mutated:
        findings.append(F("model", "args.response-mutated:%s" % diff_class(mutated[0]),
                          "%s: the caller's response dict is no longer deep-equal to a pristine copy (beyond subvar_alias / "
                          "datetime_value) after %s: %s; no difference from a fresh evaluation was observed" % (desc, mutated[1], mutated[0])))
    ctx.count("args-fam:%s" % case["fam"])
    ctx.count("args-permuted-typedefs", nperm)
    ctx.count("args-first:%s" % case["first"])
    try:
        ctx.count("args-types:%s" % "x".join(want.get("cube.dimension_types", want.get("set.dimension_types", ["?"])) if kind != "set" else ["set"]))
    except Exception:  # noqa
        pass
    key = ("args", tuple(case["kinds"]), sc.jdump([(d["type"].get("order"), [e["id"] for e in d["type"].get("categories", d["type"].get("elements", []))])
                                                    for d in resp0["result"]["dimensions"]]), case["first"]) if nperm else None
    return findings, key


# ---------------------------------------------------------------------------------------


def generate(ctx):
    rng = ctx.rng
    cases = []
    for _ in range(ctx.n(32, 250)):
        cases.append(gen_env(rng))
    for _ in range(ctx.n(64, 500)):
        cases.append(gen_args(rng))
    return cases


def lean_ops(case):
    return []


def describe(case):
    return {k: case[k] for k in ("t", "fam", "kinds", "config", "zero", "first", "data_perm", "list_perm") if k in case}


def shrink_candidates(case):
    if case["t"] == "env":
        if case.get("with_set"):
            yield dict(case, with_set=False)
        if case.get("ncubes", 1) > 1:
            yield dict(case, ncubes=1)
        if case.get("nextra", 0) > 0:
            yield dict(case, nextra=0)
    else:
        if case.get("first") == "set":
            yield dict(case, first="cube")
        if case.get("nreads", 0) > 5:
            yield dict(case, nreads=5)
        if len(case["kinds"]) > 1 and case.get("fam") == "sel":
            for k in case["kinds"]:
                if k in ("casel", "mr", "logical"):
                    yield dict(case, kinds=[k])


def evaluate(case, louts, ctx):
    ctx.count("cases:" + case["t"])
    try:
        if case["t"] == "env":
            return eval_env(case, ctx)
        return eval_args(case, ctx)
    except common.HarnessFault:
        raise
    except Exception as e:  # noqa
        import traceback
        tb = traceback.extract_tb(e.__traceback__)
        lib = [fr for fr in tb if "/cr/cube/" in fr.filename]
        if not lib or "c18_env" in tb[-1].filename:
            raise
        return [F("spec", "%s.library-raises" % case["t"], "%s: %s at %s:%d (%s)" % (
            type(e).__name__, e, lib[-1].filename.split("/cr/cube/")[-1], lib[-1].lineno, lib[-1].name))], None
