"""Shared pieces of the C01/C02 extension modules `c01_arr` / `c02_arr`: cubes in which a categorical array (CA) is
crossed with another variable, the transposed (categories x items) CA layout, and CA-as-0th strands.

layouts (Lean: Props/C01_Arr.lean, Props/C02_Arr.lean, Driver/Arr.lean)
    tXca   vars = [T, A]    T cat-like or MR; partition k = valid element k of T           ARR x CAT slice
    caXx   vars = [A, X]    X cat-like or MR; partition k = valid item k of A              CAT x CAT / CAT x MR slice
    ca     vars = [A]       one slice                                                      ARR x CAT
    caT    vars = [A]^T     payload categories x items, one slice                          CAT x ARR
    caTXx  vars = [A^T, X]  partition k = valid CATEGORY k of A                            ARR x CAT / ARR x MR slice
    tXcaT  vars = [T, A^T]  partition k = valid element k of T                             CAT x ARR slice
    ca0    vars = [A]       `cube_idx=0` (CA-as-0th): strand k = valid item k

Three renderings of every number are compared:
    * the library (public API of every partition, and the `_BaseCubeCounts` object at its own seam),
    * the Lean SPEC value (`arr_spec`: `specCount` with the reading the theorems prove)      -> finding kind "spec",
    * the Lean MODEL (`arr_model`: `sliceCounts` / `sliceCountsT` / `strandCountsCA0`)         -> finding kind "model",
and a plain-Python respondent-level oracle written from the property text must agree with the Lean spec (else harness
fault: the two renderings of the statement disagree).
"""
from fractions import Fraction
import gen
import common

LAYOUTS = ["tXca", "tXca", "tXca", "caXx", "caXx", "caXx", "ca", "caT", "caT", "caTXx", "caTXx", "tXcaT", "tXcaT", "ca0"]
PARTNER_KINDS = ["cat", "cat", "mr", "mr", "mr", "mr", "cat_date", "datetime", "text", "binned"]
XTR_ATTRS = ["counts", "row_bases", "column_bases", "table_bases", "rows_base", "columns_base", "rows_table_base",
             "columns_table_base", "table_base", "rows_pruning_mask", "columns_pruning_mask"]
CLS = {("mr", "mr"): "_MrXMrCubeCounts", ("mr", "arr"): "_MrXArrCubeCounts", ("mr", "cat"): "_MrXCatCubeCounts",
       ("arr", "mr"): "_ArrXMrCubeCounts", ("arr", "arr"): "_ArrXArrCubeCounts", ("arr", "cat"): "_ArrXCatCubeCounts",
       ("cat", "mr"): "_CatXMrCubeCounts", ("cat", "arr"): "_CatXArrCubeCounts", ("cat", "cat"): "_CatXCatCubeCounts"}
# which 1-D margins / scalar the extractor class defines (Model/CubeCounts.lean; C02.margins_collapse,
# C02.cmXca_margins, C02.caT_margins)
ROWS_BASE_DEFINED = {("cat", "cat"), ("mr", "cat"), ("arr", "cat")}
COLS_BASE_DEFINED = {("cat", "cat"), ("cat", "mr"), ("cat", "arr")}


# ---------------------------------------------------------------------------------------
# generation


def _force_missing_pattern(rng, cats):
    """missing categories at the boundaries that index maps get wrong: first, middle, last, all-but-one"""
    n = len(cats)
    pat = rng.choice(["first", "middle", "last", "first+last", "all-but-one", "none"])
    for c in cats:
        c["missing"] = False
    if pat == "first":
        cats[0]["missing"] = True
    elif pat == "middle" and n >= 3:
        cats[rng.randrange(1, n - 1)]["missing"] = True
    elif pat == "last":
        cats[-1]["missing"] = True
    elif pat == "first+last" and n >= 3:
        cats[0]["missing"] = True
        cats[-1]["missing"] = True
    elif pat == "all-but-one":
        keep = rng.randrange(n)
        for i, c in enumerate(cats):
            c["missing"] = i != keep
    if all(c["missing"] for c in cats):
        cats[rng.randrange(n)]["missing"] = False


def gen_ca(rng, alias):
    v = gen.gen_var(rng, "ca", alias, n=rng.choice([1, 2, 2, 3, 3, 4]), ncat=rng.choice([2, 3, 3, 4, 5]))
    if rng.random() < 0.6:
        _force_missing_pattern(rng, v.cats)
    # missing ITEMS (the first one too); at least one item stays valid
    if len(v.items) >= 2 and rng.random() < 0.35:
        v.items[rng.choice([0, rng.randrange(len(v.items))])]["missing"] = True
    return v


def gen_partner(rng, alias):
    kind = rng.choice(PARTNER_KINDS)
    v = gen.gen_var(rng, kind, alias, n=rng.choice([1, 2, 2, 3, 3, 4]), missing_items=True)
    if kind != "mr" and rng.random() < 0.4:
        _force_missing_pattern(rng, v.cats)
    if kind == "mr" and len(v.items) >= 2 and rng.random() < 0.2:
        for it in v.items:
            it.pop("missing", None)
        v.items[0]["missing"] = True
    return v


def gen_case(rng, mod):
    layout = rng.choice(LAYOUTS)
    A = gen_ca(rng, "a")
    if layout in ("tXca", "tXcaT"):
        vars_ = [gen_partner(rng, "t"), A]
    elif layout in ("caXx", "caTXx"):
        vars_ = [A, gen_partner(rng, "x")]
    else:
        vars_ = [A]
    if layout in ("caT", "caTXx", "tXcaT"):
        A.ca_transposed = True
    weighted = rng.random() < 0.65
    survey = gen.gen_survey(rng, vars_, n_resp=rng.choice([0, 1, 2, 5, 12, 25, 40]), weighted=weighted, tiny=True)
    return {"_mod": mod, "layout": layout, "vars": [v.to_json() for v in vars_],
            "survey": gen.survey_to_json(survey), "weighted": weighted}


def load(case):
    vars_ = [gen.Var.from_json(d) for d in case["vars"]]
    return vars_, gen.survey_from_json(case["survey"])


def ext(v):
    return len(v.valid_item_pos) if v.is_array else len(v.valid_cat_pos)


def nparts(layout, vars_):
    if layout in ("tXca", "tXcaT"):
        return ext(vars_[0])
    if layout in ("caXx", "ca0"):
        return len(vars_[0].valid_item_pos)
    if layout == "caTXx":
        return len(vars_[0].valid_cat_pos)
    return 1


def slice_kinds(layout, vars_):
    """(rows kind, columns kind) of the extractor class the factory must pick"""
    def dk(v):
        return "mr" if v.kind == "mr" else "cat"
    return {"tXca": ("arr", "cat"), "ca": ("arr", "cat"), "caT": ("cat", "arr"), "tXcaT": ("cat", "arr"),
            "caXx": ("cat", dk(vars_[-1])), "caTXx": ("arr", dk(vars_[-1])), "ca0": None}[layout]


def tag(layout, vars_):
    if layout in ("tXca", "tXcaT"):
        return ("mrX" if vars_[0].kind == "mr" else "tX") + layout[2:]
    if layout in ("caXx", "caTXx"):
        return layout[:-1] + ("mr" if vars_[1].kind == "mr" else "cat")
    return layout


def lean_ops(case):
    vars_, survey = load(case)
    layout = case["layout"]
    lv = [v.lean() for v in vars_]
    ls = gen.survey_lean(vars_, survey)
    vs, _ = gen.drop_missing_items(vars_, survey)
    shape = gen.raw_shape(vs)
    wdata = [gen.frac_str(x) for x in gen.tabulate_valid_items(vars_, survey, case["weighted"])]
    udata = [gen.frac_str(x) for x in gen.tabulate_valid_items(vars_, survey, False)]
    ops = [{"op": "arr_cubeof", "layout": layout, "vars": lv, "survey": ls}]
    for k in range(nparts(layout, vars_)):
        ops.append({"op": "arr_spec", "layout": layout, "vars": lv, "survey": ls, "k": k})
        ops.append({"op": "arr_model", "layout": layout, "vars": lv, "shape": shape, "data": wdata, "k": k})
        ops.append({"op": "arr_model", "layout": layout, "vars": lv, "shape": shape, "data": udata, "k": k})
    return ops


# ---------------------------------------------------------------------------------------
# the property text in plain Python (respondent level)


def _member(v, a, e):
    if v.kind == "mr":
        return a[v.valid_item_pos[e]] == 0           # MR_CATS: position 0 = selected
    return a[0] == v.valid_cat_pos[e]


def _valid(v, a, e):
    if v.kind == "mr":
        return a[v.valid_item_pos[e]] in v.valid_cat_pos
    return a[0] in v.valid_cat_pos


def _ca_is(A, a, item_e, cat_e):
    return a[A.valid_item_pos[item_e]] == A.valid_cat_pos[cat_e]


def _ca_valid(A, a, item_e):
    return a[A.valid_item_pos[item_e]] in A.valid_cat_pos


def py_spec(layout, vars_, survey, k, weighted):
    """{counts,row_bases,column_bases,table_bases} (Fractions) or {counts,bases} for ca0"""
    def total(pred):
        return sum(((w if weighted else Fraction(1)) for w, ans in survey if pred(ans)), Fraction(0))
    if layout == "ca0":
        A = vars_[0]
        n = len(A.valid_cat_pos)
        return {"counts": [total(lambda an, i=i: _ca_is(A, an[0], k, i)) for i in range(n)],
                "bases": [total(lambda an: _ca_valid(A, an[0], k)) for _ in range(n)]}
    if layout == "tXca":
        T, A = vars_
        nr, nc = len(A.valid_item_pos), len(A.valid_cat_pos)
        cnt = lambda i, j: (lambda an: _member(T, an[0], k) and _ca_is(A, an[1], i, j))
        row = lambda i, j: (lambda an: _member(T, an[0], k) and _ca_valid(A, an[1], i))
        col, tab = cnt, row
    elif layout == "tXcaT":
        T, A = vars_
        nr, nc = len(A.valid_cat_pos), len(A.valid_item_pos)
        cnt = lambda i, j: (lambda an: _member(T, an[0], k) and _ca_is(A, an[1], j, i))
        col = lambda i, j: (lambda an: _member(T, an[0], k) and _ca_valid(A, an[1], j))
        row, tab = cnt, col
    elif layout == "ca":
        A = vars_[0]
        nr, nc = len(A.valid_item_pos), len(A.valid_cat_pos)
        cnt = lambda i, j: (lambda an: _ca_is(A, an[0], i, j))
        row = lambda i, j: (lambda an: _ca_valid(A, an[0], i))
        col, tab = cnt, row
    elif layout == "caT":
        A = vars_[0]
        nr, nc = len(A.valid_cat_pos), len(A.valid_item_pos)
        cnt = lambda i, j: (lambda an: _ca_is(A, an[0], j, i))
        col = lambda i, j: (lambda an: _ca_valid(A, an[0], j))
        row, tab = cnt, col
    elif layout == "caXx":
        A, X = vars_
        nr, nc = len(A.valid_cat_pos), ext(X)
        cnt = lambda i, j: (lambda an: _ca_is(A, an[0], k, i) and _member(X, an[1], j))
        row = lambda i, j: (lambda an: _ca_is(A, an[0], k, i) and _valid(X, an[1], j))
        col = lambda i, j: (lambda an: _ca_valid(A, an[0], k) and _member(X, an[1], j))
        tab = lambda i, j: (lambda an: _ca_valid(A, an[0], k) and _valid(X, an[1], j))
    elif layout == "caTXx":
        A, X = vars_
        nr, nc = len(A.valid_item_pos), ext(X)
        cnt = lambda i, j: (lambda an: _ca_is(A, an[0], i, k) and _member(X, an[1], j))
        row = lambda i, j: (lambda an: _ca_is(A, an[0], i, k) and _valid(X, an[1], j))
        col, tab = cnt, row
    else:
        raise common.HarnessFault("unknown layout %r" % layout)
    mk = lambda f: [[total(f(i, j)) for j in range(nc)] for i in range(nr)]
    return {"counts": mk(cnt), "row_bases": mk(row), "column_bases": mk(col), "table_bases": mk(tab)}


def _fr(m):
    if isinstance(m, list):
        return [_fr(x) for x in m]
    return Fraction(m)


def check_oracles(case, vars_, survey, louts):
    """tabulator == Lean contract (incl. transposed rendering); Python reading == Lean spec"""
    layout = case["layout"]
    w = [gen.frac_str(x) for x in gen.tabulate_valid_items(vars_, survey, True)]
    u = [gen.frac_str(x) for x in gen.tabulate_valid_items(vars_, survey, False)]
    if louts[0].get("weighted") != w or louts[0].get("unweighted") != u:
        raise common.HarnessFault("python tabulator != Lean cubeOf/cubeOfT on %r" % (case,))
    for k in range(nparts(layout, vars_)):
        sp = louts[1 + 3 * k]
        if "error" in sp:
            raise common.HarnessFault("arr_spec: %s" % sp["error"])
        for wtd, pre in ((True, ""), (False, "u")):
            py = py_spec(layout, vars_, survey, k, wtd)
            for name, val in py.items():
                if _fr(sp[pre + name]) != val:
                    raise common.HarnessFault("python reading != Lean spec: %s%s partition %d layout %s: %r vs %r on %r"
                                              % (pre, name, k, layout, val, sp[pre + name], case))


# ---------------------------------------------------------------------------------------
# library


def make_cube(case):
    from cr.cube.cube import Cube
    vars_, survey = load(case)
    resp = gen.cube_response(vars_, survey, case["weighted"])
    if case["layout"] == "ca0":
        return Cube(resp, cube_idx=0)
    return Cube(resp)


def compare(findings, kind, locus, impl, expected, detail):
    ok, where = common.deep_close(impl, expected)
    if not ok:
        findings.append({"kind": kind, "locus": locus,
                         "detail": "%s: impl%s | impl=%s expected=%s" % (detail, where, _short(impl), _short(expected))})
    return ok


def _short(x):
    s = repr(x)
    return s if len(s) < 300 else s[:300] + "..."


def partitions_or_finding(case, cube, vars_, findings):
    layout = case["layout"]
    tg = tag(layout, vars_)
    want = nparts(layout, vars_)
    got = common.call_impl(lambda: len(cube.partitions))
    if got != want:
        findings.append({"kind": "spec", "locus": "arr.%s.npartitions" % tg, "detail": "%r != %r" % (got, want)})
        return None
    kinds = [type(p).__name__ for p in cube.partitions]
    exp = "_Strand" if layout == "ca0" else "_Slice"
    if any(kd != exp for kd in kinds):
        findings.append({"kind": "spec", "locus": "arr.%s.partition_class" % tg, "detail": "%r, expected %s" % (kinds, exp)})
        return None
    return cube.partitions


def seam_objects(cube, k):
    from cr.cube.matrix.cubemeasure import CubeMeasures
    cm = CubeMeasures(cube, cube.dimensions[-2:], k)
    return cm.weighted_cube_counts, cm.unweighted_cube_counts


def compare_xtr(findings, tg, obj, want, k, which):
    for a in XTR_ATTRS:
        g = common.call_impl(lambda: getattr(obj, a))
        w = common.model_to_float(want.get(a))
        if a.endswith("mask") and isinstance(g, list) and isinstance(w, list):
            g, w = [bool(x) for x in g], [bool(x) for x in w]
        compare(findings, "model", "arr.%s.seam.%s" % (tg, a), g, w, "partition %d %s extractor" % (k, which))


def shrink_candidates(case):
    sv = case["survey"]
    n = len(sv)
    if n > 1:
        yield dict(case, survey=sv[: n // 2])
        yield dict(case, survey=sv[n // 2:])
    for i in range(min(n, 25)):
        yield dict(case, survey=sv[:i] + sv[i + 1:])
    if any(w != "1" for w, _ in sv):
        yield dict(case, survey=[["1", a] for _, a in sv])


def describe(case):
    vars_, survey = load(case)
    return {"layout": case["layout"], "kinds": [v.kind for v in vars_], "raw_shape": gen.raw_shape(vars_),
            "n_respondents": len(survey), "weighted": case["weighted"],
            "missing_flags": [v.cat_missing for v in vars_],
            "missing_items": [[bool(it.get("missing")) for it in v.items] for v in vars_],
            "first_respondents": case["survey"][:3]}
