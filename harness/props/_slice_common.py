"""Shared pieces for the slice-level properties owned by the main thread (C01, C02, C03, C06, C09, C10)."""
from fractions import Fraction
import gen
import common

KINDS = ["cat", "cat", "mr", "mr", "cat_date", "datetime", "text", "binned", "ca"]


def gen_case(rng, ndims=None, kinds=None, max_n=4, n_resp=None, min_base_choices=(0, 1, 2, 3, 5, 10),
             missing_items=True, derived_items=False):
    if kinds is None:
        nd = ndims if ndims is not None else rng.choice([1, 2, 2, 2, 3, 3])
        kinds = [rng.choice(KINDS) for _ in range(nd)]
        if kinds.count("ca") > 1:
            first = kinds.index("ca")
            kinds = [k if k != "ca" or i == first else "cat" for i, k in enumerate(kinds)]
        if "ca" in kinds and nd == 3:
            kinds = kinds[:2]
    vars_ = [gen.gen_var(rng, k, "v%d" % i, n=rng.randint(1, max_n), missing_items=missing_items, derived_items=derived_items) for i, k in enumerate(kinds)]
    weighted = rng.random() < 0.65
    survey = gen.gen_survey(rng, vars_, n_resp=n_resp, weighted=weighted, tiny=True)
    return {"vars": [v.to_json() for v in vars_], "survey": gen.survey_to_json(survey),
            "weighted": weighted, "min_base": rng.choice(list(min_base_choices))}


def load(case):
    vars_ = [gen.Var.from_json(d) for d in case["vars"]]
    survey = gen.survey_from_json(case["survey"])
    return vars_, survey


def n_apparent(vars_):
    return sum(len(v.apparent_kinds()) for v in vars_)


def kinds_of(vars_):
    return sum((v.apparent_kinds() for v in vars_), [])


def nparts(vars_):
    if n_apparent(vars_) < 3:
        return 1
    v = vars_[0]
    return len(v.valid_item_pos) if v.is_array else len(v.valid_cat_pos)


def lean_inputs(case):
    vars_, survey = load(case)
    lv = [v.lean() for v in vars_]
    ls = gen.survey_lean(vars_, survey)
    # the Lean model sees the cube over the VALID array items only (see gen.Var.lean)
    wdata = [gen.frac_str(x) for x in gen.tabulate_valid_items(vars_, survey, case["weighted"])]
    udata = [gen.frac_str(x) for x in gen.tabulate_valid_items(vars_, survey, False)]
    return vars_, survey, lv, ls, wdata, udata


def api_ops(case):
    """ops: per partition [slice_api, slice_spec] (>=2-D) or [strand_api, strand_spec] (1-D)."""
    vars_, survey, lv, ls, wdata, udata = lean_inputs(case)
    ops = []
    if n_apparent(vars_) >= 2:
        for k in range(nparts(vars_)):
            ops.append({"op": "slice_api", "vars": lv, "wdata": wdata, "udata": udata, "k": k,
                        "size": case.get("min_base", 0)})
            ops.append({"op": "slice_spec", "vars": lv, "survey": ls, "k": k})
    else:
        ops.append({"op": "strand_api", "vars": lv, "wdata": wdata, "udata": udata})
        ops.append({"op": "strand_spec", "vars": lv, "survey": ls})
    return ops


def make_cube(case, transforms=None, population=None):
    from cr.cube.cube import Cube
    vars_, survey = load(case)
    resp = gen.cube_response(vars_, survey, case["weighted"])
    kw = {}
    if transforms is not None:
        kw["transforms"] = transforms
    if population is not None:
        kw["population"] = population
    if case.get("min_base"):
        kw["mask_size"] = case["min_base"]
    return Cube(resp, **kw)


def compare(findings, kind, locus, impl, expected, detail_prefix=""):
    ok, where = common.deep_close(impl, expected)
    if not ok:
        findings.append({"kind": kind, "locus": locus,
                         "detail": "%s impl%s | impl=%s expected=%s" % (detail_prefix, where, _short(impl), _short(expected))})
    return ok


def _short(x):
    s = repr(x)
    return s if len(s) < 400 else s[:400] + "..."


def shrink_candidates(case):
    sv = case["survey"]
    n = len(sv)
    if n > 1:
        yield dict(case, survey=sv[: n // 2])
        yield dict(case, survey=sv[n // 2:])
    for i in range(min(n, 25)):
        yield dict(case, survey=sv[:i] + sv[i + 1:])
    if any(w != "1" for w, _ in sv):
        yield dict(case, survey=[["1", a] for _, a in sv])


def describe(case):
    vars_, survey = load(case)
    return {"kinds": [v.kind for v in vars_], "raw_shape": gen.raw_shape(vars_),
            "n_respondents": len(survey), "weighted": case["weighted"],
            "missing_flags": [v.cat_missing for v in vars_], "min_base": case.get("min_base"),
            "first_respondents": case["survey"][:3]}


# ---------------------------------------------------------------------------------------
# transforms helpers


def element_keys(v):
    """keys under which the library addresses the VALID elements of the (first) apparent
    dimension of a variable in transforms (shimmed form for arrays / datetime)."""
    if v.is_array:
        return [it["alias"] for it in v.items if not it.get("missing")]
    if v.kind == "datetime":
        return ["20%02d-01-01T00:00:00" % (i + 1) for i, c in enumerate(v.cats) if not c["missing"]]
    return [c["id"] for c in v.cats if not c["missing"]]


def valid_ids(v):
    return [c["id"] for c in v.cats if not c["missing"]]


def gen_insertions(rng, v, max_n=2, allow_diff=False, allow_hide=True):
    """valid subtotal dicts on a categorical-like variable (ids of valid categories)."""
    ids = valid_ids(v)
    if v.is_array or v.kind in ("datetime", "text", "binned") or not ids:
        return []
    out = []
    for n in range(rng.randint(0, max_n)):
        k = rng.randint(1, min(3, len(ids)))
        args = rng.sample(ids, k)
        anchor = rng.choice(["top", "bottom"] + ids)
        d = {"function": "subtotal", "args": args, "anchor": anchor, "name": "S%d" % n, "id": n + 1}
        if allow_diff and rng.random() < 0.3 and len(ids) > 1:
            d["kwargs"] = {"negative": rng.sample(ids, rng.randint(1, min(2, len(ids))))}
        if allow_hide and rng.random() < 0.15:
            d["hide"] = True
        out.append(d)
    return out
