"""Source-formula tie (shared by cXX_formulas.py extension modules) — the twin of _srctables.py for ARITHMETIC.

`tools/srcformulas.py` TRANSLATES the formula-shaped methods of the working tree (straight-line numpy arithmetic:
z-scores, proportion variances / std-dev / std-err / margins of error, column index, population estimates, pairwise
t and df, effective base, proportions / percentages, strand scale std-dev / std-err) into a Lean file: one `def` per
Python assignment / return over `Val` / `Out`, and a theorem `src_<method> args = <model cell function> args` for ALL
argument values.  The file is regenerated from the tree under test (common.REPO, honours VERIF_REPO) on every run and
compiled with `lake env lean`; the result is cached on the hash of (generated file, Lean sources it imports).  A
theorem that no longer checks is a broken proof obligation (finding kind "model", locus `srcformulas.<formula>`):
the property's behavioural sweep, which runs in the same check, is the failing-input search.  A method the
translator cannot find in straight-line shape yields no obligation and no alarm; it is counted in the evidence
(`srcformulas_unextractable:<formula>`).
"""
import fcntl
import hashlib
import json
import os
import re
import subprocess
import sys

import common

VERIF = common.VERIF
LEAN_DIR = common.LEAN_DIR
sys.path.insert(0, os.path.join(VERIF, "tools"))
import srcformulas  # noqa: E402

ALLOWED_AXIOMS = {"propext", "Classical.choice", "Quot.sound"}
NS = "CrCube.SourceFormulas."
_memo = {}


def _lean_sources_hash():
    h = hashlib.sha256()
    for mod in srcformulas.MODEL_IMPORTS + ["CrCube.Model.Val", "CrCube.Lemmas.ValAlgebra", "CrCube.Spec.CellSpec"]:
        with open(os.path.join(LEAN_DIR, mod.replace(".", "/") + ".lean"), "rb") as fh:
            h.update(fh.read())
    return h.hexdigest()


def run_tie():
    """-> {"theorems": {name: {"ok", "axioms", "detail"}}, "formulas": {formula: {"prop", "theorems": [...], "where": [...]}},
           "unextractable": [{"formula", "prop", "why"}], "lean_file": path}"""
    repo = common.REPO
    if repo in _memo:
        return _memo[repo]
    t = srcformulas.translate(repo)
    src, thms = srcformulas.render(t)
    key = hashlib.sha256((src + "|" + _lean_sources_hash()).encode()).hexdigest()
    cdir = os.path.join(LEAN_DIR, ".lake", "srcformulas")
    os.makedirs(cdir, exist_ok=True)
    cpath = os.path.join(cdir, key + ".json")
    lock = open(os.path.join(cdir, "lock"), "w")
    fcntl.flock(lock, fcntl.LOCK_EX)
    try:
        if os.path.exists(cpath):
            res = json.load(open(cpath))
        else:
            lf = os.path.join(cdir, "SourceFormulas_%s.lean" % key[:16])
            with open(lf, "w") as fh:
                fh.write(src)
            p = subprocess.run(["lake", "env", "lean", lf], cwd=LEAN_DIR, capture_output=True, text=True, timeout=900)
            out = p.stdout + p.stderr
            if "unknown module prefix" in out or ("object file" in out and "does not exist" in out):
                raise common.HarnessFault("srcformulas: Lean library not built (run `lake build CrCube`): " + out[-500:])
            lines = src.split("\n")
            # an error belongs to the last `theorem <name>` / `def src_<name>` at or above its line
            starts = [(i + 1, m.group(2)) for i, l in enumerate(lines)
                      for m in [re.match(r"(theorem|def) (?:src_)?([\w]+)", l)] if m]
            errs = {}
            for m in re.finditer(r"^[^\n]*?:(\d+):\d+: error(?:\([^)]*\))?: (.*?)(?=^\S+:\d+:\d+: |^'CrCube|\Z)", out, re.S | re.M):
                ln = int(m.group(1))
                owner = None
                for s, nm in starts:
                    if s <= ln:
                        owner = nm
                errs.setdefault(owner, []).append(" ".join(m.group(2).split())[:900])
            th = {}
            for nm in thms:
                full = NS + nm
                m = re.search(r"'%s' depends on axioms: \[([^\]]*)\]" % re.escape(full), out, re.S)
                if m:
                    ax = [a.strip() for a in m.group(1).replace("\n", " ").split(",") if a.strip()]
                elif re.search(r"'%s' does not depend on any axioms" % re.escape(full), out):
                    ax = []
                else:
                    ax = None
                ok = ax is not None and set(ax) <= ALLOWED_AXIOMS and nm not in errs
                th[nm] = {"ok": ok, "axioms": ax, "detail": "; ".join(errs.get(nm, []))[:1500]}
            res = {"theorems": th, "lean_file": lf, "rc": p.returncode,
                   "stray_errors": [e for k, v in errs.items() if k not in th for e in v]}
            if p.returncode == 0 or any(not v["ok"] for v in th.values()):
                json.dump(res, open(cpath, "w"))
            else:
                raise common.HarnessFault("srcformulas: lean failed without a failing theorem: " + out[-800:])
    finally:
        fcntl.flock(lock, fcntl.LOCK_UN)
        lock.close()
    forms = {}
    res["theorems"] = dict(res["theorems"])
    for it in t["items"]:
        for nm, msg in (it.get("static_error") or {}).items():
            res["theorems"][nm] = {"ok": False, "axioms": None, "detail": msg}
    for it in t["items"]:
        f = forms.setdefault(it["formula"], {"prop": it["prop"], "theorems": [], "where": []})
        f["theorems"] += it["theorems"]
        f["where"].append(it["where"])
    res["formulas"] = forms
    res["unextractable"] = t["unextractable"]
    _memo[repo] = res
    return res


def make_module(prop, formula_names, what):
    """contract functions for an extension module claiming the generated theorems of `formula_names`"""

    def generate(ctx):
        return [{"kind": "srcformulas", "formulas": list(formula_names)}]

    def lean_ops(case):
        return []

    def evaluate(case, louts, ctx):
        res = run_tie()
        findings = []
        n_ok = 0
        why = {u["formula"]: u["why"] for u in res["unextractable"]}
        for fn in case["formulas"]:
            f = res["formulas"].get(fn)
            if f is None:
                ctx.count("srcformulas_unextractable:%s(%s)" % (fn, why.get(fn, "not in the tie")))
                continue
            for nm in f["theorems"]:
                th = res["theorems"].get(nm)
                if th is not None and th["ok"]:
                    n_ok += 1
                    ctx.count("srcformulas_theorems_checked")
                    ctx.count("srcformulas_checked:%s%s(axioms=%s)" % (NS, nm, "+".join(th["axioms"]) or "none"))
                else:
                    findings.append({"kind": "model", "locus": "srcformulas." + fn,
                                     "detail": "generated theorem %s%s (arithmetic of %s in %s = the model's cell function) no longer "
                                               "checks: %s (axioms %s); file %s" % (
                                                   NS, nm, "; ".join(f["where"]), common.REPO,
                                                   (th or {}).get("detail") or "no result", (th or {}).get("axioms"),
                                                   res.get("lean_file"))})
        return findings, ("srcformulas", n_ok) if n_ok else None

    def describe(case):
        return {"kind": "srcformulas", "formulas": case["formulas"], "what": what}

    return generate, lean_ops, evaluate, describe


def module_for(prop, what):
    names = [f["name"] for f in srcformulas.FORMULAS if f["prop"] == prop]
    return (names,) + make_module(prop, names, what)
