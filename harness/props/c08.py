"""C08 — sort-by-value ordering is monotone in the requested measure.

Seams
  col : the REAL `SortByValueCollator` on REAL `Dimension` objects with synthetic value vectors
        (ties, NaN, +-inf, labels), fixed top/bottom lists (repeats, overlap, stale ids), hidden /
        pruned elements, subtotals; both formats.  impl vs Lean model (exact mirror of the tuple
        sort) AND the property predicate `Spec.sortCheck` applied to the order the library returns.
  api : real cube responses: `_Slice.row_order/column_order`, `_Strand.row_order` under
        opposing_element / opposing_insertion / marginal / label / univariate_measure transforms,
        judged JOINTLY with the public measure the keyword names (read from a twin partition that
        carries the same insertions but no order/hide/prune): the PROPERTY is evaluated by Lean on
        (reported order, reported public values); unresolvable keys must give the anchored payload
        order (Lean `specSigned`).
"""
import copy
import itertools
import math
from fractions import Fraction

import gen
import common
from props import _order_common as oc

PROPERTY = "C08"
LEAN_MODULE = ["CrCube.Props.C08", "CrCube.Props.C08_ViewIns"]
THEOREMS = [
    "CrCube.C08.valOps_total", "CrCube.C08.valOps_trans", "CrCube.C08.strOps_total", "CrCube.C08.strOps_trans",
    "CrCube.C08.sortIdxs_split", "CrCube.C08.body_sorted", "CrCube.C08.body_members", "CrCube.C08.body_nodup",
    "CrCube.C08.nan_last_payload", "CrCube.C08.subs_sorted", "CrCube.C08.subs_members", "CrCube.C08.subs_nodup",
    "CrCube.C08.groups", "CrCube.C08.order_nodup_sort", "CrCube.C08.mem_sortOrderSigned",
    "CrCube.C08.visible_iff_sort", "CrCube.C08.subs_all_present", "CrCube.C08.groups_unfixed_counterexample",
    "CrCube.C08.fallback", "CrCube.C08.resolved", "CrCube.C08.fallback_eq_spec", "CrCube.C08.surrogate_monotone",
    "CrCube.C08.surrogate_monotone_spec", "CrCube.C08.scale_monotone", "CrCube.C08.scale_monotone_fin",
    "CrCube.C08.sort_check_ok", "CrCube.C08.dedup_nodup", "CrCube.C08.dedup_mem", "CrCube.C08.fixedIdxs_spec",
    "CrCube.C08.keyword_tables",
    # C08_ViewIns: the opposing-insertion key is resolved in the EFFECTIVE subtotals (transform list over view list)
    "CrCube.C08.resolve_names_requested", "CrCube.C08.resolve_none_iff", "CrCube.C08.resolve_some_of_mem",
    "CrCube.C08.resolve_view_free", "CrCube.C08.colOrder_by_insertion", "CrCube.C08.colOrder_unresolved",
    "CrCube.C08.rowOrder_by_insertion", "CrCube.C08.rowOrder_unresolved", "CrCube.C08.view_resolution_counterexample",
]
RULE = ("col seam: random categorical dimensions (1-6 elements, 0-3 subtotals) x value vectors from a small pool "
        "(ties, NaN, +-inf, negative, fractions; labels incl. case/empty) x fixed top/bottom id lists (repeats, "
        "overlap, stale) x hidden/prune/empties x direction; plus the enumerated scope (thorough: every top list "
        "and bottom list of length <=2 over ids+stale x every hidden subset x both directions x value patterns "
        "on <=4 elements and <=2 subtotals; quick: a subsample). api seam: cat/MR rows x cat/MR columns, a "
        "categorical array in both renderings (CA_SUBVAR x CA_CAT, CA_CAT x CA_SUBVAR) and strands, with every "
        "supported measure / marginal keyword, opposing_element and opposing_insertion keys naming a category, a "
        "subtotal or a sub-variable of array columns (alias / element id / sub-variable id spellings), unknown "
        "element / insertion ids, unknown and absent measures; view-insertions family: categorical variables carry "
        "insertions in references.view.transform and the dimension transform re-declares its own `insertions` (same "
        "subtotals in another order, a subset, a superset with new ids, the same ids re-defined, disjoint ids, id-less, "
        "empty, or absent) on the sorted and on the opposing dimension, keys naming an effective subtotal, a view-only "
        "subtotal (unresolvable) or an unknown id. non-trivial = >=2 displayed entries and (two distinct non-NaN sort values or a fixed "
        "id or a NaN); distinct = distinct (seam, collation, keyword, order, direction) key")
ASSUMPTIONS = [
    "element ids of a dimension are pairwise distinct; one sort value per valid element",
    "ties are unconstrained by the property (N6): public values that differ by float noise only (rel 1e-13) are merged "
    "before judging monotonicity; distinct keys however close (k vs k+2^-30) or tiny (x 2^-40) are judged",
    "keywords the library rejects with NotImplementedError (median, pairwise_t_test, smoothed_*) and order dicts "
    "lacking 'measure'/'element_id' (KeyError) are outside the property's fallback clause and not generated",
    "population sort is run with population > 0 and no filter (population fraction 1) and without difference subtotals",
    "api seam with a multiple-response dimension takes the pruning mask from the library (emptiness is C09)",
]
TRUSTED_EXTRA = ["keyword -> public property table in harness/props/c08.py (MATRIX_PUBLIC, MARGINAL_PUBLIC, STRIPE_PUBLIC)"]
EXHAUSTIVE = True

MATRIX_PUBLIC = {
    "col_base_unweighted": "column_unweighted_bases", "col_base_weighted": "column_weighted_bases",
    "col_index": "column_index", "col_percent": "column_proportions", "col_percent_moe": "column_proportions_moe",
    "col_share_sum": "column_share_sum", "col_std_dev": "column_std_dev", "col_std_err": "column_std_err",
    "mean": "means", "population": "population_counts", "population_moe": "population_counts_moe",
    "p_value": "pvals", "row_base_unweighted": "row_unweighted_bases", "row_base_weighted": "row_weighted_bases",
    "row_percent": "row_proportions", "row_percent_moe": "row_proportions_moe", "row_share_sum": "row_share_sum",
    "row_std_dev": "row_std_dev", "row_std_err": "row_std_err", "stddev": "stddev", "sum": "sums",
    "table_percent": "table_proportions", "table_percent_moe": "table_proportions_moe",
    "table_std_dev": "table_std_dev", "table_std_err": "table_std_err",
    "table_base_unweighted": "table_unweighted_bases", "table_base_weighted": "table_weighted_bases",
    "total_share_sum": "total_share_sum", "count_unweighted": "unweighted_counts", "count_weighted": "counts",
    "z_score": "zscores",
}
MARGINAL_PUBLIC = {
    "unweighted_base": "rows_base", "weighted_base": "rows_margin", "table_proportion": "rows_margin_proportion",
    "scale_mean": "rows_scale_mean", "scale_mean_stddev": "rows_scale_mean_stddev",
    "scale_mean_stderr": "rows_scale_mean_stderr", "scale_median": "rows_scale_median",
}
STRIPE_PUBLIC = {
    "base_unweighted": "unweighted_bases", "base_weighted": "weighted_bases", "count_unweighted": "unweighted_counts",
    "count_weighted": "weighted_counts", "mean": "means", "percent": "table_proportions",
    "percent_moe": "table_proportion_moes", "percent_stddev": "table_proportion_stddevs",
    "percent_stderr": "table_proportion_stderrs", "population": "population_counts",
    "population_moe": "population_counts_moe", "share_sum": "share_sum", "sum": "sums",
}
NEEDS = {"mean": "mean", "means": "mean", "sum": "sum", "stddev": "stddev", "col_share_sum": "sum",
         "row_share_sum": "sum", "total_share_sum": "sum", "share_sum": "sum"}

VAL_POOL = [0, 1, 1, 2, 2, 3, -1, "1/2", "3/2", "nan", "nan", "inf", "-inf", 10]
EPS30 = Fraction(1, 2 ** 30)           # distinct keys closer than 1e-8, far above float noise, exact in binary64
TINY40 = Fraction(1, 2 ** 40)          # everything on a tiny exact scale


def _regime(rng, vals):
    """re-scale / perturb the finite values of a value vector (exactly representable results)."""
    r = rng.random()
    if r < 0.70:
        return vals
    out = []
    for k, v in enumerate(vals):
        if v in ("nan", "inf", "-inf"):
            out.append(v)
        elif r < 0.82:
            out.append(gen.frac_str(Fraction(v) * TINY40))                     # tiny scale
        elif r < 0.94:
            out.append(gen.frac_str(Fraction(v) + rng.choice([-2, -1, 0, 1, 2, 3]) * EPS30))   # close pairs
        else:
            out.append(gen.frac_str((Fraction(v) + rng.choice([0, 1, 2]) * EPS30) * TINY40 * 1024))
    return out


LABEL_POOL = ["a", "b", "B", "", "ab", "abc", "b", "Z", "nan"]
EX_IDS = [2, 5, 3, 7]
STALE = 9


def _tofloat(v):
    if v == "nan":
        return float("nan")
    if v == "inf":
        return float("inf")
    if v == "-inf":
        return float("-inf")
    return float(Fraction(v))


# ---------------------------------------------------------------------------------------
# generation


def _col_case(elems, ins, hide, prune, empties, top, bottom, desc, kind, vals, svals, ex=False):
    order = {"type": "label", "fixed": {"top": top, "bottom": bottom}}
    if desc is not None:
        order["direction"] = "descending" if desc else "ascending"
    dim = {"view": None, "insertions": ins, "hide": hide, "prune": prune, "order": order}
    return {"seam": "col", "elems": elems, "dim": dim, "empties": empties, "kind": kind, "vals": vals,
            "svals": svals, "ex": ex}


def _exhaustive(ctx):
    rng = ctx.rng
    full = not ctx.quick
    cases = []
    e1, e2 = gen.frac_str(1 + EPS30), gen.frac_str(1 + 2 * EPS30)
    t1, t2, t3 = gen.frac_str(TINY40), gen.frac_str(2 * TINY40), gen.frac_str(3 * TINY40)
    patterns = {1: [[1]], 2: [[1, 2], [2, 2], ["nan", 1], [e1, 1], [1, e1], [t2, t1]],
                3: [[1, 3, 2], [2, 2, 1], [1, "nan", 1], [e1, e2, 1], [t1, t3, t2]],
                4: [[1, 3, 2, 4], [2, "nan", 2, 1], [e1, 1, e2, 1], [t2, t1, t3, t1]]}
    for n in (1, 2, 3, 4):
        ids = EX_IDS[:n]
        alpha = ids + [STALE]
        lists = [[]] + [[a] for a in alpha] + [[a, b] for a in alpha for b in alpha]
        hids = [list(c) for k in range(n + 1) for c in itertools.combinations(range(n), k)]
        for nsub in (0, 1, 2):
            sv_pats = {0: [[]], 1: [[5]], 2: [[5, 6], ["nan", 5]]}[nsub]
            ins = [{"anchor": "top", "id": k + 1, "args": [ids[0]], "neg": [], "kind": "ok"} for k in range(nsub)]
            for top in lists:
                for bottom in lists:
                    for h in hids:
                        for desc in (True, False):
                            if not full and rng.random() >= 0.012:
                                continue
                            vals = rng.choice(patterns[n]) if (n == 4 or not full) else None
                            for v in ([vals] if vals is not None else patterns[n]):
                                cases.append(_col_case([{"id": i} for i in ids], ins, [ids[i] for i in h], False, [],
                                                       top, bottom, desc, "num", v, rng.choice(sv_pats), ex=True))
    if full:
        ctx.count("exhaustive_done")
    ctx.count("enumerated_cases", len(cases))
    return cases


def _gen_col(rng):
    n = rng.choice([1, 2, 3, 3, 4, 4, 5, 6])
    all_ids = rng.sample(range(1, 3 * n + 3), n)
    elems = [{"id": i, "missing": rng.random() < 0.15} for i in all_ids]
    ids = [e["id"] for e in elems if not e["missing"]]
    ins = oc.rand_insertions(rng, ids, all_ids, rng.randint(0, 3), idless=0.2, bad=0.1, words=False)
    m = len([i for i in ins if oc.ins_valid(i, ids)])
    pool = all_ids + [max(all_ids) + 5]
    top = [rng.choice(pool) for _ in range(rng.choice([0, 0, 1, 2, 3]))]
    bottom = [rng.choice(pool) for _ in range(rng.choice([0, 0, 1, 2, 3]))]
    if top and rng.random() < 0.3:
        bottom.append(rng.choice(top))
    kind = rng.choice(["num", "num", "num", "str"])
    nv = len(ids)
    if kind == "num":
        vals = _regime(rng, [rng.choice(VAL_POOL) for _ in range(nv)])
        svals = _regime(rng, [rng.choice(VAL_POOL) for _ in range(m)])
    else:
        vals = [rng.choice(LABEL_POOL) for _ in range(nv)]
        svals = [rng.choice(LABEL_POOL) for _ in range(m)]
    desc = rng.choice([True, False, None])
    return _col_case(elems, ins, [i for i in all_ids if rng.random() < 0.2], rng.random() < 0.5,
                     [i for i in range(nv) if rng.random() < 0.2], top, bottom, desc, kind, vals, svals)


def _rand_ins_simple(rng, ids, n, diff=True):
    out = []
    used = set()
    for k in range(n):
        iid = rng.choice([j for j in range(1, 9) if j not in used])
        used.add(iid)
        neg = rng.sample(ids, 1) if (diff and rng.random() < 0.15) else []
        out.append({"anchor": rng.choice(["top", "bottom"] + ids), "id": iid,
                    "args": rng.sample(ids, rng.randint(1, min(2, len(ids)))), "neg": neg, "kind": "ok",
                    "kw": rng.random() < 0.3})
    return out


def _view_ins(rng, ids, n):
    """n view-level insertions; ids either a permutation of 1..n(+1) (so that "id" and "position + 1" are easily
    confused) or scattered in 1..8."""
    out = _rand_ins_simple(rng, ids, n)
    if rng.random() < 0.6:
        for i, iid in zip(out, rng.sample(range(1, n + 2), n)):
            i["id"] = iid
    return out


REDECLARE = ["none", "perm", "perm", "perm", "perm", "subset", "superset", "superset", "redefine", "disjoint", "idless",
             "idless", "empty"]


def _redeclare(rng, view, ids):
    """transform-level `insertions` of a dimension whose variable carries `view` insertions: the transform list
    overrides the view (it may list the same subtotals in another order, drop some, add new ones, re-define an id,
    use other ids altogether, leave the ids out - numbered 1.. by position then - or be empty); None = no
    `insertions` key, the view applies.  Returns (mode, list | None)."""
    mode = rng.choice(REDECLARE)
    used = {i["id"] for i in view}

    def fresh(k):
        new = _rand_ins_simple(rng, ids, k)
        free = [j for j in range(1, 13) if j not in used]
        for i in new:
            i["id"] = free.pop(rng.randrange(len(free)))
            used.add(i["id"])
        return new
    if mode == "none":
        return mode, None
    if mode == "empty":
        return mode, []
    cur = [dict(i) for i in view]
    if mode == "perm":
        if len(cur) >= 2:
            k = rng.randrange(1, len(cur))
            cur = cur[k:] + cur[:k]
            if rng.random() < 0.5:
                cur.reverse()
                if [i["id"] for i in cur] == [i["id"] for i in view]:
                    cur = cur[1:] + cur[:1]
        else:
            mode = "superset"
    if mode == "subset":
        if len(cur) >= 2:
            del cur[rng.randrange(len(cur))]
            rng.shuffle(cur)
        else:
            mode = "superset"
    if mode == "superset":
        for i in fresh(rng.randint(1, 2)):
            cur.insert(rng.randint(0, len(cur)), i)
        if rng.random() < 0.4:
            rng.shuffle(cur)
    elif mode == "redefine":
        new = _rand_ins_simple(rng, ids, len(cur))
        cur = [dict(n, id=c["id"]) for n, c in zip(new, cur)]
        if rng.random() < 0.5:
            cur.reverse()
    elif mode == "disjoint":
        cur = fresh(rng.randint(1, 3))
    elif mode == "idless":
        rng.shuffle(cur)
        if rng.random() < 0.4:
            cur += _rand_ins_simple(rng, ids, 1)
        cur = [dict(i, id=None) for i in cur]
    return mode, cur


def _eff_ins(dd, valid):
    """[(insertion id, compact insertion)] of the EFFECTIVE subtotals of a dimension, in the order the library lists
    them (`Dimension.subtotals`): the transform's `insertions` when the key is present, else the variable view's.
    Transform insertions without ids are numbered 1.. by position among the valid ones (all-or-none in the
    generators); view insertions always carry ids here."""
    src = dd.get("insertions")
    if src is None:
        src = dd.get("view") or []
    ok = [i for i in src if oc.ins_valid(i, valid)]
    return [(i["id"] if i.get("id") is not None else k + 1, i) for k, i in enumerate(ok)]


class _AD:
    """one apparent dimension of the cube: kind cat | mr | casub | cacat."""

    def __init__(self, kind, var):
        self.kind = kind
        self.var = var
        self.is_arr = kind in ("mr", "casub")            # element ids are sub-variable aliases
        if self.is_arr:
            self.ids = [it["alias"] for it in var.items]
            self.elems = [{"id": it["alias"], "name": it["name"]} for it in var.items]
        else:
            self.ids = [c["id"] for c in var.cats if not c["missing"]]
            self.elems = [{"id": c["id"], "missing": c["missing"], "name": c["name"]} for c in var.cats]

    def arr_index(self, spelled):
        """offset of the sub-variable a key id names (alias, element id or sub-variable id), else None."""
        for k, it in enumerate(self.var.items):
            if spelled == it["alias"] or (isinstance(spelled, int) and not isinstance(spelled, bool)
                                          and spelled == it["id"]) or spelled == it["subvar_id"]:
                return k
        return None


def _adims(vars_):
    out = []
    for v in vars_:
        if v.kind == "mr":
            out.append(_AD("mr", v))
        elif v.kind == "ca":
            pair = [_AD("casub", v), _AD("cacat", v)]
            out.extend(pair[::-1] if v.ca_transposed else pair)
        else:
            out.append(_AD("cat", v))
    return out


def _ids_of(ad):
    return ad.ids


def _gen_api(rng, view=False):
    """view=True: the view-insertions family - categorical variables carry insertions in `references.view.transform`
    and the dimension transform re-declares (or not) its own `insertions` list (see `_redeclare`); sort keys are
    biased towards `opposing_insertion` naming an effective subtotal, a view-only subtotal (unresolvable) or 99."""
    nd = rng.choice([1, 2, 2, 2]) if not view else rng.choice([1, 2, 2, 2])
    if view:
        kinds = ["cat" if rng.random() < 0.85 else "mr" for _ in range(nd)]
        vars_ = [gen.gen_var(rng, k, "v%d" % i, n=rng.randint(2, 5), numeric="all" if rng.random() < 0.5 else "some")
                 for i, k in enumerate(kinds)]
    elif nd == 2 and rng.random() < 0.22:
        # one categorical-array variable: CA_SUBVAR x CA_CAT, or category-first CA_CAT x CA_SUBVAR
        v = gen.gen_var(rng, "ca", "v0", n=rng.randint(1, 4), ncat=rng.randint(2, 5),
                        numeric="all" if rng.random() < 0.5 else "some")
        v.ca_transposed = rng.random() < 0.65
        vars_ = [v]
    else:
        kinds = [rng.choice(["cat", "cat", "cat", "mr"]) for _ in range(nd)]
        vars_ = [gen.gen_var(rng, k, "v%d" % i, n=rng.randint(1, 5), numeric="all" if rng.random() < 0.5 else "some")
                 for i, k in enumerate(kinds)]
    ads = _adims(vars_)
    survey = gen.survey_to_json(gen.gen_survey(rng, vars_, n_resp=rng.choice([0, 4, 12, 30, 30]), weighted=rng.random() < 0.6, tiny=True))
    axis = 0 if nd == 1 else (rng.choice([0, 0, 1]) if not view else rng.choice([0, 1]))
    extra = [m for m in ("mean", "sum", "stddev") if rng.random() < 0.3]
    sv, ov = ads[axis], (ads[1 - axis] if nd == 2 else None)
    sids = _ids_of(sv)
    dims = []
    for a, v in enumerate(ads):
        d = {"view": None, "insertions": None, "hide": [], "prune": False, "order": None}
        if not v.is_arr:
            vi = _ids_of(v)
            if vi and rng.random() < 0.75:
                d["insertions"] = _rand_ins_simple(rng, vi, rng.randint(1, 3))
        vi = _ids_of(v)
        if view and not v.is_arr and vi and rng.random() < 0.85:
            d["view"] = _view_ins(rng, vi, rng.choice([1, 2, 2, 3, 3]))
            d["redeclare"], d["insertions"] = _redeclare(rng, d["view"], vi)
            v.var.view_insertions = [oc.ins_real(k, i) for k, i in enumerate(d["view"])]
        d["hide"] = [i for i in vi if rng.random() < 0.15]
        d["prune"] = rng.random() < (0.3 if not view else 0.15)
        dims.append(d)
    # the order transform of the sorted axis
    # array dimensions: a negative number is neither an element id nor a zero-based position (round 5: it must not
    # wrap around to an item counted from the end)
    stale = (max([i for i in sids if isinstance(i, int)] + [0]) + 7) if not sv.is_arr else rng.choice(["zz9", "zz9", -1, "-1", -3])
    pool = sids + [stale]
    fixed = {}
    if rng.random() < 0.5:
        fixed["top"] = [rng.choice(pool) for _ in range(rng.randint(1, 2))]
    if rng.random() < 0.5:
        fixed["bottom"] = [rng.choice(pool) for _ in range(rng.randint(1, 2))]
    order = {}
    if fixed:
        order["fixed"] = fixed
    r = rng.random()
    if r < 0.4:
        order["direction"] = "ascending"
    elif r < 0.7:
        order["direction"] = "descending"
    if nd == 1:
        if rng.random() < 0.2:
            order["type"] = "label"
        else:
            order["type"] = "univariate_measure"
            order["measure"] = rng.choice(list(STRIPE_PUBLIC) + ["foo"])
    else:
        oids = _ids_of(ov)
        types = ["opposing_element"] * 4 + ["label"] + (["marginal"] * 3 if axis == 0 else [])
        if not ov.is_arr and dims[1 - axis]["insertions"]:
            types += ["opposing_insertion"] * 4
        if view and not ov.is_arr and dims[1 - axis]["view"]:
            types += ["opposing_insertion"] * 14
        if ov.is_arr and axis == 0:
            # rows sorted by a "derived column": insertion_id names a sub-variable of the array columns
            types += ["opposing_insertion"] * 6
        t = rng.choice(types)
        order["type"] = t

        def spell(ad):
            it = rng.choice(ad.var.items)
            return rng.choice([it["alias"], it["alias"], it["id"], it["subvar_id"]])
        if t == "opposing_element":
            ostale = (max([i for i in oids if isinstance(i, int)] + [0]) + 7) if not ov.is_arr else rng.choice(["zz9", "zz9", -1, "-1", -3])
            if ov.is_arr:
                order["element_id"] = spell(ov) if rng.random() < 0.85 else ostale
            else:
                order["element_id"] = rng.choice(oids + oids + oids + [ostale]) if oids else ostale
            order["measure"] = rng.choice(list(MATRIX_PUBLIC) + ["foo"])
        elif t == "opposing_insertion" and ov.is_arr:
            order["insertion_id"] = spell(ov) if rng.random() < 0.85 else "zz9"
            order["measure"] = rng.choice(list(MATRIX_PUBLIC))
        elif t == "opposing_insertion":
            if view:
                iids = [k for k, _ in _eff_ins(dims[1 - axis], oids)]
                vids = [i["id"] for i in dims[1 - axis]["view"] or []]
                vonly = [k for k in vids if k not in iids]        # declared in the view, overridden away: unresolvable
                order["insertion_id"] = rng.choice(vonly) if (vonly and rng.random() < 0.2) else rng.choice(iids * 6 + vids + [99])
                order["measure"] = rng.choice(list(MATRIX_PUBLIC) + ["count_weighted", "count_unweighted", "col_percent",
                                                                     "row_percent", "table_percent"] * 4)
            else:
                iids = [i["id"] for i in dims[1 - axis]["insertions"]]
                order["insertion_id"] = rng.choice(iids + iids + [99])
                order["measure"] = rng.choice(list(MATRIX_PUBLIC))
        elif t == "marginal":
            order["marginal"] = rng.choice(list(MARGINAL_PUBLIC) + ["foo"])
    dims[axis]["order"] = order
    case = {"seam": "api", "vars": [v.to_json() for v in vars_], "survey": survey, "dims": dims, "axis": axis,
            "extra": extra, "seed": rng.randint(0, 10 ** 6)}
    if view:
        case["family"] = "view"
    return case


def generate(ctx):
    rng = ctx.rng
    cases = _exhaustive(ctx)
    for _ in range(ctx.n(1200, 30000)):
        cases.append(_gen_col(rng))
    for _ in range(ctx.n(900, 12000)):
        cases.append(_gen_api(rng))
    for _ in range(ctx.n(480, 6000)):
        cases.append(_gen_api(rng, view=True))
    return cases


# ---------------------------------------------------------------------------------------
# running the library on an api case (deterministic in the case; memoised)

_CACHE = {}


def _extra_measures(case, vars_):
    import random
    rng = random.Random(case["seed"])
    size = 1
    for s in gen.raw_shape(vars_):
        size *= s
    out = {}
    close = rng.random() < 0.35
    for name in case["extra"]:
        data = []
        for _ in range(size):
            if rng.random() < 0.15:
                data.append({"?": -8})
            else:
                base = (rng.choice([0, 1, 1.5, 2, 2, 3.25, -1, 10, 0.5]) if name != "stddev"
                        else rng.choice([0, 0.5, 1, 1, 2.5, 4]))
                if close:
                    base = base + rng.choice([0, 1, 2, 3]) * 2.0 ** -30      # exact in binary64
                data.append(base)
        out[name] = data
    return out


def _build(case, plain):
    """(cube partition, transforms) — plain: same insertions, no order / hide / prune."""
    from cr.cube.cube import Cube
    vars_ = [gen.Var.from_json(d) for d in case["vars"]]
    survey = gen.survey_from_json(case["survey"])
    resp = gen.cube_response(vars_, survey, True, extra_measures=_extra_measures(case, vars_))
    tkeys = ["rows_dimension", "columns_dimension"]
    transforms = {}
    for dd, tk in zip(case["dims"], tkeys):
        d2 = dict(dd)
        if plain:
            d2 = dict(dd, hide=[], prune=False, order=None)
        transforms[tk] = oc.dim_transforms(d2)
    cube = Cube(resp, transforms=copy.deepcopy(transforms), population=1000)
    return cube.partitions[0]


def _cluster(values):
    """merge values that differ by float noise only (rel 1e-13 of the pair, or of the largest magnitude in
    the vector for cancellation residue near 0), so that such ties are never judged; keys that are
    distinct beyond noise - however close or tiny - stay distinct."""
    fin = sorted({v for v in values if isinstance(v, float) and math.isfinite(v)})
    top = max([abs(v) for v in fin] + [0.0])
    rep = {}
    cur = None
    for v in fin:
        if cur is not None and abs(v - cur) <= max(1e-13 * top, 1e-13 * max(abs(v), abs(cur))):
            rep[v] = cur
        else:
            cur = v
            rep[v] = v
    return rep


def _exact(v, rep):
    if v is None or (isinstance(v, float) and math.isnan(v)):
        return "nan"
    if isinstance(v, float) and math.isinf(v):
        return "inf" if v > 0 else "-inf"
    v = rep.get(float(v), float(v))
    return gen.frac_str(Fraction(v))


def _public_prop(case):
    order = case["dims"][case["axis"]]["order"]
    t = order["type"]
    if t == "label":
        return "label", None
    if t == "univariate_measure":
        return STRIPE_PUBLIC.get(order["measure"]), order["measure"]
    if t == "marginal":
        return MARGINAL_PUBLIC.get(order["marginal"]), order["marginal"]
    return MATRIX_PUBLIC.get(order["measure"]), order["measure"]


def _resolvable(case, vars_):
    """can the sort key be resolved, judged from the case alone."""
    axis = case["axis"]
    order = case["dims"][axis]["order"]
    t = order["type"]
    prop, kw = _public_prop(case)
    if t == "label":
        return True
    if prop is None:
        return False                                   # keyword unknown
    need = NEEDS.get(kw)
    if need and need not in case["extra"]:
        return False                                   # measure not in the response
    ads = _adims(vars_)
    if t == "opposing_element":
        if ads[1 - axis].is_arr:
            return ads[1 - axis].arr_index(order["element_id"]) is not None
        return order["element_id"] in _ids_of(ads[1 - axis])
    if t == "opposing_insertion":
        if ads[1 - axis].is_arr:
            # rows only (`_SortRowsByDerivedColumnHelper`); columns have no such helper
            return axis == 0 and ads[1 - axis].arr_index(order["insertion_id"]) is not None
        od = case["dims"][1 - axis]
        return order["insertion_id"] in [k for k, _ in _eff_ins(od, _ids_of(ads[1 - axis]))]
    return True


def _api_run(case):
    key = id(case)
    if key in _CACHE and _CACHE[key][0] is case:
        return _CACHE[key][1]
    if len(_CACHE) > 30000:
        _CACHE.clear()
    from cr.cube.enums import ORDER_FORMAT as OF
    import numpy as np
    import warnings
    vars_ = [gen.Var.from_json(d) for d in case["vars"]]
    axis = case["axis"]
    out = {}
    try:
        with warnings.catch_warnings():
            warnings.simplefilter("ignore")
            part = _build(case, False)
            twin = _build(case, True)
            ads = _adims(vars_)
            nd = len(ads)
            name = "row" if axis == 0 else "column"
            out["signed"] = oc.canon_order(common.call_impl(lambda: getattr(part, name + "_order")()))
            out["bogus"] = oc.canon_order(common.call_impl(lambda: getattr(part, name + "_order")(OF.BOGUS_IDS)))
            m = part._measures
            if nd == 2:
                out["row_empties"] = [int(i) for i, b in enumerate(m.rows_pruning_mask) if b]
                out["col_empties"] = [int(i) for i, b in enumerate(m.columns_pruning_mask) if b]
            else:
                out["row_empties"] = [int(i) for i, n in enumerate(m.pruning_base) if n == 0]
                out["col_empties"] = []
            # public values per element / subtotal of the sorted axis, from the twin partition
            prop, kw = _public_prop(case)
            order = case["dims"][axis]["order"]
            sids = _ids_of(ads[axis])
            out["vals"] = None
            if prop == "label":
                labels = list(getattr(twin, "row_labels" if axis == 0 else "column_labels"))
                tord = [int(x) for x in getattr(twin, name + "_order")()]
                n = len(sids)
                vals = [None] * n
                svals = [None] * (len(tord) - n)
                for lab, idx in zip(labels, tord):
                    if idx >= 0:
                        vals[idx] = str(lab)
                    else:
                        svals[idx + len(svals)] = str(lab)
                if None in vals or None in svals:
                    out["twin_incomplete"] = tord
                    vals = None
                out["vals"], out["svals"], out["kind"] = vals, svals, "str"
            elif prop is not None and _resolvable(case, vars_):
                try:
                    raw = getattr(twin, prop)
                except ValueError:
                    raw = None
                if raw is None:
                    # the library does not report this measure for this cube (e.g. scale means without
                    # numeric values): "measure not in the response" -> fallback expected
                    out["unavailable"] = True
                    _CACHE[key] = (case, out)
                    return out
                arr = np.asarray(raw, dtype=float)
                if (order["type"] == "marginal" or nd == 1) and arr.ndim != 1:
                    out["skip"] = "marginal is not a vector (multiple-response opposing dimension)"
                    _CACHE[key] = (case, out)
                    return out
                tord = [int(x) for x in getattr(twin, name + "_order")()]
                n = len(sids)
                if nd == 2 and order["type"] != "marginal":
                    oord = [int(x) for x in getattr(twin, ("column" if axis == 0 else "row") + "_order")()]
                    oids = _ids_of(ads[1 - axis])
                    if ads[1 - axis].is_arr:
                        kpos = oord.index(ads[1 - axis].arr_index(order.get("element_id", order.get("insertion_id"))))
                    elif order["type"] == "opposing_element":
                        kpos = oord.index(oids.index(order["element_id"]))
                    else:
                        od = case["dims"][1 - axis]
                        iids = [k for k, _ in _eff_ins(od, oids)]
                        kpos = oord.index(iids.index(order["insertion_id"]) - len(iids))
                    vec = arr[:, kpos] if axis == 0 else arr[kpos, :]
                else:
                    vec = arr
                vec = [float(x) for x in vec]
                if sorted(tord) != list(range(n - len(tord), n)) or len(vec) != len(tord):
                    out["twin_incomplete"] = tord
                    _CACHE[key] = (case, out)
                    return out
                rep = _cluster(vec)
                vals = ["nan"] * n
                svals = ["nan"] * (len(tord) - n)
                for x, idx in zip(vec, tord):
                    if idx >= 0:
                        vals[idx] = _exact(x, rep)
                    else:
                        svals[idx + len(svals)] = _exact(x, rep)
                out["vals"], out["svals"], out["kind"] = vals, svals, "num"
    except Exception as e:  # noqa
        out = {"raises": type(e).__name__, "msg": str(e)[:300]}
    _CACHE[key] = (case, out)
    return out


# ---------------------------------------------------------------------------------------
# lean ops


def _api_elems(ad):
    return ad.elems


def _fixed(order, key, var):
    ids = (order.get("fixed") or {}).get(key) or []
    if var is not None and var.is_arr:
        aliases = list(var.ids)
        return [i if i in aliases else None for i in ids]
    return list(ids)


def _survey_empties(vars_, survey, axis):
    v = vars_[axis]
    pos = v.valid_cat_pos
    cnt = [0] * len(pos)
    for w, ans in survey:
        ok = all(k == axis or u.is_array or ans[k][0] in u.valid_cat_pos for k, u in enumerate(vars_))
        if ok and ans[axis][0] in pos:
            cnt[pos.index(ans[axis][0])] += 1
    return [i for i, c in enumerate(cnt) if c == 0]


def lean_ops(case):
    if case["seam"] == "col":
        dd = case["dim"]
        valid = [e for e in case["elems"] if not e.get("missing")]
        d = oc.lean_dim(dd, valid)
        order = dd["order"]
        d.update({"op": "collate_sortval", "empties": case["empties"], "top": order["fixed"]["top"],
                  "bottom": order["fixed"]["bottom"], "descending": order.get("direction", "descending") != "ascending",
                  "kind": case["kind"], "vals": case["vals"], "svals": case["svals"],
                  "order": _col_run(case).get("signed_int")})
        return [d]
    vars_ = [gen.Var.from_json(d) for d in case["vars"]]
    survey = gen.survey_from_json(case["survey"])
    axis = case["axis"]
    lib = _api_run(case)
    dd = case["dims"][axis]
    order = dd["order"]
    v = _adims(vars_)[axis]
    elems = _api_elems(v)
    valid = [e for e in elems if not e.get("missing")]
    d = oc.lean_dim(dd, valid, is_array=v.is_arr)
    if any(u.is_array for u in vars_):
        emp = lib.get("row_empties" if axis == 0 else "col_empties", []) if "raises" not in lib else []
    else:
        emp = _survey_empties(vars_, survey, axis)
    vals = lib.get("vals") if "raises" not in lib else None
    signed = lib.get("signed") if "raises" not in lib else None
    rep = signed if isinstance(signed, list) and all(isinstance(x, int) for x in signed) else None
    d.update({"op": "collate_sortval", "empties": emp, "top": _fixed(order, "top", v), "bottom": _fixed(order, "bottom", v),
              "descending": order.get("direction", "descending") != "ascending"})
    if vals is None or not _resolvable(case, vars_):
        d.update({"vals": None})
    else:
        d.update({"kind": lib["kind"], "vals": vals, "svals": lib["svals"], "order": rep})
    return [d]


# ---------------------------------------------------------------------------------------
# col seam: run the real collator

_COLCACHE = {}


def _col_run(case):
    key = id(case)
    if key in _COLCACHE and _COLCACHE[key][0] is case:
        return _COLCACHE[key][1]
    if len(_COLCACHE) > 400000:
        _COLCACHE.clear()
    import numpy as np
    from cr.cube.dimension import Dimension
    from cr.cube.enums import DIMENSION_TYPE as DT, ORDER_FORMAT as OF
    from cr.cube.collator import SortByValueCollator
    dd = case["dim"]
    ddict = oc.cat_dimension_dict(case["elems"], None)
    tr = oc.dim_transforms(dd)

    def mkdim():
        return Dimension(copy.deepcopy(ddict), DT.CAT, copy.deepcopy(tr))
    if case["kind"] == "num":
        ev = np.array([_tofloat(v) for v in case["vals"]], dtype=float)
        sv = np.array([_tofloat(v) for v in case["svals"]], dtype=float)
    else:
        ev = np.array(case["vals"], dtype=str) if case["vals"] else np.array([], dtype=str)
        sv = np.array(case["svals"], dtype=str) if case["svals"] else np.array([], dtype=str)
    emp = tuple(case["empties"])
    out = {}
    out["signed"] = oc.canon_order(common.call_impl(
        lambda: SortByValueCollator.display_order(mkdim(), ev, sv, emp, OF.SIGNED_INDEXES)))
    out["bogus"] = oc.canon_order(common.call_impl(
        lambda: SortByValueCollator.display_order(mkdim(), ev, sv, emp, OF.BOGUS_IDS)))
    s = out["signed"]
    out["signed_int"] = s if isinstance(s, list) and all(isinstance(x, int) for x in s) else None
    _COLCACHE[key] = (case, out)
    return out


# ---------------------------------------------------------------------------------------
# evaluation

CHECK_LOCI = [("groups", "subtotal-group-position"), ("fixed_top", "fixed-top"), ("fixed_bottom", "fixed-bottom"),
              ("body_members", "body-members"), ("body_sorted", "body-not-monotone-or-nan-not-last"),
              ("subs_members", "subtotal-members"), ("subs_sorted", "subtotals-not-monotone")]


def _f(kind, locus, detail):
    return {"kind": kind, "locus": locus, "detail": detail}


def _judge(findings, where, lo, signed, prefix):
    """spec-kind findings from the Lean property predicate applied to the reported order."""
    chk = lo.get("reported_check")
    if chk is None or chk["ok"]:
        return True
    if len(set(signed)) != len(signed) and len(set(lo.get("unfixed") or [])) != len(lo.get("unfixed") or []):
        findings.append(_f("spec", "order.fixed-list-repeat",
                           "%s displays an element twice: %r (a fixed id repeated in / across the fixed lists); "
                           "first-mention-wins order is %r" % (where, signed, lo["signed"])))
        return False
    for fld, name in CHECK_LOCI:
        if not chk[fld]:
            findings.append(_f("spec", "%s.%s" % (prefix, name), "%s reported order %r violates '%s' (checks %r)"
                               % (where, signed, name, chk)))
            break
    return False


def _render(signed, sub_ids):
    n = len(sub_ids)
    return [("ins_%d" % sub_ids[x + n]) if x < 0 else x for x in signed]


def _key(case, signed, vals, extra):
    if len(signed) < 2:
        return None
    body = [vals[i] for i in signed if i >= 0] if vals else []
    distinct = len({v for v in body if v != "nan"}) >= 2 or "nan" in body
    if not (distinct or extra):
        return None
    return (case["seam"],) + tuple(extra) + (tuple(signed),)


def _eval_col(case, louts, ctx):
    findings = []
    lo = louts[0]
    lib = _col_run(case)
    signed, bogus = lib["signed"], lib["bogus"]
    dd = case["dim"]
    order = dd["order"]
    desc = order.get("direction", "descending") != "ascending"
    where = "SortByValueCollator(%s %s top=%r bottom=%r)" % (case["kind"], "desc" if desc else "asc",
                                                           order["fixed"]["top"], order["fixed"]["bottom"])
    ctx.count("col:%s" % case["kind"])
    if case.get("ex"):
        ctx.count("col:enumerated")
    if "raises" in lo:
        return findings, None
    if isinstance(signed, dict):
        findings.append(_f("spec", "order.sort.raises", "%s raises %r" % (where, signed)))
        return findings, None
    if not lo["model_check"]["ok"]:
        raise common.HarnessFault("Lean model order fails the Lean spec predicate: %r" % (lo,))
    ok = _judge(findings, where, lo, signed, "order.sort")
    if ok and signed != lo["signed"]:
        findings.append(_f("model", "seam.sortcollator.signed", "%s impl=%r model=%r" % (where, signed, lo["signed"])))
    if ok:
        exp = _render(signed, lo["sub_ids"])
        if bogus != exp:
            findings.append(_f("spec", "order.sort.formats-disagree", "%s 'ins_N' order %r, signed %r names %r"
                               % (where, bogus, signed, exp)))
    fx = bool(order["fixed"]["top"] or order["fixed"]["bottom"])
    if any(x < 0 for x in signed):
        ctx.count("col:with-subtotals")
    return findings, _key(case, signed, case["vals"], (case["kind"], desc, fx))


def _eval_api(case, louts, ctx):
    findings = []
    lo = louts[0]
    vars_ = [gen.Var.from_json(d) for d in case["vars"]]
    survey = gen.survey_from_json(case["survey"])
    axis = case["axis"]
    lib = _api_run(case)
    order = case["dims"][axis]["order"]
    t = order["type"]
    kw = order.get("measure", order.get("marginal"))
    ads = _adims(vars_)
    kinds = "x".join(a.kind for a in ads)
    where = "%s %s axis=%d %s/%s" % (kinds, "slice" if len(ads) == 2 else "strand", axis, t, kw)
    ctx.count("api:dims:%s" % kinds)
    if t == "opposing_insertion" and len(ads) == 2 and ads[1 - axis].is_arr:
        ctx.count("api:derived-column:%s" % ads[1 - axis].kind)
    ctx.count("api:%s:%s" % ("rows" if axis == 0 else "cols", t))
    if case.get("family") == "view":
        ctx.count("api:view-family")
        if len(ads) == 2 and t == "opposing_insertion":
            ctx.count("api:view:%s:key-by-insertion:opposing-%s" % ("rows" if axis == 0 else "cols",
                                                                   case["dims"][1 - axis].get("redeclare", "transform-only")))
        ctx.count("api:view:sorted-dimension-%s" % case["dims"][axis].get("redeclare", "transform-only"))
        where += " [view insertions %r / transform insertions %r]" % tuple(
            [None if d.get(k) is None else [i.get("id") for i in d[k]] for d in case["dims"]] for k in ("view", "insertions"))
    if "raises" in lo:
        return findings, None
    if "raises" in lib:
        findings.append(_f("spec", "order.sort.api-raises", "%s raises %r" % (where, lib)))
        return findings, None
    if lib.get("skip"):
        ctx.count("api:skipped-nonvector-marginal")
        return findings, None
    if lib.get("twin_incomplete") is not None:
        findings.append(_f("model", "seam.api.twin-partition", "%s: the partition without order/hide/prune does not "
                           "display every element and insertion once: %r" % (where, lib["twin_incomplete"])))
        return findings, None
    signed, bogus = lib["signed"], lib["bogus"]
    if isinstance(signed, dict):
        findings.append(_f("spec", "order.sort.api-raises", "%s order raises %r (resolvable=%r)"
                           % (where, signed, _resolvable(case, vars_))))
        return findings, None
    if not any(u.is_array for u in vars_):
        emp = _survey_empties(vars_, survey, axis)
        if lib["row_empties" if axis == 0 else "col_empties"] != emp:
            ctx.count("api:empties-differ")
            return findings, None
    # all opposing base vectors pruned -> insertions of this axis are dropped
    dropped = False
    if len(ads) == 2:
        od = case["dims"][1 - axis]
        n_opp = len(_ids_of(ads[1 - axis]))
        if od.get("prune") and len(lib["col_empties" if axis == 0 else "row_empties"]) == n_opp:
            dropped = True
            ctx.count("api:subtotals-pruned")
    if lo.get("fallback"):
        ctx.count("api:fallback")
        exp = [x for x in lo["spec_signed"] if x >= 0] if dropped else lo["spec_signed"]
        if signed != exp:
            findings.append(_f("spec", "order.sort.fallback", "%s: key cannot be resolved, order %r, anchored payload "
                               "order is %r" % (where, signed, exp)))
        return findings, (("api", "fallback", t, kw, tuple(signed)) if len(signed) >= 2 else None)
    if dropped:
        # judged without the subtotal group: re-ask is not possible here; check the base part only
        if any(x < 0 for x in signed):
            findings.append(_f("spec", "order.sort.pruned-subtotals-present", "%s order %r keeps insertions although "
                               "every opposing vector is pruned" % (where, signed)))
        return findings, None
    has_diff = False
    for a, u in enumerate(ads):
        uids = _ids_of(u)
        has_diff = has_diff or any(set(i.get("neg") or []) & set(uids) for _, i in _eff_ins(case["dims"][a], uids))
    if kw in ("population", "population_moe") and has_diff:
        # excluded point (DESIGN §3 C08): the public population measures blank difference subtotals to NaN
        # while the sort key (population proportion / its std-err) is finite there
        ctx.count("api:excluded-population-difference-subtotal")
        ok = True
    else:
        ok = _judge(findings, where, lo, signed, "order.sort")
    if ok:
        exp = _render(signed, lo["sub_ids"])
        if isinstance(bogus, dict) or bogus != exp:
            findings.append(_f("spec", "order.sort.formats-disagree", "%s 'ins_N' order %r, signed %r names %r"
                               % (where, bogus, signed, exp)))
    ctx.count("api:kw:%s" % kw)
    return findings, _key(case, signed, lib.get("vals"), (t, kw, order.get("direction")))


def evaluate(case, louts, ctx):
    if case["seam"] == "col":
        return _eval_col(case, louts, ctx)
    return _eval_api(case, louts, ctx)


def describe(case):
    if case["seam"] == "col":
        return {"seam": "col", "ids": [e["id"] for e in case["elems"]], "order": case["dim"]["order"],
                "hide": case["dim"]["hide"], "vals": case["vals"], "svals": case["svals"]}
    d = {"seam": "api", "kinds": [v["kind"] for v in case["vars"]], "axis": case["axis"],
         "order": case["dims"][case["axis"]]["order"], "n_respondents": len(case["survey"]), "extra": case["extra"]}
    if case.get("family") == "view":
        d["view_insertion_ids"] = [None if x.get("view") is None else [i.get("id") for i in x["view"]] for x in case["dims"]]
        d["transform_insertion_ids"] = [None if x.get("insertions") is None else [i.get("id") for i in x["insertions"]]
                                        for x in case["dims"]]
    return d


def shrink_candidates(case):
    if case["seam"] == "col":
        dd = case["dim"]
        o = dd["order"]
        for k in ("top", "bottom"):
            l = o["fixed"][k]
            for i in range(len(l)):
                yield dict(case, dim=dict(dd, order=dict(o, fixed=dict(o["fixed"], **{k: l[:i] + l[i + 1:]}))))
        if dd.get("hide"):
            yield dict(case, dim=dict(dd, hide=dd["hide"][1:]))
        if dd.get("prune"):
            yield dict(case, dim=dict(dd, prune=False))
        if case["empties"]:
            yield dict(case, empties=case["empties"][1:])
        ins = dd.get("insertions") or []
        valid_ids = [e["id"] for e in case["elems"] if not e.get("missing")]
        for i in range(len(ins)):
            if oc.ins_valid(ins[i], valid_ids):
                pos = len([x for x in ins[:i] if oc.ins_valid(x, valid_ids)])
                yield dict(case, dim=dict(dd, insertions=ins[:i] + ins[i + 1:]),
                           svals=case["svals"][:pos] + case["svals"][pos + 1:])
            else:
                yield dict(case, dim=dict(dd, insertions=ins[:i] + ins[i + 1:]))
    else:
        sv = case["survey"]
        if len(sv) > 1:
            yield dict(case, survey=sv[: len(sv) // 2])
            yield dict(case, survey=sv[len(sv) // 2:])
        for a in range(len(case["dims"])):
            dd = case["dims"][a]
            if dd.get("hide"):
                dims = list(case["dims"]); dims[a] = dict(dd, hide=dd["hide"][1:]); yield dict(case, dims=dims)
            if dd.get("prune"):
                dims = list(case["dims"]); dims[a] = dict(dd, prune=False); yield dict(case, dims=dims)
            o = dd.get("order")
            if o and o.get("fixed"):
                dims = list(case["dims"]); dims[a] = dict(dd, order={k: v for k, v in o.items() if k != "fixed"})
                yield dict(case, dims=dims)
