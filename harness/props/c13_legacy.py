"""C13 (extension) -- legacy pairwise objects: pairwise comparison of column SCALE MEANS and of the
column margin proportions ("summary" test).

Observed through the real library:
  _Slice.columns_scale_mean_pairwise_indices(_alt), _Slice.summary_pairwise_indices,
  _Slice.pairwise_significance_tests[c].{t_stats_scale_means, p_vals_scale_means, _two_sample_df,
        scale_mean_pairwise_indices, summary_t_stats, summary_p_vals, _df, summary_pairwise_indices},
  _Slice.{columns_scale_mean, _columns_scale_mean_variance, columns_base, table_margin}   (primitive seams)
against
  (model) Lean `PairwiseLegacy.FullIn.displayFixed` (the code with repair F60: n / variance over every valid row) and
          `FullIn.display` (before the repair: displayed rows only) / `LegIn.{tScale,pScale,dfScale,summaryT,summaryP,
          summaryDf}` fed with the survey's tabulation; index sets = Python thresholding of the evaluated Lean terms.
          A tree that behaves like the un-repaired model where the two differ gets the spec-level finding
          `legacy.scale_mean_pairwise.computed-from-displayed-rows` (hiding rows changed values: C05);
  (spec)  the respondent-level pooled two-sample test (Lean `PairwiseLegacySpec` op and a Python oracle),
          and relations on the implementation's own outputs: antisymmetry of t, symmetry of p / df, t(a,a) = 0,
          a column never in its own set, secondary-alpha sets contain the primary ones, renumbering under a
          different column order / hiding (C05), values unchanged by hiding ROWS (C05).
"""
from fractions import Fraction as F
import copy
import json
import math
import gen
import common
from props import pw_util as U
from props import c13 as C

PROPERTY = "C13"
LEAN_MODULE = "CrCube.Props.C13_Legacy"
THEOREMS = [
    "CrCube.C13.legacy_t_def",
    "CrCube.C13.legacy_t_eq_spec",
    "CrCube.C13.legacy_sqrt_merge",
    "CrCube.C13.legacy_pooled_eq_unpooled_equal_n",
    "CrCube.C13.legacy_df_def",
    "CrCube.C13.legacy_variance_is_scale_variance",
    "CrCube.C13.legacy_antisymmetric_term",
    "CrCube.C13.legacy_antisymmetric",
    "CrCube.C13.legacy_symmetric_p",
    "CrCube.C13.legacy_self_zero",
    "CrCube.C13.legacy_self_p_one",
    "CrCube.C13.legacy_indices_def",
    "CrCube.C13.legacy_never_self",
    "CrCube.C13.legacy_self_listed_without_alpha_bound",
    "CrCube.C13.legacy_alt_superset",
    "CrCube.C13.legacy_slice_alt_superset",
    "CrCube.C13.legacy_indices_equivariant",
    "CrCube.C13.legacy_indices_follow_columns",
    "CrCube.C13.legacy_nan_mean",
    "CrCube.C13.legacy_nan_variance",
    "CrCube.C13.legacy_zero_variance",
    "CrCube.C13.legacy_nan_not_listed",
    "CrCube.C13.legacy_no_values_raises",
    "CrCube.C13.legacy_summary_no_columns_raises",
    "CrCube.C13.legacy_summary_t_def",
    "CrCube.C13.legacy_summary_antisymmetric_term",
    "CrCube.C13.legacy_summary_df_symmetric",
    "CrCube.C13.legacy_tests_use_defaults",
    "CrCube.C13.legacy_zero_count_variance",
    "CrCube.C13.legacy_rows_hidden_partial",
    "CrCube.C13.legacy_hidden_row_counterexample",
]
RULE = ("cat x cat slices whose ROWS carry numeric values (partial / repeated / negative / unsorted / none at all; zero-count "
        "categories through skewed supports), 1-5 rows and columns, 0-80 respondents, unweighted or dyadic weights; row and "
        "column insertions (additive and differences), explicit orders, hidden and pruned rows / columns; every "
        "pairwise_indices.alpha shape and only_larger spelling; a second column arrangement of the same slice (renumbering) and "
        "the same slice with no row hidden (C05); a case is non-trivial when some displayed pair of columns has a finite "
        "non-zero scale-mean t; distinct = (weighted, survey, transforms) key")
ASSUMPTIONS = [
    "counts / unweighted bases / table margin handed to the model are the survey's tabulation (C01/C02; the library's own "
    "columns_scale_mean, _columns_scale_mean_variance, columns_base, table_margin are compared with the model's at the seam)",
    "display positions are read from the library's row_labels / column_labels (ordering itself is C05-C08); the set of displayed "
    "base rows is cross-checked against 'not hidden, or pruned with zero count'",
    "Student-t CDF: scipy.stats.t.cdf evaluates the Out.tTail2 terms",
    "cells whose exact pooled variance is 0 or whose exact degrees of freedom are 0 are not compared (0/0 against a rounding "
    "residue); index-set membership is not compared where |p - alpha| < 1e-9",
]
TRUSTED_EXTRA = ["Python thresholding of the evaluated Lean terms (p < alpha, t < 0) mirrors Pairwise.sig / PairwiseLegacy.idxOf"]

KNOWN_HIDDEN = "legacy.scale_mean_pairwise.computed-from-displayed-rows"


# ---------------------------------------------------------------------------------------
# generation


def _gen_case(rng):
    nr = rng.choice([1, 2, 3, 3, 4, 4, 5, 5])
    nc = rng.choice([1, 2, 2, 3, 3, 3, 4, 5])
    numeric = rng.choice(["some"] * 6 + ["all"] * 5 + ["none"])
    rows = gen.gen_var(rng, "cat", "v0", n=nr, numeric=numeric)
    cols = gen.gen_var(rng, "cat", "v1", n=nc, numeric=rng.choice(["none", "some"]))
    vars_ = [rows, cols]
    axes = U.axes_of(vars_)
    weighted = rng.random() < 0.5
    n_resp = rng.choice([0, 2, 5, 10, 20, 20, 30, 40, 40, 60, 80])
    sv = gen.gen_survey(rng, vars_, weighted=weighted, n_resp=n_resp, skew=rng.random() < 0.35)
    tr = {}
    if rng.random() < 0.85:
        tr["rows_dimension"] = U.gen_dim_transforms(rng, axes[0], p_prune=0.15, p_hide=0.4)
        tr["columns_dimension"] = U.gen_dim_transforms(rng, axes[1], p_prune=0.15)
    pw = C.gen_pw_transform(rng)
    if pw or rng.random() < 0.3:
        tr["pairwise_indices"] = pw
    # a second arrangement of the SAME columns (same insertions): other order / other hidden columns
    alt = {}
    cd = tr.get("columns_dimension") or {}
    if "insertions" in cd:
        alt["insertions"] = copy.deepcopy(cd["insertions"])
    if axes[1].n:
        ids = list(axes[1].ids)
        rng.shuffle(ids)
        if rng.random() < 0.8:
            alt["order"] = {"type": "explicit", "element_ids": ids}
        if axes[1].n > 1 and rng.random() < 0.4:
            alt["elements"] = {str(i): {"hide": True} for i in rng.sample(axes[1].ids, rng.randint(1, axes[1].n - 1))}
    return {"vars": [v.to_json() for v in vars_], "survey": gen.survey_to_json(sv), "weighted": weighted,
            "transforms": tr, "cols_alt": alt}


def generate(ctx):
    return [_gen_case(ctx.rng) for _ in range(ctx.n(110, 3000))]


# ---------------------------------------------------------------------------------------
# plan


def _ol_kind(case):
    pw = (case.get("transforms") or {}).get("pairwise_indices") or {}
    if "only_larger" not in pw:
        return "absent"
    return "false" if pw["only_larger"] is False else "other"


def _hidden_rows(case, ax):
    els = ((case.get("transforms") or {}).get("rows_dimension") or {}).get("elements") or {}
    hid = {k for k, v in els.items() if isinstance(v, dict) and v.get("hide")}
    return [i for i, cid in enumerate(ax.ids) if str(cid) in hid]


def _plan(case):
    vars_ = [gen.Var.from_json(d) for d in case["vars"]]
    survey = gen.survey_from_json(case["survey"])
    axes = U.axes_of(vars_)
    r, c = axes
    nr, nc = r.n, c.n
    tr = case.get("transforms") or {}
    rsubs = U.subs_of(r, tr.get("rows_dimension"))
    csubs = U.subs_of(c, tr.get("columns_dimension"))
    wfun = (lambda w: w) if case["weighted"] else (lambda w: F(1))
    wc = U.tabulate2(axes, survey, wfun)[0]
    uc = U.tabulate2(axes, survey, lambda w: F(1))[0]
    ucols = [sum((uc[i][j] for i in range(nr)), F(0)) for j in range(nc)]
    urows = [sum((uc[i][j] for j in range(nc)), F(0)) for i in range(nr)]
    margin = sum((x for row in wc for x in row), F(0))
    hidden = _hidden_rows(case, r)
    prune = bool((tr.get("rows_dimension") or {}).get("prune"))
    shown = [i for i in range(nr) if i not in hidden and not (prune and urows[i] == 0)]
    values = [None if v is None else U.fs(F(v)) for v in r.values]
    nfc = nc + len(csubs)
    full_co = list(range(nc)) + [k - len(csubs) for k in range(len(csubs))]
    resps = []
    for w, ans in survey:
        rp, cp = ans[0][0], ans[1][0]
        if rp not in r.pos:
            continue
        i = r.pos.index(rp)
        cin = [cp == c.pos[j] for j in range(nc)]
        for _, a, s in csubs:
            cin.append(any(cin[k] for k in a) and not s)
        resps.append({"w": U.fs(wfun(w)), "v": values[i], "cin": cin})
    ops = [
        {"op": "pw_alpha", "arg": C.alpha_lean(C._alpha_arg(case))},
        {"op": "pwleg_ol", "kind": _ol_kind(case)},
        {"op": "pwleg", "nr": nr, "nc": nc, "counts": U.fmat(wc), "row_values": values,
         "ucols_base": [U.fs(x) for x in ucols], "table_margin": U.fs(margin),
         "row_subs": C._subs_json(rsubs), "col_subs": C._subs_json(csubs),
         "row_order": shown, "col_order": full_co},
        {"op": "pwleg_spec", "resps": resps, "nfc": nfc},
    ]
    return {"vars": vars_, "survey": survey, "axes": axes, "rsubs": rsubs, "csubs": csubs, "ops": ops,
            "shown": shown, "hidden": hidden, "urows": urows, "resps": resps, "wc": wc}


def lean_ops(case):
    return _plan(case)["ops"]


# ---------------------------------------------------------------------------------------
# evaluation


def _ev(x):
    return common.model_to_float(x)


def _isnan(x):
    return isinstance(x, float) and math.isnan(x)


def _degenerate(term, df):
    """exact pooled variance 0 (0/0 or x/0 against a rounding residue) or exact df 0 (x/0 in the pooled variance)"""
    if isinstance(term, dict) and "divsqrt" in term:
        num, den = term["divsqrt"]
        if num == "nan":
            return False
        return den == "0" or df == 0.0
    return False


def _oracle(resps, nfc):
    """respondent-level n / mean / population variance per full column, floats"""
    out = []
    for j in range(nfc):
        ps = [(F(r["w"]), F(r["v"])) for r in resps if r["cin"][j] and r["v"] is not None]
        n = sum((w for w, _ in ps), F(0))
        if n == 0:
            out.append((0.0, float("nan"), float("nan")))
            continue
        m = sum((w * v for w, v in ps), F(0)) / n
        var = sum((w * (v - m) ** 2 for w, v in ps), F(0)) / n
        out.append((float(n), float(m), float(var)))
    return out


def _pooled(ma, na, va, mb, nb, vb):
    import numpy as np
    with np.errstate(all="ignore"):
        ma, na, va, mb, nb, vb = (np.float64(x) for x in (ma, na, va, mb, nb, vb))
        s2 = ((na - 1) * va + (nb - 1) * vb) / (na + nb - 2)
        t = (mb - ma) / np.sqrt(s2 * (1 / na + 1 / nb))
        return float(t), float(na + nb - 2)


def _sets(P, T, n, alpha, only_larger):
    return [[b for b in range(n) if C._sig(P[a][b], T[a][b], alpha, only_larger)] for a in range(n)]


def _mk(case, tr):
    from cr.cube.cube import Cube
    vars_ = [gen.Var.from_json(d) for d in case["vars"]]
    survey = gen.survey_from_json(case["survey"])
    resp = gen.cube_response(vars_, survey, case["weighted"])
    return lambda: Cube(copy.deepcopy(resp), transforms=copy.deepcopy(tr)).partitions[0]


def _read_tests(part, ncols):
    """per selected display column: dict of the legacy object's arrays (or {'raises': ..})"""
    tests = common.call_impl(lambda: len(part.pairwise_significance_tests))
    out = []
    if not isinstance(tests, int):
        return tests
    for c in range(tests):
        o = part.pairwise_significance_tests[c]
        out.append({k: common.call_impl(lambda k=k: getattr(o, k)) for k in (
            "t_stats_scale_means", "p_vals_scale_means", "_two_sample_df", "scale_mean_pairwise_indices",
            "summary_t_stats", "summary_p_vals", "_df", "summary_pairwise_indices")})
    return out


def _cmp(findings, kind, locus, what, impl, expected):
    ok, where = common.deep_close(impl, expected)
    if not ok:
        findings.append({"kind": kind, "locus": locus, "detail": "%s: impl%s (impl=%r expected=%r)" % (what, where, impl, expected)})
    return ok


def _pick(mat, fc):
    return [[mat[a][b] for b in fc] for a in fc]


def evaluate(case, louts, ctx):
    plan = _plan(case)
    axes, rsubs, csubs = plan["axes"], plan["rsubs"], plan["csubs"]
    r, c = axes
    nr, nc = r.n, c.n
    nfc = nc + len(csubs)
    tr = case.get("transforms") or {}
    la, lo, leg, spec = louts
    found, fixed = leg["found"], leg["fixed"]
    findings = []
    mk = _mk(case, tr)
    part = mk()

    rl = common.call_impl(lambda: list(part.row_labels))
    cl = common.call_impl(lambda: list(part.column_labels))
    ro = U.signed_order(rl, r, rsubs) if isinstance(rl, list) else None
    co = U.signed_order(cl, c, csubs) if isinstance(cl, list) else None
    if ro is None or co is None:
        raise common.HarnessFault("cannot map labels to elements: %r %r" % (rl, cl))
    fc = [k if k >= 0 else nfc + k for k in co]
    n = len(fc)
    disp_rows = {k for k in ro if k >= 0}
    if disp_rows != set(plan["shown"]):
        raise common.HarnessFault("displayed base rows %r are not 'not hidden, not pruned' %r" % (sorted(disp_rows), plan["shown"]))
    ctx.count("weighted:%s" % case["weighted"])
    ctx.count("columns:%d" % n)
    if plan["hidden"]:
        ctx.count("rows:some-hidden")
    if any(s[2] for s in csubs):
        ctx.count("columns:difference-subtotal")

    # ---- settings
    exp_alpha, exp_err = C._alpha_expected(case)
    if ("raises" in la) != (exp_err is not None) or (exp_err and la["raises"] != exp_err):
        raise common.HarnessFault("python alpha twin %r != Lean alphaValues %r" % ((exp_alpha, exp_err), la))
    only_larger = C._only_larger(case)
    if lo["only_larger"] != only_larger:
        raise common.HarnessFault("python only_larger twin != Lean onlyLarger")
    ctx.count("only_larger:%s" % only_larger)

    # ---- primitive seams (model)
    i_var = common.call_impl(lambda: part._columns_scale_mean_variance)
    if found["has_values"] != fixed["has_values"] and isinstance(i_var, list):
        # every displayed valued row is hidden and the tree answers nevertheless: it is the repaired one (fix F60)
        found = fixed
        ctx.count("tree:values-from-all-rows")
    has_values = found["has_values"]
    def pickv(name, src=found):
        return [_ev(src[name][j]) for j in fc]
    _cmp(findings, "model", "seam.legacy.columns_base", "columns_base", common.call_impl(lambda: part.columns_base), pickv("cols_base"))
    _cmp(findings, "model", "seam.legacy.table_margin", "table_margin", common.call_impl(lambda: part.table_margin),
         float(F(plan["ops"][2]["table_margin"])))
    i_mean = common.call_impl(lambda: part.columns_scale_mean)
    any_value = any(v is not None for v in r.values)
    _cmp(findings, "model", "seam.legacy.columns_scale_mean", "columns_scale_mean", i_mean, pickv("means") if any_value else None)
    hidden_effect_var = False
    if has_values:
        mv, fv = pickv("variance"), pickv("variance", fixed)
        # exact zero variance: the float mean v*p/p need not be exactly v (residue ~1e-31): compare loosely there
        def vclose(x, y):
            return common.num_close(x, y) or (y == 0.0 and isinstance(x, float) and abs(x) < 1e-20)
        if not (isinstance(i_var, list) and len(i_var) == n and all(vclose(x, y) for x, y in zip(i_var, mv))):
            if isinstance(i_var, list) and len(i_var) == n and all(vclose(x, y) for x, y in zip(i_var, fv)):
                ctx.count("tree:variance-from-all-rows")
            else:
                findings.append({"kind": "model", "locus": "seam.legacy._columns_scale_mean_variance",
                                 "detail": "impl=%r model=%r (repaired model=%r)" % (i_var, mv, fv)})
        hidden_effect_var = not common.deep_close(mv, fv)[0]
    else:
        _cmp(findings, "model", "seam.legacy._columns_scale_mean_variance", "no displayed row carries a value", i_var, None)
        ctx.count("rows:no-displayed-value")

    # ---- model tensors over display columns
    def disp(src, key):
        return _pick([[_ev(x) for x in row] for row in src[key]], fc)
    mT, mP, mDf = disp(found, "t"), disp(found, "p"), disp(found, "df")
    xT, xP, xDf = disp(fixed, "t"), disp(fixed, "p"), disp(fixed, "df")
    sT_, sP_, sDf_ = disp(found, "st"), disp(found, "sp"), disp(found, "sdf")
    termT = _pick(found["t"], fc)
    termTx = _pick(fixed["t"], fc)
    deg = [[_degenerate(termT[a][b], mDf[a][b]) or _degenerate(termTx[a][b], xDf[a][b]) for b in range(n)] for a in range(n)]
    # summary test, weighted survey: unweighted base / weighted margin may exceed 1, the two variance terms then have
    # opposite signs and can cancel to exactly 0 over Q (x/0) where the floats keep a residue of either sign
    termS = _pick(found["st"], fc)
    sdeg = [[bool(case["weighted"]) and isinstance(termS[a][b], dict) and termS[a][b]["divsqrt"][1] == "0"
             and termS[a][b]["divsqrt"][0] != "nan" for b in range(n)] for a in range(n)]
    for a in range(n):
        for b in range(n):
            if found["tneg"][fc[a]][fc[b]] != C._lt(mT[a][b], 0.0):
                raise common.HarnessFault("divSqrtNeg disagrees with evaluation")

    # respondent level
    sT = disp(spec, "t")
    sP = disp(spec, "p")
    orc = _oracle(plan["resps"], nfc)
    col_diff = [k >= nc and bool(csubs[k - nc][2]) for k in fc]
    # the repaired model IS the respondent-level statement on additive columns (internal consistency)
    for a in range(n):
        for b in range(n):
            if col_diff[a] or col_diff[b] or deg[a][b] or not has_values:
                continue
            if not common.num_close(xT[a][b], sT[a][b]) or not common.num_close(xP[a][b], sP[a][b]):
                raise common.HarnessFault("repaired model != respondent-level spec at (%d,%d): %r vs %r" % (a, b, xT[a][b], sT[a][b]))

    differs_m = [[not (common.num_close(mT[a][b], xT[a][b]) and common.num_close(mP[a][b], xP[a][b])) for b in range(n)]
                 for a in range(n)]
    # cells where the statement-level (respondent) test is comparable with the tree as found
    okspec = [[has_values and not (col_diff[a] or col_diff[b] or deg[a][b] or differs_m[a][b]) for b in range(n)] for a in range(n)]
    tests = _read_tests(part, n)
    if not isinstance(tests, list) or len(tests) != n:
        findings.append({"kind": "model", "locus": "seam.legacy.pairwise_significance_tests.length",
                         "detail": "got %r for %d displayed columns" % (tests if not isinstance(tests, list) else len(tests), n)})
        return findings, None

    nontrivial = False
    hidden_effect = False
    for a in range(n):
        t_ = tests[a]
        # -- df always computable
        _cmp(findings, "model", "seam.legacy._two_sample_df", "selected column %d" % a, t_["_two_sample_df"],
             mDf[a]) or _tree_fixed(findings, ctx, t_["_two_sample_df"], xDf[a])
        _cmp(findings, "model", "seam.legacy._df", "selected column %d" % a, t_["_df"], sDf_[a])
        def keep(xs):
            return [x for b, x in enumerate(xs) if not sdeg[a][b]] if isinstance(xs, list) and len(xs) == n else xs
        if any(sdeg[a]):
            ctx.count("cells:summary-degenerate-skipped", sum(sdeg[a]))
        _cmp(findings, "model", "seam.legacy.summary_t_stats", "selected column %d" % a, keep(t_["summary_t_stats"]), keep(sT_[a]))
        _cmp(findings, "model", "seam.legacy.summary_p_vals", "selected column %d" % a, keep(t_["summary_p_vals"]), keep(sP_[a]))
        if not case["weighted"] and isinstance(t_["summary_t_stats"], list) and isinstance(t_["summary_p_vals"], list) \
                and len(t_["summary_t_stats"]) == n and len(t_["summary_p_vals"]) == n:
            # statement level (unweighted survey): C13's column test on the margin proportions base_x / N, both with n = N,
            # base_a + base_b - 2 degrees of freedom
            N_ = float(sum(1 for r_ in plan["resps"] if any(r_["cin"][:nc])))      # valid on both variables
            for b in range(n):
                if col_diff[a] or col_diff[b]:
                    continue
                na_, nb_ = (float(sum(1 for r_ in plan["resps"] if r_["cin"][fc[k]])) for k in (a, b))
                pa_, pb_ = C._fdiv(F(int(na_)), F(int(N_))), C._fdiv(F(int(nb_)), F(int(N_)))
                ot = C._t_formula(pa_, N_, pb_, N_)
                op = C._p_formula(ot, na_ + nb_ - 2)
                if not (common.num_close(t_["summary_t_stats"][b], ot) and common.num_close(t_["summary_p_vals"][b], op)):
                    findings.append({"kind": "spec", "locus": "legacy.summary_t_stats.spec", "detail":
                                     "selected %d compared %d: impl t=%r p=%r, margin-proportion test on the respondents t=%r p=%r" % (
                                         a, b, t_["summary_t_stats"][b], t_["summary_p_vals"][b], ot, op)})
                    break
        # default alpha / only_larger, whatever the transforms say
        exp_s = [b for b in range(n) if C._sig(sP_[a][b], sT_[a][b], 0.05, True)]
        if not any(C._near(sP_[a][b], 0.05) for b in range(n)) and not any(sdeg[a]):
            _cmp(findings, "model", "seam.legacy.tests.summary_pairwise_indices", "selected column %d (defaults 0.05 / only larger)" % a,
                 t_["summary_pairwise_indices"], exp_s)
        it, ip = t_["t_stats_scale_means"], t_["p_vals_scale_means"]
        if not has_values:
            for nm, got in (("t_stats_scale_means", it), ("p_vals_scale_means", ip), ("scale_mean_pairwise_indices", t_["scale_mean_pairwise_indices"])):
                if not (isinstance(got, dict) and got.get("raises") == "TypeError"):
                    findings.append({"kind": "model", "locus": "seam.legacy.%s.no-values" % nm,
                                     "detail": "no displayed row has a numeric value: expected TypeError, got %r" % (got,)})
            continue
        if not (isinstance(it, list) and isinstance(ip, list) and len(it) == n and len(ip) == n):
            findings.append({"kind": "model", "locus": "seam.legacy.t_stats_scale_means.shape", "detail": "got %r / %r" % (it, ip)})
            continue
        for b in range(n):
            if deg[a][b]:
                ctx.count("cells:degenerate-skipped")
                continue
            g_t, g_p = it[b], ip[b]
            as_found = common.num_close(g_t, mT[a][b]) and common.num_close(g_p, mP[a][b])
            as_fixed = common.num_close(g_t, xT[a][b]) and common.num_close(g_p, xP[a][b])
            differs = not (common.num_close(mT[a][b], xT[a][b]) and common.num_close(mP[a][b], xP[a][b]))
            if differs:
                hidden_effect = True
            if not as_found and not as_fixed:
                findings.append({"kind": "model", "locus": "seam.legacy.t_stats_scale_means", "detail":
                                 "selected %d compared %d: impl t=%r p=%r, model t=%r p=%r (repaired model t=%r p=%r)" % (
                                     a, b, g_t, g_p, mT[a][b], mP[a][b], xT[a][b], xP[a][b])})
            if isinstance(g_t, float) and math.isfinite(g_t) and g_t != 0.0:
                nontrivial = True
            if col_diff[a] or col_diff[b]:
                ctx.count("cells:difference-column")
                continue
            # statement level: the pooled test on the respondents of the two columns
            ja, jb = fc[a], fc[b]
            ot, odf = _pooled(orc[ja][1], orc[ja][0], orc[ja][2], orc[jb][1], orc[jb][0], orc[jb][2])
            op = C._p_formula(ot, odf)
            for what, exp_t, exp_p in (("python oracle", ot, op), ("Lean spec", sT[a][b], sP[a][b])):
                if not (common.num_close(g_t, exp_t) and common.num_close(g_p, exp_p)):
                    locus = KNOWN_HIDDEN if (differs and as_found) else "legacy.t_stats_scale_means.spec"
                    findings.append({"kind": "spec", "locus": locus, "detail":
                                     "selected %d compared %d: impl t=%r p=%r, respondent-level pooled test (%s) t=%r p=%r; "
                                     "hidden rows %r" % (a, b, g_t, g_p, what, exp_t, exp_p, plan["hidden"])})
                    break
        # -- relations on the implementation's own outputs
        x = it[a]
        if not (x == 0.0 or _isnan(x)):
            findings.append({"kind": "spec", "locus": "legacy.t_stats_scale_means.self-not-zero", "detail": "t(%d,%d) = %r" % (a, a, x)})
        x = t_["summary_t_stats"][a] if isinstance(t_["summary_t_stats"], list) and a < len(t_["summary_t_stats"]) else 0.0
        if not (x == 0.0 or _isnan(x)):
            findings.append({"kind": "spec", "locus": "legacy.summary_t_stats.self-not-zero", "detail": "t(%d,%d) = %r" % (a, a, x)})
    if hidden_effect or hidden_effect_var:
        ctx.count("rows:hidden-valued-row-changes-the-test")

    def anti(key_t, key_p, key_df, name):
        for a in range(n):
            for b in range(a + 1, n):
                ta, tb = tests[a].get(key_t), tests[b].get(key_t)
                if not (isinstance(ta, list) and isinstance(tb, list) and len(ta) == n and len(tb) == n):
                    return
                x, y = ta[b], tb[a]
                if not (common.num_close(x, -y) or (_isnan(x) and _isnan(y))):
                    findings.append({"kind": "spec", "locus": "legacy.%s.not-antisymmetric" % name,
                                     "detail": "t(%d,%d)=%r t(%d,%d)=%r" % (a, b, x, b, a, y)})
                for k in (key_p, key_df):
                    pa, pb = tests[a].get(k), tests[b].get(k)
                    if isinstance(pa, list) and isinstance(pb, list) and len(pa) == n and len(pb) == n and not common.num_close(pa[b], pb[a]):
                        findings.append({"kind": "spec", "locus": "legacy.%s.not-symmetric" % k.strip("_"),
                                         "detail": "(%d,%d)=%r (%d,%d)=%r" % (a, b, pa[b], b, a, pb[a])})
    anti("t_stats_scale_means", "p_vals_scale_means", "_two_sample_df", "t_stats_scale_means")
    anti("summary_t_stats", "summary_p_vals", "_df", "summary_t_stats")

    # ---- slice-level index sets
    i_idx = common.call_impl(lambda: mk().columns_scale_mean_pairwise_indices)
    i_alt = common.call_impl(lambda: mk().columns_scale_mean_pairwise_indices_alt)
    i_sum = common.call_impl(lambda: mk().summary_pairwise_indices)
    if exp_err is not None:
        ctx.count("alpha:error")
        for nm, got in (("columns_scale_mean_pairwise_indices", i_idx), ("columns_scale_mean_pairwise_indices_alt", i_alt),
                        ("summary_pairwise_indices", i_sum)):
            if not (isinstance(got, dict) and got.get("raises") == exp_err):
                findings.append({"kind": "model", "locus": "seam.legacy.alpha.error", "detail":
                                 "%s with alpha=%r: expected %s, got %r" % (nm, C._alpha_arg(case), exp_err, got)})
        return findings, _key(case) if nontrivial else None
    alpha = float(F(la["alpha"]))
    alt = None if la["alt"] is None else float(F(la["alt"]))
    ctx.count("alpha:%s" % ("pair" if alt is not None else "single"))

    def check_sets(name, got, al, P, T, Px, Tx, err, degm, Ps=None, Ts=None):
        if err is not None:
            if not (isinstance(got, dict) and got.get("raises") == err):
                findings.append({"kind": "model", "locus": "seam.legacy.%s.raises" % name, "detail": "expected %s, got %r" % (err, got)})
            return None
        if not (isinstance(got, list) and len(got) == n and all(isinstance(x, list) for x in got)):
            findings.append({"kind": "model", "locus": "seam.legacy.%s.shape" % name, "detail": "got %r for %d columns" % (got, n)})
            return None
        exp, expx = _sets(P, T, n, al, only_larger), _sets(Px, Tx, n, al, only_larger)
        for a in range(n):
            if a in got[a]:
                findings.append({"kind": "spec", "locus": "legacy.%s.self-included" % name,
                                 "detail": "column %d lists itself: %r (alpha=%r only_larger=%r)" % (a, got[a], al, only_larger)})
            for b in range(n):
                if b == a or degm[a][b] or C._near(P[a][b], al) or C._near(Px[a][b], al):
                    continue
                m_found, m_fixed = b in exp[a], b in expx[a]
                if (b in got[a]) != m_found and (b in got[a]) != m_fixed:
                    findings.append({"kind": "model", "locus": "seam.legacy.%s" % name, "detail":
                                     "column %d: impl %r, model %r (alpha=%r only_larger=%r col_order=%r): position %d" % (
                                         a, got[a], exp[a], al, only_larger, co, b)})
                    break
                if b in got[a]:
                    ctx.count("indices:members")
            if Ps is not None:
                # statement level: exactly the other columns with p < alpha (and a smaller mean in only-larger mode)
                for b in range(n):
                    if b == a or not okspec[a][b] or C._near(Ps[a][b], al) or C._near(P[a][b], al):
                        continue
                    want = C._sig(Ps[a][b], Ts[a][b], al, only_larger)
                    if (b in got[a]) != want:
                        findings.append({"kind": "spec", "locus": "legacy.%s.membership" % name, "detail":
                                         "column %d: impl %r; position %d has respondent-level p=%r t=%r (alpha=%r only_larger=%r col_order=%r)" % (
                                             a, got[a], b, Ps[a][b], Ts[a][b], al, only_larger, co)})
                        break
        return got

    err_scale = None if n == 0 else (None if has_values else "TypeError")
    g1 = check_sets("columns_scale_mean_pairwise_indices", i_idx, alpha, mP, mT, xP, xT, err_scale, deg, sP, sT)
    err_sum = "IndexError" if n == 0 else None
    check_sets("summary_pairwise_indices", i_sum, alpha, sP_, sT_, sP_, sT_, err_sum, sdeg)
    if alt is None:
        if i_alt is not None:
            findings.append({"kind": "spec", "locus": "legacy.columns_scale_mean_pairwise_indices_alt.not-None", "detail": "got %r" % (i_alt,)})
    else:
        g2 = check_sets("columns_scale_mean_pairwise_indices_alt", i_alt, alt, mP, mT, xP, xT, err_scale, deg, sP, sT)
        if g1 is not None and g2 is not None:
            for a in range(n):
                if not set(g1[a]) <= set(g2[a]):
                    findings.append({"kind": "spec", "locus": "legacy.columns_scale_mean_pairwise_indices_alt.not-superset",
                                     "detail": "column %d primary %r alt %r" % (a, g1[a], g2[a])})

    # ---- C05: another arrangement of the same columns renumbers the sets / re-indexes the arrays
    tr2 = copy.deepcopy(tr)
    tr2["columns_dimension"] = copy.deepcopy(case.get("cols_alt") or {})
    if (tr.get("columns_dimension") or {}).get("prune"):
        tr2["columns_dimension"]["prune"] = True
    part2 = _mk(case, tr2)()
    cl2 = common.call_impl(lambda: list(part2.column_labels))
    if isinstance(cl2, list) and isinstance(cl, list):
        common_l = [l for l in cl if l in cl2]
        p1 = {l: cl.index(l) for l in common_l}
        p2 = {l: cl2.index(l) for l in common_l}
        tests2 = _read_tests(part2, len(cl2))
        i_idx2 = common.call_impl(lambda: _mk(case, tr2)().columns_scale_mean_pairwise_indices)
        i_sum2 = common.call_impl(lambda: _mk(case, tr2)().summary_pairwise_indices)
        if len(common_l) >= 2 and len(cl2) != len(cl) or cl2 != cl:
            ctx.count("renumber:checked")
        if isinstance(tests2, list) and len(tests2) == len(cl2):
            for la_ in common_l:
                for key in ("t_stats_scale_means", "p_vals_scale_means", "_two_sample_df", "summary_t_stats", "summary_p_vals", "_df"):
                    u, v = tests[p1[la_]][key], tests2[p2[la_]][key]
                    if isinstance(u, dict) or isinstance(v, dict):
                        if u != v:
                            findings.append({"kind": "spec", "locus": "legacy.renumber.%s" % key.strip("_"),
                                             "detail": "column %s: %r under %r, %r under %r" % (la_, u, cl, v, cl2)})
                        continue
                    uu = [u[p1[l]] for l in common_l]
                    vv = [v[p2[l]] for l in common_l]
                    if not common.deep_close(uu, vv)[0]:
                        findings.append({"kind": "spec", "locus": "legacy.renumber.%s" % key.strip("_"),
                                         "detail": "column %s: %r under order %r, %r under order %r" % (la_, uu, cl, vv, cl2)})
                        break
        for name, s1, s2 in (("columns_scale_mean_pairwise_indices", i_idx, i_idx2), ("summary_pairwise_indices", i_sum, i_sum2)):
            if isinstance(s1, list) and isinstance(s2, list) and len(s1) == len(cl) and len(s2) == len(cl2):
                for la_ in common_l:
                    a1 = {cl[b] for b in s1[p1[la_]] if b < len(cl)} & set(common_l)
                    a2 = {cl2[b] for b in s2[p2[la_]] if b < len(cl2)} & set(common_l)
                    if a1 != a2:
                        findings.append({"kind": "spec", "locus": "legacy.renumber.%s" % name, "detail":
                                         "column %s lists %r under column order %r but %r under %r" % (
                                             la_, sorted(a1), cl, sorted(a2), cl2)})
                        break

    # ---- C05: hiding ROWS changes no value of a column-wise output
    if plan["hidden"]:
        tr3 = copy.deepcopy(tr)
        tr3["rows_dimension"] = {k: v for k, v in (tr.get("rows_dimension") or {}).items() if k != "elements"}
        tests3 = _read_tests(_mk(case, tr3)(), n)
        if isinstance(tests3, list) and len(tests3) == n:
            for a in range(n):
                bad = None
                for key in ("t_stats_scale_means", "p_vals_scale_means", "_two_sample_df", "summary_t_stats", "summary_p_vals", "_df"):
                    u, v = tests[a][key], tests3[a][key]
                    if isinstance(u, list) and isinstance(v, list) and len(u) == n and len(v) == n:
                        u = [x for b, x in enumerate(u) if not deg[a][b]]
                        v = [x for b, x in enumerate(v) if not deg[a][b]]
                    elif isinstance(u, dict) and isinstance(v, list):
                        # every valued row hidden: the test raises instead of answering
                        pass
                    if not common.deep_close(u, v)[0]:
                        bad = (key, u, v)
                        break
                if bad:
                    scale = bad[0] in ("t_stats_scale_means", "p_vals_scale_means", "_two_sample_df")
                    findings.append({"kind": "spec", "locus": KNOWN_HIDDEN if scale else "legacy.rows-hidden.%s" % bad[0].strip("_"),
                                     "detail": "selected column %d: %s = %r with rows %r hidden, %r with no row hidden" % (
                                         a, bad[0], bad[1], plan["hidden"], bad[2])})
                    break

    return findings, (_key(case) if nontrivial else None)


def _tree_fixed(findings, ctx, impl, fixed_model):
    """a `model` finding just appended for the as-found model is withdrawn when the tree matches the repaired model"""
    if common.deep_close(impl, fixed_model)[0]:
        findings.pop()
        ctx.count("tree:df-from-all-rows")
        return True
    return False


def _key(case):
    return (case["weighted"], json.dumps(case["survey"], sort_keys=True), json.dumps(case.get("transforms"), sort_keys=True))


def describe(case):
    vars_ = [gen.Var.from_json(d) for d in case["vars"]]
    return {"rows": len(vars_[0].cats), "cols": len(vars_[1].cats), "row_values": [c_.get("numeric_value") for c_ in vars_[0].cats],
            "weighted": case["weighted"], "n_respondents": len(case["survey"]), "transforms": case.get("transforms"),
            "cols_alt": case.get("cols_alt")}


def shrink_candidates(case):
    sv = case["survey"]
    n = len(sv)
    if n > 1:
        yield dict(case, survey=sv[: n // 2])
        yield dict(case, survey=sv[n // 2:])
    for i in range(min(n, 25)):
        yield dict(case, survey=sv[:i] + sv[i + 1:])
    tr = case.get("transforms") or {}
    for d in list(tr):
        yield dict(case, transforms={k: v for k, v in tr.items() if k != d})
        if isinstance(tr[d], dict):
            for kk in list(tr[d]):
                t3 = dict(tr)
                t3[d] = {k: v for k, v in tr[d].items() if k != kk}
                yield dict(case, transforms=t3)
    if case.get("cols_alt"):
        yield dict(case, cols_alt={})
