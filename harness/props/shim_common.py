"""Shared pieces of the C18 / C19 harness modules: array-dimension dicts for the real library,
their Lean encoding, transforms dicts in both encodings, seam observers.

Model encoding (JSON, see lean/CrCube/Driver/Shim.lean):
  dim  = {"items": [{"id": int, "alias": str, "subvar_id": str, "anchor": bool, "derived": bool}], "mr_ins": bool}
  ref  = int | str | None
  xf   = {"elements": {"mode": "absent"|"alias"|"subvar_id", "entries": [[ref, {"hide": bool|None, "name": str|None}], ...]} | None,
          "order_ids": [ref] | None, "top": [ref] | None, "bottom": [ref] | None, "opposing": {"ref": ref} | None}
"""
import copy


KINDS = ("MR", "MR_INS", "CA", "NUM_ARRAY")


def dim_type_of(kind):
    from cr.cube.enums import DIMENSION_TYPE as DT
    return {"MR": DT.MR_SUBVAR, "MR_INS": DT.MR_SUBVAR, "CA": DT.CA_SUBVAR, "NUM_ARRAY": DT.NUM_ARRAY}[kind]


def real_dim_dict(dim, kind, alias="arr"):
    """a real subvariables-dimension dict (the caller-owned object the library shims in place)"""
    els = []
    for it in dim["items"]:
        refs = {"alias": it["alias"], "name": "N " + it["alias"]}
        if it.get("anchor"):
            refs["anchor"] = "top"
        value = {"references": refs}
        if not it.get("no_id"):
            value["id"] = it["subvar_id"]         # `value.id` is optional: an element may come without it
        if kind != "NUM_ARRAY":
            value["derived"] = bool(it.get("derived"))
        els.append({"id": it["id"], "missing": False, "value": value})
    refs = {"alias": alias, "name": alias.upper(),
            "subreferences": [{"alias": it["alias"], "name": "N " + it["alias"]} for it in dim["items"]]}
    if dim.get("mr_ins"):
        refs["view"] = {"transform": {"insertions": [
            {"anchor": "top", "function": "any_non_missing_selected", "name": "ins", "id": 1,
             "kwargs": {"variable": alias, "subvariable_ids": []}}]}}
    elif kind == "CA":
        # real CA payloads carry subtotal insertions of their CATEGORIES in the view: these are no MR insertions
        refs["view"] = {"transform": {"insertions": [
            {"anchor": "top", "function": "subtotal", "name": "Top 2", "args": [1, 2], "id": 1}]}}
    sub = "num_arr" if kind == "NUM_ARRAY" else "variable"
    return {"derived": True, "references": refs,
            "type": {"class": "enum", "elements": els, "subtype": {"class": sub}}}


def payload_real(v):
    out = {}
    if v.get("hide") is not None:
        out["hide"] = v["hide"]
    if v.get("name") is not None:
        out["name"] = v["name"]
    return out


def payload_model(d):
    if not isinstance(d, dict):
        return {"hide": None, "name": "<non-dict %r>" % (d,)}
    h = d.get("hide")
    return {"hide": h if isinstance(h, bool) else None, "name": d.get("name")}


def real_xf(x):
    """a real dimension-transforms dict from the model encoding"""
    t = {}
    if x.get("elements") is not None:
        e = {}
        for k, v in x["elements"]["entries"]:
            e[k] = payload_real(v)
        mode = x["elements"].get("mode", "absent")
        if mode != "absent":
            e["key"] = mode
        t["elements"] = e
    order = {}
    if x.get("order_ids") is not None:
        order["type"] = "explicit"
        order["element_ids"] = list(x["order_ids"])
    fixed = {}
    if x.get("top") is not None:
        fixed["top"] = list(x["top"])
    if x.get("bottom") is not None:
        fixed["bottom"] = list(x["bottom"])
    if fixed:
        order["fixed"] = fixed
    if x.get("opposing") is not None:
        order["element_id"] = x["opposing"]["ref"]
    if order:
        t["order"] = order
    return t


def model_xf(t):
    """the model encoding of a real dimension-transforms dict (inverse of real_xf)"""
    x = {"elements": None, "order_ids": None, "top": None, "bottom": None, "opposing": None}
    if "elements" in t:
        e = t["elements"]
        mode = e.get("key") if e.get("key") in ("alias", "subvar_id") else "absent"
        x["elements"] = {"mode": mode,
                         "entries": [[canon_ref(k), payload_model(v)] for k, v in e.items() if k != "key"]}
    order = t.get("order") or {}
    if order.get("element_ids") is not None:
        x["order_ids"] = [canon_ref(r) for r in order["element_ids"]]
    fixed = order.get("fixed") or {}
    if "top" in fixed and fixed["top"] is not None:
        x["top"] = [canon_ref(r) for r in fixed["top"]]
    if "bottom" in fixed and fixed["bottom"] is not None:
        x["bottom"] = [canon_ref(r) for r in fixed["bottom"]]
    if "element_id" in order:
        x["opposing"] = {"ref": canon_ref(order["element_id"])}
    return x


def canon_ref(r):
    if r is None or isinstance(r, str):
        return r
    if isinstance(r, bool):
        return "<bool %r>" % r
    if isinstance(r, int):
        return int(r)
    return "<%s %r>" % (type(r).__name__, r)


def norm_model_xf(x):
    """Lean output -> same shape as model_xf output (lists, not tuples; explicit Nones)"""
    out = {"elements": None, "order_ids": x.get("order_ids"), "top": x.get("top"),
           "bottom": x.get("bottom"), "opposing": x.get("opposing")}
    if x.get("elements") is not None:
        out["elements"] = {"mode": x["elements"]["mode"],
                           "entries": [[k, {"hide": v.get("hide"), "name": v.get("name")}]
                                       for k, v in x["elements"]["entries"]]}
    return out


def exc_name(fn):
    """(value, None) or (None, 'TypeName')"""
    import warnings
    try:
        with warnings.catch_warnings():
            warnings.simplefilter("ignore")
            return fn(), None
    except Exception as e:  # noqa
        return None, type(e).__name__


def impl_view(dim_dict, dtype, xf_dict, opposing=None):
    """what a Dimension over these (caller-owned) dicts reports: the seam observables.
    Runs the shims in place, like the library does."""
    from cr.cube.dimension import Dimension
    from cr.cube.collator import ExplicitOrderCollator, SortByValueCollator
    from cr.cube.enums import ORDER_FORMAT
    d = Dimension(dim_dict, dtype, xf_dict)
    v = {}
    v["element_ids"] = [canon_ref(e) for e in d.element_ids]
    els = d.valid_elements
    v["xforms"] = [{"hide": (True if e.is_hidden else None), "name": e._element_transforms.name} for e in els]
    v["hidden"] = list(d.hidden_idxs)
    v["labels"] = list(d.element_labels)
    v["order"] = [idx for _, idx, _ in ExplicitOrderCollator(d, (), ORDER_FORMAT.SIGNED_INDEXES)._element_order_descriptors]
    sv = SortByValueCollator(d, [], [], (), ORDER_FORMAT.SIGNED_INDEXES)
    v["top"] = list(sv._iter_fixed_idxs(d.order_spec.top_fixed_ids))
    v["bottom"] = list(sv._iter_fixed_idxs(d.order_spec.bottom_fixed_ids))
    if "element_id" in (xf_dict.get("order") or {}):
        t = d.translate_element_id(d.order_spec.element_id)
        try:
            v["opposing"] = {"idx": d.element_ids.index(t)}
        except ValueError:
            v["opposing"] = {"idx": None}
    else:
        v["opposing"] = None
    return v


def model_view_cmp(mv):
    """Lean view -> comparable with impl_view (hide False and None are the same to the analysis)"""
    return {"element_ids": mv["element_ids"],
            "xforms": [{"hide": (True if x["hide"] is True else None),
                        "name": ("" if x["name"] == "" else x["name"])} for x in mv["xforms"]],
            "hidden": mv["hidden"], "order": mv["order"], "top": mv["top"], "bottom": mv["bottom"],
            "opposing": mv["opposing"]}


def impl_view_cmp(iv):
    return {k: iv[k] for k in ("element_ids", "xforms", "hidden", "order", "top", "bottom", "opposing")}


def non_json_path(x, path="$"):
    """path of the first value that is not JSON-like (dict / list / tuple / str / int / float / bool / None), or None.
    The caller-owned dicts must stay plain data: e.g. a one-shot iterator written into them is consumed by the
    first reader and silently empty for every later one."""
    if x is None or isinstance(x, (str, int, float, bool)):
        return None
    if isinstance(x, dict):
        for k, v in x.items():
            if not (k is None or isinstance(k, (str, int, float, bool))):
                return "%s{key %s}" % (path, type(k).__name__)
            r = non_json_path(v, "%s.%s" % (path, k))
            if r:
                return r
        return None
    if isinstance(x, (list, tuple)):
        for i, v in enumerate(x):
            r = non_json_path(v, "%s[%d]" % (path, i))
            if r:
                return r
        return None
    return "%s = <%s>" % (path, type(x).__name__)


def jdump(x):
    """json.dumps that never fails (details of findings)"""
    import json
    try:
        return json.dumps(x, default=lambda o: "<%s>" % type(o).__name__)
    except Exception:  # noqa
        return repr(x)


# keys of a dimension-transforms dict the shim is entitled to rewrite
SHIM_KEYS = ("elements",)
SHIM_ORDER_KEYS = ("element_ids", "fixed")


def unshimmed_part(tr):
    """everything in a transforms dict that NO code may change: all top-level entries other than the two dimension
    entries, and inside those everything but element keys / explicit ids / fixed lists"""
    import copy
    out = {}
    for k, v in tr.items():
        if k in ("rows_dimension", "columns_dimension") and isinstance(v, dict):
            d = {kk: vv for kk, vv in v.items() if kk not in SHIM_KEYS and kk != "order"}
            if isinstance(v.get("order"), dict):
                d["order"] = {kk: vv for kk, vv in v["order"].items() if kk not in SHIM_ORDER_KEYS}
            elif "order" in v:
                d["order"] = v["order"]
            out[k] = d
        else:
            out[k] = v
    return copy.deepcopy(out) if non_json_path(out) is None else out
