"""C05 extension — measures computed ALONG a dimension (the moving average of a categorical-date dimension) under
display transforms on that same dimension.

A smoothed output is a function of the whole series in PAYLOAD order: every period's window reaches back over the
periods before it, whether or not those are displayed, and wherever they are displayed.  C05 says that order / hide /
prune only select and re-order, so the smoothed value shown for a period is the one it has without those transforms.
Families:

 * strand (1-D) over cat_date (and, for the guard branch, cat / datetime) with a `mean` cube-measure, a smoother in
   the rows-dimension transforms whose window runs over {absent, 0, 1, 2, 3, #displayed, #displayed+1, #valid,
   #valid+1}, and ALWAYS a second transform on the same dimension (explicit / payload / label / by-value order, fixed
   lists, hide flags, prune with an emptied wave at any position, insertions anchored anywhere);
 * slice (2-D) rows cat / mr x columns cat_date with a `mean` cube-measure, smoother + the same transform grammar
   on the columns (and an independent one on the rows).

Oracles: (a) the C05 relation of the base module (every public lazyproperty under t = under strip(t) re-indexed by the
reported orders; strip keeps the smoother); (b) `smoothed_means` against the Lean SPEC of the moving average
(`SmoothingSpec.smoothed`, op `smooth`) of the payload means of the valid elements, re-indexed by the reported order,
NaN on inserted vectors - so a change that breaks t and strip(t) alike is still reported; (c) `means` likewise
(payload value of each displayed element).
"""
import copy
from fractions import Fraction

import common
import gen
from props import _slice_common as sc
from props import c05 as base

PROPERTY = "C05"
LEAN_MODULE = "CrCube.Props.C05_Smooth"
THEOREMS = [
    "CrCube.C05.smoothed_vector_reindexed",
    "CrCube.C05.smoothed_vector_cell",
    "CrCube.C05.smoothed_matrix_reindexed",
    "CrCube.C05.smooth_then_assemble_ne_assemble_then_smooth",
    "CrCube.C05.smooth_assemble_commute_payload_order",
]
RULE = ("strands over cat_date (some cat / datetime) and slices {cat,mr} x cat_date, always with a `mean` measure and a "
        "smoother (window absent/0/1/2/3/#displayed(+1)/#valid(+1)) on the smoothed dimension PLUS at least one of "
        "order / hide / prune on that dimension, insertions anywhere, an emptied wave at a random position; "
        "non-trivial = smoothing applied and the displayed order differs from the payload order; "
        "distinct = (kinds, window, transforms, orders)")
ASSUMPTIONS = ["strip(t) keeps the smoother; smoothing is defined on the payload order of the valid elements (C20)"]
TRUSTED_EXTRA = []
EXHAUSTIVE = False

WAVE_KINDS = ["cat_date"] * 6 + ["cat", "datetime"]


def _var_with(rng, kinds, min_valid_last, tries=12, **kw):
    case = None
    for _ in range(tries):
        case = sc.gen_case(rng, kinds=kinds, **kw)
        vars_, _ = sc.load(case)
        if len(vars_[-1].valid_cat_pos) >= min_valid_last:
            break
    return case


def _empty_a_wave(rng, case, axis):
    """move every respondent of ONE valid category (first, middle or last) of variable `axis` to another one"""
    vars_, survey = sc.load(case)
    v = vars_[axis]
    vpos = v.valid_cat_pos
    if len(vpos) < 3:
        return
    hole = rng.choice(vpos)
    others = [p for p in vpos if p != hole]
    new = []
    for w, a in survey:
        a = list(a)
        if a[axis] == [hole]:
            a[axis] = [rng.choice(others)]
        new.append((w, a))
    case["survey"] = gen.survey_to_json(new)


def _second_transform(rng, d, v):
    """make sure the dimension carries order, hide or prune besides the smoother"""
    ids = sc.element_keys(v)
    has_hide = any(x.get("hide") for x in (d.get("elements") or {}).values())
    if "order" in d or has_hide or d.get("prune"):
        return
    r = rng.random()
    if r < 0.4 and len(ids) >= 2:
        l = list(ids)
        if rng.random() < 0.5:
            l.reverse()
        else:
            rng.shuffle(l)
        d["order"] = {"type": "explicit", "element_ids": l[: rng.randint(1, len(l))]}
    elif r < 0.8 and ids:
        el = d.setdefault("elements", {})
        el.setdefault(str(rng.choice(ids)), {})["hide"] = True
    else:
        d["prune"] = True


def _window(rng, n_valid, d):
    hidden = sum(1 for x in (d.get("elements") or {}).values() if x.get("hide"))
    shown = max(n_valid - hidden, 0)
    w = rng.choice(["absent", 0, 1, 2, 2, 2, 3, 3, shown, shown + 1, n_valid, n_valid, n_valid + 1])
    sm = {}
    if w != "absent":
        sm["window"] = w
    if rng.random() < 0.7:
        sm["function"] = "one_sided_moving_avg"
    return sm


def _means(rng, vars_, p_nan=0.06):
    tot = 1
    for x in gen.raw_shape(vars_):
        tot *= x
    # distinct-ish dyadic values: a window over the wrong periods changes the result
    return [gen.frac_str(Fraction(rng.randint(0, 200), rng.choice([1, 2, 4, 8]))) if rng.random() >= p_nan else None
            for _ in range(tot)]


def _extra_measures(rng, case, vars_):
    ms = {"mean": _means(rng, vars_)}
    if rng.random() < 0.3:
        ms[rng.choice(["sum", "stddev"])] = _means(rng, vars_, 0.1)
    case["measures"] = ms


def gen_strand_case(rng):
    kind = rng.choice(WAVE_KINDS)
    case = _var_with(rng, [kind], 3, max_n=7, n_resp=rng.randint(5, 40))
    if rng.random() < 0.5:
        _empty_a_wave(rng, case, 0)
    vars_, _ = sc.load(case)
    v = vars_[0]
    d = base.gen_dim(rng, v, None, [], strand=True)
    _second_transform(rng, d, v)
    d["smoother"] = _window(rng, len(v.valid_cat_pos), d)
    case["transforms"] = {"rows_dimension": d}
    _extra_measures(rng, case, vars_)
    case["population"] = rng.choice([0, 1000])
    case["family"] = "strand"
    return case


def gen_slice_case(rng):
    rk = rng.choice(["cat", "cat", "mr"])
    case = _var_with(rng, [rk, "cat_date"], 3, max_n=6, n_resp=rng.randint(8, 40), missing_items=True)
    if rng.random() < 0.5:
        _empty_a_wave(rng, case, 1)
    vars_, _ = sc.load(case)
    R, C = vars_
    cd = base.gen_dim(rng, C, R, [])
    _second_transform(rng, cd, C)
    cd["smoother"] = _window(rng, len(C.valid_cat_pos), cd)
    rd = base.gen_dim(rng, R, C, cd.get("insertions", []))
    if rng.random() < 0.3:
        # a smoother on the ROWS dimension of a slice is not applied: must not disturb anything
        rd["smoother"] = {"function": "one_sided_moving_avg", "window": 2}
    for d in (rd, cd):
        if isinstance(d.get("order"), dict) and d["order"].get("type") == "opposing_insertion":
            del d["order"]
    if any(it.get("missing") for it in (R.items or [])):
        for d in (rd, cd):
            o = d.get("order")
            if isinstance(o, dict) and o.get("measure") == "col_index":
                o["measure"] = "col_percent"
    _second_transform(rng, cd, C)
    case["transforms"] = {"rows_dimension": rd, "columns_dimension": cd}
    _extra_measures(rng, case, vars_)
    case["population"] = 0
    case["family"] = "slice"
    return case


def generate(ctx):
    return [gen_strand_case(ctx.rng) for _ in range(ctx.n(70, 900))] + \
           [gen_slice_case(ctx.rng) for _ in range(ctx.n(30, 400))]


# ---- payload means of the valid elements ---------------------------------------------------------------------------

def _v(x):
    return "nan" if x is None else x


def _payload_means(case, vars_):
    """strand: 1-D list over the valid categories; slice: rows (valid cats / valid MR items, selected plane) x valid
    column categories.  Values as exact strings ("p/q" / "nan")."""
    data = case["measures"]["mean"]
    if len(vars_) == 1:
        return [_v(data[p]) for p in vars_[0].valid_cat_pos]
    R, C = vars_
    nc = len(C.cats)
    if R.kind == "mr":
        ncat = len(R.cats)
        sel = [i for i, c in enumerate(R.cats) if c.get("selected")][0]
        return [[_v(data[(k * ncat + sel) * nc + j]) for j in C.valid_cat_pos] for k in R.valid_item_pos]
    return [[_v(data[i * nc + j]) for j in C.valid_cat_pos] for i in R.valid_cat_pos]


def _smoother_json(sm):
    return {k: sm[k] for k in ("function", "window") if k in sm and sm[k] is not None}


def _smoothed_dim(case):
    return "rows_dimension" if case["family"] == "strand" else "columns_dimension"


def lean_ops(case):
    vars_, _ = sc.load(case)
    sm = _smoother_json(case["transforms"][_smoothed_dim(case)].get("smoother") or {})
    pm = _payload_means(case, vars_)
    cd = vars_[-1].kind == "cat_date"
    if case["family"] == "strand":
        return [{"op": "smooth", "smoother": sm, "cat_date": cd, "series": [pm], "mats": []}]
    return [{"op": "smooth", "smoother": sm, "cat_date": cd, "series": [], "mats": [pm]}]


def _pick1(vals, order):
    return [float("nan") if x < 0 else vals[x] for x in order]


def _pick2(mat, ro, co):
    return [[float("nan") if (x < 0 or y < 0) else mat[x][y] for y in co] for x in ro]


def evaluate(case, louts, ctx):
    vars_, _ = sc.load(case)
    fam = case["family"]
    dkey = _smoothed_dim(case)
    sm = case["transforms"][dkey].get("smoother") or {}
    ctx.count("smooth:%s window=%r" % (fam, sm.get("window", "absent")))
    findings, key = base.evaluate(case, [], ctx)
    out = louts[0]
    if "raises" in out:
        raise common.HarnessFault("smoothing model raised on %r" % (sm,))
    p = base._cube(case, case["transforms"]).partitions[0]
    ro = common.call_impl(lambda: p.row_order())
    if not isinstance(ro, list):
        return findings, key
    pm = common.model_to_float(_payload_means(case, vars_))
    if fam == "strand":
        spec = common.model_to_float(out["spec"]["series"][0])
        model = common.model_to_float(out["series"][0])
        order = ro
        exp_s, exp_m, exp_u = _pick1(spec, ro), _pick1(model, ro), _pick1(pm, ro)
        pre = "strand"
    else:
        co = common.call_impl(lambda: p.column_order())
        if not isinstance(co, list):
            return findings, key
        spec = common.model_to_float(out["spec"]["mats"][0])
        model = common.model_to_float(out["mats"][0])
        order = co
        if len(ro) == 0 or len(co) == 0:
            return findings, key
        exp_s, exp_m, exp_u = _pick2(spec, ro, co), _pick2(model, ro, co), _pick2(pm, ro, co)
        pre = "slice"
    applied = not common.deep_close(spec, pm)[0]
    got_u = common.call_impl(lambda: p.means)
    got_s = common.call_impl(lambda: p.smoothed_means)
    det = "smoother=%r row_order=%r%s payload means=%s" % (
        sm, ro, "" if fam == "strand" else " col_order=%r" % (order,), sc._short(pm))
    sc.compare(findings, "spec", "%s.means.payload-value-of-displayed-element" % pre, got_u, exp_u, det)
    if sc.compare(findings, "spec", "%s.smoothed_means.payload-order-window" % pre, got_s, exp_s, det):
        sc.compare(findings, "model", "seam.%s.smoothed_means" % pre, got_s, exp_m, det)
    # every reading of the smoothed series names the same element at position i as the plain one does
    if fam == "slice":
        for name in ("smoothed_column_proportions", "smoothed_column_index"):
            a = common.call_impl(lambda: getattr(p, name))
            if isinstance(a, list) and a and isinstance(a[0], list):
                sc.compare(findings, "spec", "slice.%s.extent" % name, [len(a), len(a[0])], [len(ro), len(order)], det)
    displayed = [x for x in order if x >= 0]
    if applied and displayed != sorted(displayed) or (applied and len(displayed) < len(pm if fam == "strand" else pm[0])):
        ctx.count("smooth:applied-under-order/hide/prune")
        key = (fam, repr(sm), repr(case["transforms"]), tuple(ro), tuple(order))
    return findings, key


def describe(case):
    d = base.describe(case)
    d["family"] = case.get("family")
    return d


shrink_candidates = sc.shrink_candidates
