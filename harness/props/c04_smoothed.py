"""C04 on the SMOOTHED twins — subtotals and wave differences under a smoother transform on the columns.

`smoothed_column_proportions / smoothed_column_percentages` are proportions of the slice and
`smoothed_column_index / smoothed_means` are measures that cannot be added, so every sentence of C04 about
proportions / NaN measures binds them too.  The smoothed measure classes re-derive two of the four blocks
(`_base_values`, `_subtotal_rows`) and inherit the other two, i.e. they are a SECOND hand-written copy of the
inserted-row logic which the un-smoothed checks of c04.py never read.

Family generated here: slices whose COLUMNS carry a smoother transform (any window: absent / null / 0 / 1 / 2 ..
ncols + 1, function absent / null / '' / named / not implemented; columns categorical-date or - guard - plain
categorical), rows categorical-date (wave differences), categorical or MR, optional table dimension, valid counts,
the whole C04 insertion grammar on rows AND columns (view and / or transform level) plus a forced wave family on
the rows (multi-term differences 2-1 / 1-2 / 2-2, one-minus-one differences, plain multi-addend subtotals, stale
and repeated ids), and a random READ SEQUENCE of the smoothed and un-smoothed outputs on one slice object.

Oracles
  spec : Lean `SubSmoothSpec.demandedRow` per inserted row at the base columns: merged category (smoothed series of
         the merged category's proportions), one-minus-one wave difference (difference of the two smoothed
         percentages), multi-term wave difference (NaN); difference x difference intersections, own-direction column
         differences and multi-term column wave differences NaN; smoothed index / means NaN on every inserted cell;
         percentages = 100 x proportions on inserted cells; MERGE ORACLE: the library re-run on the survey with the
         addends merged (same smoother) must show the subtotal's smoothed row for the merged category.
  model: `_ColumnProportionsSmoothed.blocks` = Lean `smoothedColumnProportions (Msr.columnProportions …)` block by
         block; the un-smoothed column proportions read in the same sequence vs the c04 model (no cross-talk).
"""
from fractions import Fraction
import copy

import gen
import common
from props import _subtotals as S
from props import c04 as B

PROPERTY = "C04"
LEAN_MODULE = ["CrCube.Props.C04_Smoothed"]
THEOREMS = [
    "CrCube.C04.smoothed_multi_term_row_nan",
    "CrCube.C04.smoothed_multi_term_row_nan_model",
    "CrCube.C04.smoothed_rule_total",
]
RULE = ("slices with a smoother transform on the columns (windows absent/null/0/1/2..ncols+1, functions absent/null/''/"
        "named/unknown; columns cat_date or plain cat), rows cat_date / cat / mr, optional table dimension, valid counts; "
        "C04 insertion grammar on both dimensions + forced wave family on the rows (multi-term 2-1/1-2/2-2, 1-1, plain, "
        "stale / repeated ids); random read sequence of smoothed and un-smoothed outputs. Non-trivial = at least one "
        "inserted row on which the statement fixes the smoothed column proportions; distinct = (kinds, rules, window, "
        "applies, first values) key")
ASSUMPTIONS = [
    "the smoothed series of a row is C20's trailing mean of the proportions the un-smoothed table shows (C20 owns the "
    "smoothing itself; here only WHICH row of proportions an inserted row carries is judged)",
    "inserted COLUMNS of a smoothed table: only the NaN rules are demanded (where a merged period would sit in the "
    "series is not determined by the statement); their values are compared at the model seam only",
    "merge-oracle cells that also lie in a column difference are skipped (F12 territory of c04.py)",
]
TRUSTED_EXTRA = []
EXHAUSTIVE = False

READS = ["smoothed_column_proportions", "smoothed_column_percentages", "smoothed_column_index", "column_proportions",
         "column_percentages"]


# ---------------------------------------------------------------------------------------------
# generation


def _wave_family(rng, var):
    """insertions on a (categorical-date) dimension: at least one difference with several terms on either side, plus
    optional one-minus-one differences, plain subtotals and exotic spellings that reduce to those"""
    vids = S.valid_ids(var)
    stale = max([c["id"] for c in var.cats] + [0]) + 61
    mids = [c["id"] for c in var.cats if c["missing"]]
    out = []

    def ins(pos, neg):
        d = {"function": "subtotal", "name": "w%d" % len(out),
             "anchor": rng.choice(["top", "bottom"] + vids + [stale])}
        form = rng.choice(["args", "kwpos", "both"])
        if form == "args":
            d["args"] = pos
            if neg:
                d["kwargs"] = {"negative": neg}
        elif form == "kwpos":
            d["kwargs"] = {"positive": pos}
            if neg:
                d["kwargs"]["negative"] = neg
        else:
            d["args"] = [rng.choice(vids)] if vids else []      # ignored: kwargs.positive wins
            d["kwargs"] = {"positive": pos, "negative": neg}
        if rng.random() < 0.6:
            d["id"] = len(out) + 1
        out.append(d)

    kinds = ["multi"] + [k for k in ("one", "plain", "multi", "one_stale", "dup") if rng.random() < 0.4]
    rng.shuffle(kinds)
    for kind in kinds[:3]:
        perm = rng.sample(vids, len(vids))
        n = len(perm)
        if kind == "multi" and n >= 3:
            shape = rng.choice([(2, 1), (2, 1), (1, 2), (2, 2), (3, 1)])
            na = min(shape[0], n - 1)
            nn = max(1, min(shape[1], n - na))
            if na == 1 and nn == 1:
                na = 2 if n >= 3 else 1
            pos, neg = perm[:na], perm[na:na + nn]
            if rng.random() < 0.3 and vids[0] not in pos:
                neg = [vids[0]] + [x for x in neg if x != vids[0]][: max(0, nn - 1)]     # first element as subtrahend
            ins(pos, neg)
        elif kind in ("one", "multi") and n >= 2:
            ins(perm[:1], perm[1:2])
        elif kind == "one_stale" and n >= 2:
            # a stale / missing id next to the single subtrahend: still one-minus-one
            ins(perm[:1], [perm[1], rng.choice([stale] + mids)])
        elif kind == "dup" and n >= 2:
            ins([perm[0], perm[0]], [perm[1]])            # a repeated addend id counts once: one-minus-one
        elif n >= 1:
            ins(perm[:rng.randint(1, min(3, n))], [])
    return out


def _level(rng, lst):
    lv = rng.choice(["transform", "transform", "view", "both"])
    if lv == "transform":
        return {"view": None, "transform": lst}
    if lv == "view":
        return {"view": lst, "transform": None}
    return {"view": [d for d in lst[:1]], "transform": lst}      # the transform REPLACES the view-level list


def gen_case(rng):
    rk = rng.choice(["cat_date"] * 6 + ["cat"] * 3 + ["mr"])
    ck = "cat_date" if rng.random() < 0.88 else "cat"
    vars_ = []
    if rng.random() < 0.1:
        vars_.append(gen.gen_var(rng, "cat", "t", n=rng.randint(1, 2), allow_missing=rng.random() < 0.5))
    if rk == "mr":
        vars_.append(gen.gen_var(rng, "mr", "v0", n=rng.randint(1, 3)))
    else:
        vars_.append(gen.gen_var(rng, rk, "v0", n=rng.randint(3, 6), numeric="some", min_valid=3))
    ncols = rng.randint(1, 7)
    vars_.append(gen.gen_var(rng, ck, "v1", n=ncols, numeric="some", min_valid=min(ncols, rng.choice([1, 3, 4, 5]))))
    weighted = rng.random() < 0.6
    survey = gen.gen_survey(rng, vars_, n_resp=rng.randint(0, 40), weighted=weighted)
    rv, cv = vars_[-2], vars_[-1]
    none = {"view": None, "transform": None}
    if rk == "mr":
        rows = none
    else:
        lst = _wave_family(rng, rv) if rng.random() < 0.7 else S.gen_insertions(rng, rv)
        if rng.random() < 0.25:
            lst = lst + [S.gen_insertion(rng, rv, len(lst), False)]
            rng.shuffle(lst)
        rows = _level(rng, lst)
    cols = none
    if rng.random() < 0.35:
        cols = _level(rng, S.gen_insertions(rng, cv, max_n=2))
    valid = rng.choice(["none"] * 5 + ["both", "unweighted"])
    subset = [i for i in range(len(survey)) if rng.random() < 0.7] if valid != "none" else []
    nvalid_cols = len(S.valid_ids(cv))
    w = rng.choice(["absent", None, 0, 1, 2, 2, 2, 3, 3, max(2, nvalid_cols - 1), nvalid_cols, nvalid_cols + 1])
    sm = {}
    if w != "absent":
        sm["window"] = w
    f = rng.choice(["absent", "absent", "one_sided_moving_avg", "one_sided_moving_avg", None, ""])
    if rng.random() < 0.04:
        f = rng.choice(["two_sided", "mean"])
    if f != "absent":
        sm["function"] = f
    smoother = sm if rng.random() < 0.92 else "absent"
    extras = {}
    if rng.random() < 0.2:
        n = 1
        for s in gen.raw_shape(vars_):
            n *= s
        extras["mean"] = [None if rng.random() < 0.1 else gen.frac_str(Fraction(rng.randint(0, 20), 2)) for _ in range(n)]
    reads = list(READS)
    rng.shuffle(reads)
    nparts = 1
    if len(vars_) == 3:
        nparts = len(vars_[0].valid_cat_pos)
    return {"mode": "slice", "vars": [v.to_json() for v in vars_], "survey": gen.survey_to_json(survey),
            "weighted": weighted, "ins": {"rows": rows, "cols": cols}, "valid": valid, "valid_subset": subset,
            "extras": extras, "sums": None, "population": None, "blk": None,
            "k": rng.randrange(nparts) if nparts else 0, "smoother": smoother, "reads": reads}


def generate(ctx):
    return [gen_case(ctx.rng) for _ in range(ctx.n(260, 4000))]


# ---------------------------------------------------------------------------------------------
# lean ops


def _smoother_json(sm):
    d = {}
    if isinstance(sm, dict):
        for k in ("function", "window"):
            if sm.get(k) is not None:
                d[k] = sm[k]
    return d


def lean_ops(case):
    base = dict(case, blk=None)
    ops = [op for op in B.lean_ops(base) if op["op"] == "slice_sub"]
    o = ops[0]
    ops.append({"op": "slice_sub_smoothed", "vars": o["vars"], "wdata": o["wdata"], "k": o["k"], "rows": o["rows"],
                "cols": o["cols"], "wvalid": o["wvalid"], "smoother": _smoother_json(case["smoother"])})
    return ops


# ---------------------------------------------------------------------------------------------
# evaluation


def _build_cube(case, vars_, survey, ins, extras=None):
    """c04.build_cube + the smoother transform on the columns dimension"""
    from cr.cube.cube import Cube
    resp = B.build_response(case, vars_, survey, None, extras, None)
    dv = S.dim_vars(vars_)
    tr = {}
    for key, (var, role), tkey in (("rows", dv[-2], "rows_dimension"), ("cols", dv[-1], "columns_dimension")):
        spec = ins.get(key) or {}
        if role == "cat" and spec.get("view") is not None:
            S.attach_view(resp, vars_, vars_.index(var), role, spec["view"])
        if spec.get("transform") is not None:
            tr[tkey] = {"insertions": copy.deepcopy(spec["transform"])}
    if case["smoother"] != "absent":
        tr.setdefault("columns_dimension", {})["smoother"] = copy.deepcopy(case["smoother"])
    return Cube(resp, transforms=tr)


def _f(findings, kind, locus, detail):
    findings.append({"kind": kind, "locus": locus, "detail": detail[:700]})


def _scaled(m, k):
    return [[(x * k if isinstance(x, float) else x) for x in row] for row in m]


def evaluate(case, louts, ctx):
    vars_, survey = B._load(case)
    findings = []
    L, M = louts[0], louts[1]
    cube = _build_cube(case, vars_, survey, case["ins"])
    part = common.call_impl(lambda: len(cube.partitions))
    if isinstance(part, dict):
        _f(findings, "model", "api.partitions", repr(part))
        return findings, None
    sl = cube.partitions[case["k"]]
    try:
        V = B._SliceView(sl)
    except Exception as e:  # noqa
        _f(findings, "model", "api.slice-construction", "%s: %s" % (type(e).__name__, e))
        return findings, None
    dv = S.dim_vars(vars_)
    kinds = "x".join(v.kind for v, _ in dv)
    nrs, ncs = len(L["row_subtotals"]), len(L["col_subtotals"])
    if (V.nrs, V.ncs) != (nrs, ncs):
        _f(findings, "spec", "dim.surviving-insertions",
           "number of inserted rows/cols %r, statement (gauntlet) %r" % ((V.nrs, V.ncs), (nrs, ncs)))
        return findings, None

    # ---- the read sequence on ONE slice object ---------------------------------------------------
    got = {}
    for name in case["reads"]:
        got[name] = V.get(name)
    if "mean" in case["extras"]:
        got["smoothed_means"] = V.get("smoothed_means")
    # ... and once more: a second read must not differ from the first (in-place edits of cached blocks)
    for name in case["reads"][:2]:
        again = V.get(name)
        ok, where = common.deep_close(again, got[name])
        if not ok:
            _f(findings, "model", "api.%s.reread" % name, "second read differs%s" % where)

    sm_names = ("smoothed_column_proportions", "smoothed_column_percentages", "smoothed_column_index")
    if "raises" in M:
        for name in sm_names:
            if not (isinstance(got[name], dict) and got[name].get("raises") == "NotImplementedError"):
                _f(findings, "model", "api.%s.unknown-function" % name, "model raises, impl %r" % (got[name],))
        ctx.count("smoothed:raises")
        return findings, None
    for name in sm_names:
        if not isinstance(got[name], list):
            _f(findings, "model", "api.%s" % name, repr(got[name]))
    if findings:
        return findings, None
    ctx.count("smoothed:applies" if M["applies"] else "smoothed:guard")
    ctx.count("smoothed-kinds:" + kinds)

    # ---- model seams ----------------------------------------------------------------------------
    scp, spc = got["smoothed_column_proportions"], got["smoothed_column_percentages"]
    model = common.model_to_float(S.assemble_model(M["model"], V.ro, V.co, nrs, ncs))
    d = S.first_diff(scp, model, V.ro, V.co, nrs, ncs)
    if d is not None:
        _f(findings, "model", "seam.msr.smoothed_column_proportions.%s" % d[0],
           "display cell (%d,%d): impl %r model %r" % (d[1], d[2], d[3], d[4]))
    d = S.first_diff(spc, _scaled(model, 100.0), V.ro, V.co, nrs, ncs)
    if d is not None:
        _f(findings, "model", "seam.msr.smoothed_column_percentages.%s" % d[0],
           "display cell (%d,%d): impl %r, 100 x model %r" % (d[1], d[2], d[3], d[4]))
    plain = common.model_to_float(S.assemble_model(L["column_proportions"], V.ro, V.co, nrs, ncs))
    for name, k in (("column_proportions", 1.0), ("column_percentages", 100.0)):
        d = S.first_diff(got[name], _scaled(plain, k), V.ro, V.co, nrs, ncs)
        if d is not None:
            _f(findings, "model", "seam.msr.%s.read-with-smoothed.%s" % (name, d[0]),
               "reads %r; display cell (%d,%d): impl %r model %r" % (case["reads"], d[1], d[2], d[3], d[4]))

    # ---- spec: what the statement fixes on inserted rows / columns / intersections -----------------
    nan_locus = {"all-nan": "catdate-multiterm-diff-not-nan", "wave-diff": "catdate-wave-diff", "merged": "merged-row"}
    rules = M["rules"]
    spec_rows = [None if r is None else common.model_to_float(r) for r in M["spec_rows"]]
    row_diff, col_diff = L["spec_row_is_diff"], L["spec_col_is_diff"]
    cterms = L["spec_col_terms"]
    ccd = dv[-1][0].kind == "cat_date" and dv[-1][1] == "cat"
    key_vals = []
    plain_body = common.model_to_float(L["column_proportions"]["body"])
    smooth_body = common.model_to_float(M["spec_body"])
    for i, rsig in enumerate(V.ro):
        rs, ri = S.cell_of(rsig, nrs)
        for j, csig in enumerate(V.co):
            cs, ci = S.cell_of(csig, ncs)
            if not rs and not cs:
                continue
            for name, m, k in (("smoothed_column_proportions", scp, 1.0), ("smoothed_column_percentages", spc, 100.0)):
                x = m[i][j]
                if rs and not cs and spec_rows[ri] is not None:
                    want = spec_rows[ri][ci]
                    want = want * k if isinstance(want, float) else want
                    if not common.num_close(x, want):
                        what = {"all-nan": "difference with several terms on a categorical-date dimension: NaN",
                                "wave-diff": "one-minus-one difference: difference of the two smoothed percentages",
                                "merged": "subtotal without subtrahends: the merged category's smoothed series"}[rules[ri]]
                        _f(findings, "spec", "slice.%s.%s" % (name, nan_locus[rules[ri]]),
                           "row insertion %d terms %r window %r, display cell (%d,%d): impl %r, statement (%s) %r"
                           % (ri, L["spec_row_terms"][ri], M["window"], i, j, x, what, want))
                    else:
                        ctx.count("smoothed_rule:" + rules[ri])
                        if k == 1.0:
                            key_vals.append("nan" if S.is_nan(want) else round(float(want), 9))
                if rs and cs and row_diff[ri] and col_diff[ci] and not S.is_nan(x):
                    _f(findings, "spec", "slice.%s.diffxdiff-not-nan" % name, "display cell (%d,%d) = %r" % (i, j, x))
                if cs and not rs and col_diff[ci]:
                    t = cterms[ci]
                    if not ccd and not S.is_nan(x):
                        _f(findings, "spec", "slice.%s.diff-not-nan" % name,
                           "column difference (own-direction proportion), display cell (%d,%d) = %r" % (i, j, x))
                    elif ccd and (len(t[0]) > 1 or len(t[1]) > 1) and not S.is_nan(x):
                        _f(findings, "spec", "slice.%s.catdate-multiterm-diff-not-nan" % name,
                           "column difference %r on a categorical-date dimension, display cell (%d,%d) = %r" % (t, i, j, x))
                    elif ccd and len(t[0]) == 1 and len(t[1]) == 1:
                        # one-minus-one difference of two PERIODS: the difference of the two percentages - of the
                        # un-smoothed or of the smoothed series (the statement does not say which: both accepted)
                        wants = []
                        for body in (plain_body, smooth_body):
                            p, q = body[ri][t[0][0]], body[ri][t[1][0]]
                            wants.append(float("nan") if (S.is_nan(p) or S.is_nan(q)) else (p - q) * k)
                        if not any(common.num_close(x, w_) for w_ in wants):
                            _f(findings, "spec", "slice.%s.catdate-wave-diff.column" % name,
                               "column difference +%d -%d, display cell (%d,%d): impl %r, difference of the two "
                               "percentages %r (un-smoothed) / %r (smoothed)" % (t[0][0], t[1][0], i, j, x, wants[0], wants[1]))
                        else:
                            ctx.count("smoothed_rule:column-wave-diff")
            for name in ("smoothed_column_index", "smoothed_means"):
                m = got.get(name)
                if isinstance(m, list) and not S.is_nan(m[i][j]):
                    _f(findings, "spec", "slice.%s.not-nan" % name,
                       "inserted display cell (%d,%d) = %r, statement NaN" % (i, j, m[i][j]))

    # ---- merge oracle: the library on the survey with the addends merged, same smoother ------------
    if not findings:
        _merge_oracle(case, vars_, survey, V, L, M, got, findings, ctx)

    key = None
    if key_vals:
        key = ("smoothed", kinds, tuple(rules), M["window"], M["applies"], tuple(key_vals[:4]))
    return findings, key


def _merge_oracle(case, vars_, survey, V, L, M, got, findings, ctx):
    dv = S.dim_vars(vars_)
    var, role = dv[-2]
    if role != "cat":
        return
    vpos = var.valid_cat_pos
    nrs, ncs = V.nrs, V.ncs
    col_diff = L["spec_col_is_diff"]
    done = 0
    seen = set()
    for k, (adds, subsx) in enumerate(L["row_subtotals"]):
        if subsx or not adds or tuple(adds) in seen or done >= 1:
            continue
        seen.add(tuple(adds))
        done += 1
        var_idx = vars_.index(var)
        raw_add = [vpos[a] for a in adds]
        nv, recode = S.merge_var(var, raw_add)
        vars2 = list(vars_)
        vars2[var_idx] = nv
        survey2 = S.merge_survey(survey, var_idx, recode)
        ins2 = copy.deepcopy(case["ins"])
        ins2["rows"] = {"view": None, "transform": None}
        ex2 = {}
        for name, data in case["extras"].items():
            ex2[name] = [None if x is None else gen.frac_str(x) for x in
                         S.merge_flat(vars_, B._frac_list(data), var_idx, raw_add, vars2, recode)]
        try:
            sl2 = _build_cube(case, vars2, survey2, ins2, extras=ex2).partitions[case["k"]]
            V2 = B._SliceView(sl2)
        except Exception as e:  # noqa
            _f(findings, "model", "oracle.merge.construction", "%s: %s" % (type(e).__name__, e))
            continue
        ctx.count("smoothed_merge_oracle_runs")
        merged_idx = len(nv.valid_cat_pos) - 1
        pa, pb = V.row_pos(True, k), V2.row_pos(False, merged_idx)
        if pa is None or pb is None:
            continue
        for name in ("smoothed_column_proportions", "smoothed_column_percentages"):
            a, b = got[name], V2.get(name)
            if not isinstance(b, list):
                _f(findings, "spec", "merge.%s" % name, "subtotal table is a matrix, merged table %r" % (b,))
                continue
            for qa, qb, s in B._cross_positions(V, V2, 0):
                if s < 0 and col_diff[ncs + s]:
                    continue
                if common.num_close(a[pa][qa], b[pb][qb]):
                    ctx.count("smoothed_merge_cells_equal")
                else:
                    _f(findings, "spec", "merge.%s" % name,
                       "row subtotal %d (addends %r) x crossing element %d, window %r: subtotal shows %r, merged "
                       "category shows %r" % (k, adds, s, M["window"], a[pa][qa], b[pb][qb]))


def describe(case):
    d = B.describe(case)
    d["smoother"] = case["smoother"]
    d["reads"] = case["reads"]
    return d


def shrink_candidates(case):
    for c in B.shrink_candidates(case):
        yield c
    if len(case["reads"]) > 0 and case["reads"] != sorted(case["reads"]):
        yield dict(case, reads=sorted(case["reads"]))
