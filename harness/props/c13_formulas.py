"""C13 extension: source-formula tie (see _srcformulas.py / tools/srcformulas.py): the straight-line arithmetic of the working tree
(pairwise t statistic, effective base, Welch t and df, overlap t and df) is translated to Lean definitions over Val / Out on every run and proved equal,
for all argument values incl. NaN / +-inf, to the model's cell functions."""
from props import _srcformulas

PROPERTY = "C13"
THEOREMS = []
RULE = "source-formula tie: one case; pairwise t statistic, effective base, Welch t and df, overlap t and df translated from the working tree and proved equal to the model's cell functions"
TRUSTED_EXTRA = ["tools/srcformulas.py (ast translator of straight-line numpy arithmetic; cell-wise reading of elementwise array code)"]
NAMES, generate, lean_ops, evaluate, describe = _srcformulas.module_for(PROPERTY, "pairwise t statistic, effective base, Welch t and df, overlap t and df")
