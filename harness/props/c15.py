"""C15 — share of sum divides by the base-cell total of the row, column or table.

Cases: (a) survey-based cubes with a `sum` measure over CAT / CAT_DATE / MR / CA dimensions, insertions on rows
and/or columns (sums arbitrary rationals incl. NaN cells), 2-D and 3-D; (b) strands with a sum measure;
(c) numeric-array responses built by hand (num-array rows x CAT columns with column insertions, and the
ungrouped num-array strand).  Every case also draws the METADATA of the sum measure (`sum_meta`: type.integer true /
false / null / absent, derived, n_missing, references with / without a summary-statistic view, missing rules): the
metadata describes the summed variable, not the measure's values, so no share may depend on it (sums are fractional
-- down to 1/64 -- under an integer-typed variable exactly when the cube is weighted).

Checks: spec  — every cell of `_Slice.row_share_sum / column_share_sum / total_share_sum` and `_Strand.share_sum`
                against the Lean Spec table `cell / nansum over BASE rows|cols|cells` of the assembled table
                (locus names the block); corollaries on the implementation's own output: base shares add up to 1,
                a subtotal's share is the sum of its addends' shares;
        model — the four blocks of `_RowShareSum / _ColumnShareSum / _TotalShareSum / _Sums` (and stripe `_ShareSum`)
                at the measure seam against the Lean model (which mirrors the code after fix F2).
"""
from fractions import Fraction
import copy
import math

import gen
import common
from props import _subtotals as S
from props import c04 as C4

PROPERTY = "C15"
LEAN_MODULE = "CrCube.Props.C15"
THEOREMS = [
    "CrCube.C15.row_share_spec",
    "CrCube.C15.col_share_spec",
    "CrCube.C15.total_share_spec",
    "CrCube.C15.row_shares_sum_to_one",
    "CrCube.C15.col_shares_sum_to_one",
    "CrCube.C15.total_shares_sum_to_one",
    "CrCube.C15.col_share_additive",
    "CrCube.C15.row_share_additive",
    "CrCube.C15.total_share_additive",
    "CrCube.C15.strand_share_base",
    "CrCube.C15.strand_share_subtotal",
    "CrCube.C15.strand_shares_sum_to_one",
    "CrCube.C15.column_share_legacy_counterexample",
    "CrCube.C15.row_share_legacy_counterexample",
    "CrCube.C15.total_share_legacy_counterexample",
    "CrCube.C15.legacy_agrees_elsewhere",
]
RULE = ("sum responses: survey-based cubes (rows/cols in cat, cat_date, mr, ca; optional table dimension) and "
        "hand-built numeric-array responses, sums arbitrary rationals with NaN cells, zero and negative totals; 0-3 "
        "insertions per cat-like dimension (sums, differences, stale ids, overlaps) at view and transform level; the "
        "sum measure's metadata drawn per case (type.integer true / false / null / absent, derived, n_missing, "
        "references / summary-statistic view, missing rules) over sums with dyadic fractions down to 1/64. "
        "Non-trivial = at least one inserted row or column with a finite non-zero share; distinct = (kinds, subtotal "
        "idx lists, rounded shares) key")
ASSUMPTIONS = [
    "a subtotal's sum is the np.sum of its addends' sums (NaN if any addend is NaN), NaN for a difference (matrix) — "
    "the library's `_Sums`; the share formula is then applied to the assembled table",
    "'base shares add up to 1' and 'subtotal share = sum of addend shares' are demanded when the total is finite and "
    "non-zero and the cells involved are not NaN",
    "strand: a subtotal's share is checked against sum/total when the total is finite and non-zero (the library adds "
    "the addends' shares, which coincides there)",
]
EXHAUSTIVE = False

SHARES = ["row_share_sum", "column_share_sum", "total_share_sum"]


# ---------------------------------------------------------------------------------------------
# generation


def _sum_data(rng, n, nan_p=0.1, style=None):
    style = style or rng.choice(["pos", "pos", "fine", "mixed", "zero_total", "sparse"])
    out = []
    for _ in range(n):
        if rng.random() < nan_p:
            out.append(None)
        elif style == "pos":
            out.append(gen.frac_str(Fraction(rng.randint(0, 40), rng.choice([1, 1, 2, 4]))))
        elif style == "fine":
            # weighted sums: dyadic down to 1/64 (exact in binary64), some of them large, some below 1/2
            out.append(gen.frac_str(Fraction(rng.choice([rng.randint(1, 31), rng.randint(0, 4000), rng.randint(-90, 900)]),
                                             rng.choice([8, 16, 64]))))
        elif style == "mixed":
            out.append(gen.frac_str(Fraction(rng.randint(-12, 30), rng.choice([1, 2]))))
        elif style == "zero_total":
            out.append(gen.frac_str(Fraction(rng.choice([-2, -1, 0, 0, 1, 2]))))
        else:
            out.append(gen.frac_str(Fraction(rng.choice([0, 0, 0, 5, 7]))))
    return out


def gen_sum_meta(rng):
    """metadata of the `sum` measure: it describes the summed VARIABLE (an integer variable has fractional sums in a
    weighted cube), so shares may not depend on any of it.  None = the default payload (integer: false)."""
    if rng.random() < 0.2:
        return None
    return {"integer": rng.choice([True, True, True, False, None, "absent"]),
            "derived": rng.random() < 0.6,
            "n_missing": rng.choice([0, 0, 2, 7]),
            "refs": rng.choice(["asis", "named", "stat"]),
            "rules": rng.random() < 0.3,
            "all_measures": rng.random() < 0.5}


def apply_sum_meta(resp, sm):
    """edit the metadata of the sum measure (of every numeric measure when `all_measures`) in place"""
    if not sm:
        return resp
    measures = resp["result"]["measures"]
    names = [n for n in measures if n != "count"] if sm.get("all_measures") else ["sum"]
    for name in names:
        m = measures.get(name)
        if m is None:
            continue
        md = m.setdefault("metadata", {})
        t = md.setdefault("type", {})
        if sm["integer"] == "absent":
            t.pop("integer", None)
        else:
            t["integer"] = sm["integer"]
        md["derived"] = bool(sm["derived"])
        if name == "sum":
            m["n_missing"] = sm["n_missing"]
        refs = md.setdefault("references", {})
        if sm["refs"] == "named":
            refs.setdefault("alias", "amount")
            refs.setdefault("name", "Amount")
        elif sm["refs"] == "stat":
            refs.setdefault("alias", "amount")
            refs.setdefault("name", "Amount")
            refs["view"] = {"summary_statistic": "sum"}
        if sm["rules"]:
            t["missing_reasons"] = {"No Data": -1, "skipped": -9}
            t["missing_rules"] = {"skipped": {"value": -9}}
    return resp


def build_cube(case, vars_, survey, ins):
    """`c04.build_cube` with the drawn metadata of the sum measure"""
    from cr.cube.cube import Cube
    resp = apply_sum_meta(C4.build_response(case, vars_, survey), case.get("sum_meta"))
    dv = S.dim_vars(vars_)
    tr = {}
    if case["mode"] == "slice":
        slots = (("rows", dv[-2], "rows_dimension"), ("cols", dv[-1], "columns_dimension"))
    else:
        slots = (("rows", dv[-1], "rows_dimension"),)
    for key, (var, role), tkey in slots:
        spec = ins.get(key) or {}
        if role != "cat":
            if spec.get("transform") is not None:
                tr[tkey] = {"insertions": copy.deepcopy(spec["transform"])}
            continue
        if spec.get("view") is not None:
            S.attach_view(resp, vars_, vars_.index(var), role, spec["view"])
        if spec.get("transform") is not None:
            tr[tkey] = {"insertions": copy.deepcopy(spec["transform"])}
    kw = {}
    if case.get("population"):
        kw["population"] = case["population"]
    return Cube(resp, transforms=tr, **kw)


def gen_survey_case(rng, strand=False):
    if strand:
        c = C4.gen_strand_case(rng)
    else:
        c = C4.gen_slice_case(rng)
    vars_ = [gen.Var.from_json(d) for d in c["vars"]]
    n = 1
    for s in gen.raw_shape(vars_):
        n *= s
    c["sums"] = _sum_data(rng, n)
    c["extras"] = {}
    c["valid"] = rng.choice(["none", "none", "unweighted"])
    c["valid_subset"] = [i for i in range(len(c["survey"])) if rng.random() < 0.7] if c["valid"] != "none" else []
    c["blk"] = None
    c["population"] = None
    c["src"] = "survey"
    c["sum_meta"] = gen_sum_meta(rng)
    return c


def gen_numarr_case(rng):
    """numeric array (rows) grouped by one categorical variable (columns), or ungrouped"""
    grouped = rng.random() < 0.8
    nsub = rng.randint(1, 3)
    case = {"mode": "numarr", "src": "numarr", "nsub": nsub, "grouped": grouped}
    if grouped:
        v = gen.gen_var(rng, rng.choice(["cat", "cat", "cat_date"]), "g", n=rng.randint(1, 4))
        case["var"] = v.to_json()
        ncat = len(v.cats)
        case["ins"] = C4._ins_for(rng, v)
        # data is laid out (category, subvariable)
        case["sums"] = _sum_data(rng, ncat * nsub)
        case["valid_counts"] = [rng.randint(0, 6) for _ in range(ncat * nsub)]
        case["counts"] = [rng.randint(0, 9) for _ in range(ncat)]
    else:
        case["var"] = None
        case["ins"] = {"view": None, "transform": None}
        # (the nested `[[...]]` payload of an ungrouped numeric array cannot carry {"?": -1} cells: np.array raises)
        case["sums"] = _sum_data(rng, nsub, nan_p=0.0)
        case["valid_counts"] = [rng.randint(0, 6) for _ in range(nsub)]
        case["counts"] = [rng.randint(1, 9)]
    case["sum_meta"] = gen_sum_meta(rng)
    return case


def generate(ctx):
    rng = ctx.rng
    cases = []
    for _ in range(ctx.n(420, 5000)):
        cases.append(gen_survey_case(rng))
    for _ in range(ctx.n(120, 1200)):
        cases.append(gen_survey_case(rng, strand=True))
    for _ in range(ctx.n(150, 1500)):
        cases.append(gen_numarr_case(rng))
    return cases


# ---------------------------------------------------------------------------------------------


def _numarr_response(case):
    nsub = case["nsub"]
    subs = ["S%d" % (i + 1) for i in range(nsub)]
    meta = {"derived": True,
            "references": {"alias": "na", "name": "NA", "uniform_basis": False,
                           "subreferences": [{"alias": "na_%d" % i, "name": "na %d" % i} for i in range(nsub)]},
            "type": {"integer": False, "subvariables": subs, "class": "numeric",
                     "missing_reasons": {"No Data": -1}, "missing_rules": {}}}
    sums = [S.flat_num(None if x is None else Fraction(x)) for x in case["sums"]]
    dims = []
    if case["grouped"]:
        v = gen.Var.from_json(case["var"])
        dims = v.dimension_dicts()
        if case["ins"].get("view") is not None:
            dims[0]["references"]["view"] = {"transform": {"insertions": copy.deepcopy(case["ins"]["view"])}}
    else:
        sums = [sums]
    result = {"counts": case["counts"], "dimensions": dims, "element": "crunch:cube", "missing": 0,
              "n": sum(case["counts"]),
              "measures": {"valid_count_unweighted": {"data": case["valid_counts"], "n_missing": 0,
                                                      "metadata": copy.deepcopy(meta)},
                           "sum": {"data": sums, "n_missing": 0, "metadata": copy.deepcopy(meta)}}}
    return apply_sum_meta({"query": {}, "result": result}, case.get("sum_meta"))


def _numarr_matrix(case):
    """sums as (subvariable x VALID category) matrix of frac strings / 'nan'"""
    nsub = case["nsub"]
    v = gen.Var.from_json(case["var"])
    ncat = len(v.cats)
    out = []
    for i in range(nsub):
        row = []
        for c in v.valid_cat_pos:
            x = case["sums"][c * nsub + i]
            row.append("nan" if x is None else x)
        out.append(row)
    return out


def lean_ops(case):
    if case["mode"] == "numarr":
        if case["grouped"]:
            v = gen.Var.from_json(case["var"])
            m = _numarr_matrix(case)
            nr = case["nsub"]
            nc = len(v.valid_cat_pos)
            return [{"op": "share_sum", "v": m, "nr": nr, "nc": nc,
                     "rows": S.lean_dim(None, None, None),
                     "cols": S.lean_dim(v, case["ins"].get("view"), case["ins"].get("transform"))}]
        return [{"op": "strand_share", "v": ["nan" if x is None else x for x in case["sums"]], "subs": []}]
    return C4.lean_ops(case)[:1]


# ---------------------------------------------------------------------------------------------


def _finding(findings, kind, locus, detail):
    findings.append({"kind": kind, "locus": locus, "detail": detail[:700]})


def _assemble_spec(spec, ro, co, nr, nc, nrs, ncs):
    """Spec table over the assembled (np.block) layout -> display order"""
    def rpos(s):
        return nr + nrs + s if s < 0 else s

    def cpos(s):
        return nc + ncs + s if s < 0 else s
    return [[spec[rpos(r)][cpos(c)] for c in co] for r in ro]


def _check_matrix_shares(findings, ctx, get, ro, co, nr, nc, nrs, ncs, L, row_subs, col_subs, key_vals, blocks_of=None):
    """get(name) -> assembled impl matrix"""
    sums_impl = get("sums")
    for name, sk in (("row_share_sum", "spec_row_share"), ("column_share_sum", "spec_column_share"),
                     ("total_share_sum", "spec_total_share")):
        impl = get(name)
        spec = common.model_to_float(_assemble_spec(L[sk], ro, co, nr, nc, nrs, ncs))
        d = S.first_diff(impl, spec, ro, co, nrs, ncs)
        if d is not None:
            _finding(findings, "spec", "slice.%s.%s" % (name, d[0]),
                     "display cell (%d,%d): impl %r, statement (cell / total over base rows|cols) %r" % (d[1], d[2], d[3], d[4]))
        model = common.model_to_float(S.assemble_model(L[name], ro, co, nrs, ncs))
        d2 = S.first_diff(impl, model, ro, co, nrs, ncs)
        if d2 is not None:
            _finding(findings, "model", "seam.msr.%s.%s" % (name, d2[0]),
                     "display cell (%d,%d): impl %r model %r" % (d2[1], d2[2], d2[3], d2[4]))
        if blocks_of is not None:
            ib = blocks_of(name)
            if ib is not None:
                C4._cmp_blocks(findings, "seam.blk.%s" % name, ib, L[name])
        if not isinstance(impl, list) or d is not None:
            continue
        # corollaries on the implementation's own numbers
        for i, rs_ in enumerate(ro):
            for j, cs_ in enumerate(co):
                x = impl[i][j]
                if (rs_ < 0 or cs_ < 0) and isinstance(x, float) and math.isfinite(x) and x != 0:
                    key_vals.append(round(x, 6))
        _corollaries(findings, ctx, name, impl, sums_impl, ro, co, nrs, ncs, row_subs, col_subs)
    model = common.model_to_float(S.assemble_model(L["sums"], ro, co, nrs, ncs))
    d = S.first_diff(sums_impl, model, ro, co, nrs, ncs)
    if d is not None:
        _finding(findings, "model", "seam.msr.sums.%s" % d[0],
                 "display cell (%d,%d): impl %r model %r" % (d[1], d[2], d[3], d[4]))


def _fin(x):
    return isinstance(x, (int, float)) and math.isfinite(x)


def _corollaries(findings, ctx, name, share, sums, ro, co, nrs, ncs, row_subs, col_subs):
    if not isinstance(sums, list):
        return
    brows = [i for i, s in enumerate(ro) if s >= 0]
    bcols = [j for j, s in enumerate(co) if s >= 0]
    rpos = {s: i for i, s in enumerate(ro)}
    cpos = {s: j for j, s in enumerate(co)}
    # (1) base shares add up to 1 along the direction
    if name == "row_share_sum":
        lines = [[(i, j) for j in bcols] for i in range(len(ro))]
    elif name == "column_share_sum":
        lines = [[(i, j) for i in brows] for j in range(len(co))]
    else:
        lines = [[(i, j) for i in brows for j in bcols]]
    for cells in lines:
        if not cells:
            continue
        vals = [sums[i][j] for i, j in cells]
        if any(not _fin(v) for v in vals):
            continue
        tot = sum(vals)
        if abs(tot) < 1e-9:
            continue
        got = sum(share[i][j] for i, j in cells)
        if not common.num_close(got, 1.0, rel=1e-9, abs_=1e-9):
            _finding(findings, "spec", "slice.%s.base-shares-sum-to-1" % name,
                     "base cells %r: shares add up to %r (sums %r)" % (cells[:4], got, vals))
        else:
            ctx.count("base_sum_1_checked")
    # (2) a subtotal's share = sum of its addends' shares (same column / row / table)
    def check(cell_sub, cells_add, what):
        vals = [sums[i][j] for i, j in cells_add]
        if any(not _fin(v) for v in vals) or not _fin(sums[cell_sub[0]][cell_sub[1]]):
            return
        sh = [share[i][j] for i, j in cells_add]
        if any(not _fin(v) for v in sh) or not _fin(share[cell_sub[0]][cell_sub[1]]):
            if all(_fin(v) for v in sh):
                _finding(findings, "spec", "slice.%s.subtotal-share-additive" % name,
                         "%s: subtotal share %r, addend shares %r" % (what, share[cell_sub[0]][cell_sub[1]], sh))
            return
        if not common.num_close(share[cell_sub[0]][cell_sub[1]], sum(sh), rel=1e-9, abs_=1e-9):
            _finding(findings, "spec", "slice.%s.subtotal-share-additive" % name,
                     "%s: subtotal share %r, sum of addend shares %r" % (what, share[cell_sub[0]][cell_sub[1]], sum(sh)))
        else:
            ctx.count("additive_checked")
    if name in ("column_share_sum", "total_share_sum"):
        for k, (adds, subsx) in enumerate(row_subs):
            if subsx or not adds or (k - nrs) not in rpos:
                continue
            if any(a not in rpos for a in adds):
                continue
            for j in range(len(co)):
                check((rpos[k - nrs], j), [(rpos[a], j) for a in adds], "row subtotal %d col %d" % (k, j))
    if name in ("row_share_sum", "total_share_sum"):
        for l, (adds, subsx) in enumerate(col_subs):
            if subsx or not adds or (l - ncs) not in cpos:
                continue
            if any(a not in cpos for a in adds):
                continue
            for i in range(len(ro)):
                check((i, cpos[l - ncs]), [(i, cpos[a]) for a in adds], "col subtotal %d row %d" % (l, i))


def _eval_slice(case, louts, ctx):
    vars_, survey = C4._load(case)
    findings = []
    cube = build_cube(case, vars_, survey, case["ins"])
    sl = cube.partitions[case["k"]]
    try:
        V = C4._SliceView(sl)
    except Exception as e:  # noqa
        _finding(findings, "model", "api.slice-construction", "%s: %s" % (type(e).__name__, e))
        return findings, None
    L = louts[0]
    dv = S.dim_vars(vars_)
    kinds = "x".join(v.kind + ("" if r != "items" else "_items") for v, r in dv)
    ctx.count("kinds:" + kinds)
    nrs, ncs = len(L["row_subtotals"]), len(L["col_subtotals"])
    if C4._impl_subs(V.dims[0]) != L["row_subtotals"] or C4._impl_subs(V.dims[1]) != L["col_subtotals"]:
        _finding(findings, "model", "seam.dim.subtotals", "impl %r / %r model %r / %r" % (
            C4._impl_subs(V.dims[0]), C4._impl_subs(V.dims[1]), L["row_subtotals"], L["col_subtotals"]))
        return findings, None
    nr = len(L["sums"]["body"])
    nc = len(L["sums"]["body"][0]) if nr else len(V.dims[1].valid_elements)
    key_vals = []

    def blocks_of(name):
        return common_call(lambda: getattr(sl._measures, name).blocks)

    _check_matrix_shares(findings, ctx, V.get, V.ro, V.co, nr, nc, nrs, ncs, L, L["row_subtotals"], L["col_subtotals"],
                         key_vals, blocks_of)
    ctx.count("n_subtotals:%d" % (nrs + ncs))
    key = None
    if key_vals:
        key = (kinds, repr(L["row_subtotals"]), repr(L["col_subtotals"]), tuple(sorted(set(key_vals)))[:6])
    return findings, key


def common_call(fn):
    import warnings
    try:
        with warnings.catch_warnings():
            warnings.simplefilter("ignore")
            return fn()
    except Exception:  # noqa
        return None


def _eval_strand(case, louts, ctx):
    vars_, survey = C4._load(case)
    findings = []
    cube = build_cube(case, vars_, survey, case["ins"])
    st = cube.partitions[0]
    L = louts[0]
    v = vars_[0]
    ctx.count("kinds:strand-" + v.kind)
    try:
        ro = [int(x) for x in st.row_order()]
        isubs = C4._impl_subs(st._rows_dimension)
    except Exception as e:  # noqa
        _finding(findings, "model", "api.strand-construction", "%s: %s" % (type(e).__name__, e))
        return findings, None
    if isubs != L["subtotals"]:
        _finding(findings, "model", "seam.dim.strand_subtotals", "impl %r model %r" % (isubs, L["subtotals"]))
        return findings, None
    return _strand_share(findings, ctx, st, ro, L, "strand-" + v.kind)


def _strand_share(findings, ctx, st, ro, L, kinds):
    ns = len(L["subtotals"])
    n = len(L["share_sum"]["base"])
    impl = common.call_impl(lambda: st.share_sum)
    sums = common.call_impl(lambda: st.sums)
    base, subs = common.model_to_float(L["share_sum"]["base"]), common.model_to_float(L["share_sum"]["subs"])
    model = [(subs[ns + s] if s < 0 else base[s]) for s in ro]
    ok, where = common.deep_close(impl, model)
    if not ok:
        _finding(findings, "model", "seam.msr.strand.share_sum", "impl vs model%s impl=%r model=%r" % (where, impl, model))
    sb, ss = common.model_to_float(L["sums"]["base"]), common.model_to_float(L["sums"]["subs"])
    msums = [(ss[ns + s] if s < 0 else sb[s]) for s in ro]
    ok, where = common.deep_close(sums, msums)
    if not ok:
        _finding(findings, "model", "seam.msr.strand.sums", "impl vs model%s impl=%r model=%r" % (where, sums, msums))
    spec = common.model_to_float(L["spec_share"])
    total = sum(x for x in sb if _fin(x))
    key_vals = []
    if isinstance(impl, list):
        for i, s in enumerate(ro):
            want = spec[n + ns + s] if s < 0 else spec[s]
            if s < 0 and not (_fin(total) and abs(total) > 1e-12):
                continue                    # see ASSUMPTIONS
            if not common.num_close(impl[i], want):
                _finding(findings, "spec", "strand.share_sum.%s" % ("inserted" if s < 0 else "base"),
                         "display row %d: impl %r, statement (sum / total over base rows) %r" % (i, impl[i], want))
            elif s < 0 and _fin(want) and want != 0:
                key_vals.append(round(want, 6))
        bvals = [impl[i] for i, s in enumerate(ro) if s >= 0]
        if bvals and all(_fin(x) for x in sb) and abs(total) > 1e-9 and len(bvals) == n:
            if not common.num_close(sum(bvals), 1.0, rel=1e-9, abs_=1e-9):
                _finding(findings, "spec", "strand.share_sum.base-shares-sum-to-1", "shares %r add up to %r" % (bvals, sum(bvals)))
            else:
                ctx.count("base_sum_1_checked")
    key = (kinds, repr(L["subtotals"]), tuple(sorted(set(key_vals)))[:6]) if key_vals else None
    return findings, key


def _eval_numarr(case, louts, ctx):
    from cr.cube.cube import Cube
    findings = []
    L = louts[0]
    resp = _numarr_response(case)
    tr = {}
    if case["grouped"] and case["ins"].get("transform") is not None:
        tr["columns_dimension"] = {"insertions": copy.deepcopy(case["ins"]["transform"])}
    try:
        cube = Cube(resp, transforms=tr)
        part = cube.partitions[0]
    except Exception as e:  # noqa
        _finding(findings, "model", "api.numarr-construction", "%s: %s" % (type(e).__name__, e))
        return findings, None
    if not case["grouped"]:
        ctx.count("kinds:numarr-strand")
        try:
            ro = [int(x) for x in part.row_order()]
        except Exception as e:  # noqa
            _finding(findings, "model", "api.numarr-strand", "%s: %s" % (type(e).__name__, e))
            return findings, None
        f, key = _strand_share(findings, ctx, part, ro, L, "numarr-strand")
        if key is None and isinstance(common.call_impl(lambda: part.share_sum), list):
            sh = [x for x in common.call_impl(lambda: part.share_sum) if _fin(x) and x != 0]
            if len(sh) >= 2:
                key = ("numarr-strand", tuple(round(x, 6) for x in sh))
        return f, key
    ctx.count("kinds:numarr-x-" + case["var"]["kind"])
    try:
        V = C4._SliceView(part)
    except Exception as e:  # noqa
        _finding(findings, "model", "api.numarr-slice", "%s: %s" % (type(e).__name__, e))
        return findings, None
    if C4._impl_subs(V.dims[1]) != L["col_subtotals"] or C4._impl_subs(V.dims[0]):
        _finding(findings, "model", "seam.dim.subtotals", "impl %r model %r" % (C4._impl_subs(V.dims[1]), L["col_subtotals"]))
        return findings, None
    ncs = len(L["col_subtotals"])
    nr = case["nsub"]
    nc = len(gen.Var.from_json(case["var"]).valid_cat_pos)
    key_vals = []
    _check_matrix_shares(findings, ctx, V.get, V.ro, V.co, nr, nc, 0, ncs, L, [], L["col_subtotals"], key_vals,
                         lambda name: common_call(lambda: getattr(part._measures, name).blocks))
    key = ("numarr", repr(L["col_subtotals"]), tuple(sorted(set(key_vals)))[:6]) if key_vals else None
    return findings, key


def evaluate(case, louts, ctx):
    if case["mode"] == "numarr":
        return _eval_numarr(case, louts, ctx)
    if case["mode"] == "slice":
        return _eval_slice(case, louts, ctx)
    return _eval_strand(case, louts, ctx)


def describe(case):
    if case["mode"] == "numarr":
        return {"mode": "numarr", "nsub": case["nsub"], "grouped": case["grouped"], "sums": case["sums"][:8],
                "insertions": case["ins"], "sum_meta": case.get("sum_meta")}
    d = C4.describe(case)
    d["sums"] = (case["sums"] or [])[:8]
    d["sum_meta"] = case.get("sum_meta")
    return d


def shrink_candidates(case):
    if case.get("sum_meta"):
        yield dict(case, sum_meta=None)          # does the finding need the drawn metadata at all?
        for fld, dflt in (("all_measures", False), ("derived", True), ("n_missing", 0), ("refs", "asis"), ("rules", False),
                          ("integer", False)):
            if case["sum_meta"].get(fld) != dflt:
                yield dict(case, sum_meta=dict(case["sum_meta"], **{fld: dflt}))
    if case["mode"] == "numarr":
        for lvl in ("view", "transform"):
            lst = case["ins"].get(lvl)
            if lst:
                for i in range(len(lst)):
                    c = copy.deepcopy(case)
                    c["ins"][lvl] = lst[:i] + lst[i + 1:]
                    yield c
        return
    for c in C4.shrink_candidates(case):
        if c.get("sums") is None:
            continue
        yield c
    # simplify the sums: NaN cells -> 1
    if case.get("sums") and any(x is None for x in case["sums"]):
        yield dict(case, sums=["1" if x is None else x for x in case["sums"]])
