"""C02 extension — the minimum-base mask on DISPLAYED partitions, wherever the threshold comes from.

"The minimum-base mask is true exactly where the unweighted base is below the threshold": the main module checks it on
base cells of single cubes.  This module adds the three places where the statement was still unobserved:

  * `tslice`  slices WITH transforms — subtotals and subtotal DIFFERENCES (NaN row base on a difference row, NaN column base
              on a difference column: an undefined base is not below any threshold), hidden / pruned / explicitly ordered
              elements, every table element of 3-D cubes — and thresholds that the cell bases straddle (0 included);
  * `strand`  1-D partitions (MR strands with per-item missingness: every item has its OWN base; categorical-like strands
              with subtotals / differences / hide / prune / explicit order) with thresholds strictly between the
              smallest and the largest item base, at them, one above them, 0;
  * `set`     CubeSets built with `min_base`: summary strand + cross-tab cubes + single-column FILTER cubes (a strand over
              the filtered respondents; the payload lists only the rows somebody in the filter gave, so the library
              augments it with the summary cube's elements), and CA-as-0th sets (strand + slice per sub-variable);
              the threshold straddles the bases of the LATER cubes too.

Oracles per partition (kind `spec` unless said otherwise):
  1. mask == Lean `MinBaseMask.vecMask / matMask` of the pipeline model's displayed unweighted bases (Driver/Mask.lean);
     reported only when the library's displayed bases agree with the model's (else a `model` finding on the bases);
  2. at displayed BASE rows / cells (positions named by the library's own row / column order): mask == (respondent-level
     unweighted base `specCount` < threshold);
  3. mask == (the library's OWN displayed unweighted base < threshold), NaN never below.
"""
import copy
from fractions import Fraction

import common
import gen
from props import _slice_common as sc
from props import c05_pipeline as cp

PROPERTY = "C02"
LEAN_MODULE = "CrCube.Props.C02_Mask"
THEOREMS = [
    "CrCube.C02.vecMask_length",
    "CrCube.C02.vecMask_iff",
    "CrCube.C02.matMask_iff",
    "CrCube.C02.nan_base_not_flagged",
    "CrCube.C02.vecMask_nan",
    "CrCube.C02.not_ge_counterexample",
    "CrCube.C02.vecMask_fin",
    "CrCube.C02.minQ_le",
    "CrCube.C02.minQ_mem",
    "CrCube.C02.strand_mask_all_false_iff",
    "CrCube.C02.strand_max_shortcut_counterexample",
]
RULE = ("min-base masks of displayed partitions: tslice (1-3 variables over cat / cat_date / text / datetime / binned / mr / "
        "single CA, subtotals and differences on both dimensions, hide, prune, explicit order) x strand (MR with per-item "
        "missingness, categorical-like with insertions) x set (CubeSet with min_base: summary + cross-tabs + single-column "
        "filter cubes with dropped rows, CA-as-0th) x thresholds drawn from {0, b, b+1 : b a displayed item / margin "
        "base, random in 0..n+1}; non-trivial = some mask of some partition has both a true and a false entry, or a "
        "NaN base is displayed; distinct = (family, kinds, transforms, threshold, survey size)")
ASSUMPTIONS = ["Spec.cubeOf is the back end's tabulation (checked per case in C01)",
               "displayed unweighted bases of subtotal / difference rows and columns are C04's subject: here they are a "
               "seam (kind model), the mask is judged against them only when they agree"]

STRAND_KINDS = ["mr", "mr", "mr", "mr", "cat", "cat", "cat_date", "text", "datetime", "binned"]
DIM_KINDS = ["cat", "cat", "cat", "mr", "mr", "cat_date", "text", "datetime", "binned"]


# ---------------------------------------------------------------------------------------------
# generation


def _insertions(rng, v, p_diff=0.55):
    """subtotals and subtotal differences on a categorical-like variable"""
    ids = sc.valid_ids(v)
    if v.is_array or v.kind in ("datetime", "text", "binned") or not ids:
        return []
    out = []
    for n in range(rng.randint(0, 3)):
        args = rng.sample(ids, rng.randint(1, min(3, len(ids))))
        d = {"function": "subtotal", "args": args, "anchor": rng.choice(["top", "bottom"] + ids), "name": "S%d" % n, "id": n + 1}
        if rng.random() < p_diff:
            neg = rng.sample(ids, rng.randint(1, min(2, len(ids))))
            r = rng.random()
            if r < 0.25:
                d["kwargs"] = {"positive": d.pop("args"), "negative": neg}       # both spelled as keyword arguments
            elif r < 0.4:
                d["args"] = []
                d["kwargs"] = {"negative": neg}                                  # negative-only difference
            else:
                d["kwargs"] = {"negative": neg}
        if rng.random() < 0.08:
            d["hide"] = True
        out.append(d)
    return out


def _gen_dim(rng, v, rich=True):
    d = {}
    if rich:
        ins = _insertions(rng, v)
        if ins:
            d["insertions"] = ins
    if rng.random() < 0.25:
        d["prune"] = True
    keys = sc.element_keys(v)
    el = {str(k): {"hide": True} for k in keys if rng.random() < 0.12}
    if el and len(el) < len(keys):
        d["elements"] = el
    if rng.random() < 0.2 and keys:
        l = list(keys)
        rng.shuffle(l)
        d["order"] = {"type": "explicit", "element_ids": l[: rng.randint(1, len(l))]}
    return d


def _valid_counts(vars_, survey, vi):
    """unweighted number of respondents valid on each element (cat-like: once) / item (arrays) of variable vi"""
    v = vars_[vi]
    miss = v.cat_missing
    if v.is_array:
        return [sum(1 for _, ans in survey if not miss[ans[vi][k]]) for k in range(len(v.items))]
    return [sum(1 for _, ans in survey if not miss[ans[vi][0]])]


def _member_counts(vars_, survey, vi):
    v = vars_[vi]
    if v.is_array:
        return [sum(1 for _, ans in survey if ans[vi][k] == 0) for k in range(len(v.items))]
    return [sum(1 for _, ans in survey if ans[vi][0] == c) for c in range(len(v.cats))]


def _threshold(rng, vars_, survey):
    """a threshold that the displayed bases are likely to straddle"""
    n = len(survey)
    pool = [0, 0, 1, n, n + 1]
    for vi in range(len(vars_)):
        for b in _valid_counts(vars_, survey, vi) + _member_counts(vars_, survey, vi):
            pool += [b, b + 1]
    r = rng.random()
    if r < 0.7:
        return rng.choice(pool)
    return rng.randint(0, n + 1)


def _per_item_missing(rng, vars_, survey):
    """make some array items 'not shown' to a random share of the respondents (distinct item bases)"""
    out = []
    rates = [[rng.choice([0.0, 0.1, 0.3, 0.6, 0.9]) for _ in v.items] if v.is_array else None for v in vars_]
    for w, ans in survey:
        a2 = []
        for v, a, rt in zip(vars_, ans, rates):
            if rt is None:
                a2.append(a)
                continue
            mpos = [i for i, m in enumerate(v.cat_missing) if m]
            a2.append([rng.choice(mpos) if (mpos and rng.random() < rt[k]) else x for k, x in enumerate(a)])
        out.append((w, a2))
    return out


def _base_case(rng, kinds, max_n=4, n_resp=None):
    case = sc.gen_case(rng, kinds=kinds, max_n=max_n, n_resp=n_resp, missing_items=rng.random() < 0.3)
    vars_, survey = sc.load(case)
    if any(v.is_array for v in vars_) and rng.random() < 0.7:
        survey = _per_item_missing(rng, vars_, survey)
        case["survey"] = gen.survey_to_json(survey)
    case["min_base"] = _threshold(rng, vars_, survey)
    return case, vars_, survey


def gen_tslice(rng):
    r = rng.random()
    if r < 0.1:
        kinds = ["ca"]
    elif r < 0.8:
        kinds = [rng.choice(DIM_KINDS), rng.choice(DIM_KINDS)]
    else:
        kinds = [rng.choice(["cat", "mr", "text", "cat_date"]), rng.choice(DIM_KINDS), rng.choice(DIM_KINDS)]
    case, vars_, survey = _base_case(rng, kinds, max_n=4 if len(kinds) < 3 else 3)
    if kinds == ["ca"]:
        ca = vars_[0]
        cc = cp._CaCats(ca)
        tr = {"rows_dimension": _gen_dim(rng, ca), "columns_dimension": _gen_dim(rng, cc)}
    else:
        tr = {"rows_dimension": _gen_dim(rng, vars_[-2]), "columns_dimension": _gen_dim(rng, vars_[-1])}
    if rng.random() < 0.1:
        tr.pop(rng.choice(sorted(tr)))
    case["transforms"] = tr
    case["fam"] = "tslice"
    case["via_set"] = rng.random() < 0.2
    return case


def gen_strand(rng):
    kind = rng.choice(STRAND_KINDS)
    case, vars_, survey = _base_case(rng, [kind], max_n=5, n_resp=rng.choice([None, None, rng.randint(5, 60)]))
    v = vars_[0]
    if kind == "mr":
        # the threshold sits strictly inside the item-base range whenever there is one
        vb = [b for k, b in enumerate(_valid_counts(vars_, survey, 0)) if k in v.valid_item_pos]
        if vb and min(vb) < max(vb) and rng.random() < 0.7:
            case["min_base"] = rng.choice([min(vb) + 1, max(vb), rng.randint(min(vb) + 1, max(vb))])
    case["transforms"] = {"rows_dimension": _gen_dim(rng, v)} if rng.random() < 0.6 else {}
    case["fam"] = "strand"
    case["via_set"] = rng.random() < 0.3
    return case


def _prod(l):
    t = 1
    for x in l:
        t *= x
    return t


ROW1 = {"kind": "cat", "alias": "mean", "cats": [{"id": 1, "missing": False, "name": "Mean", "numeric_value": None}], "items": [],
        "ca_transposed": False, "typedef_perm": None, "view_insertions": None}


def gen_set(rng):
    if rng.random() < 0.25:
        # CA-as-0th: [CA, CA x X]
        case, vars_, survey = _base_case(rng, ["ca", rng.choice(["cat", "cat", "mr", "cat_date"])], max_n=3)
        ca = vars_[0]
        cv = gen.Var("cat", ca.alias, cats=copy.deepcopy(ca.cats))
        case["ca0_transforms"] = {"rows": _gen_dim(rng, cv), "other": _gen_dim(rng, cv)} if rng.random() < 0.6 else None
        case["fam"] = "set"
        case["ca0"] = True
        return case
    if rng.random() < 0.15:
        # numeric-measure rows: a 0-D mean cube + 1-D cubes that the set INFLATES to 1 x n slices
        nx = rng.randint(1, 2)
        Xs = [gen.gen_var(rng, rng.choice(["cat", "cat", "mr", "cat_date"]), "v%d" % j, n=rng.randint(1, 4), missing_items=False)
              for j in range(nx)]
        weighted = rng.random() < 0.5
        survey = gen.gen_survey(rng, Xs, n_resp=rng.choice([None, rng.randint(6, 40)]), weighted=weighted, tiny=False)
        if any(v.is_array for v in Xs) and rng.random() < 0.6:
            survey = _per_item_missing(rng, Xs, survey)
        case = {"vars": [v.to_json() for v in Xs], "survey": gen.survey_to_json(survey), "weighted": weighted,
                "fam": "set", "ca0": False, "num": True}
        case["means"] = [[gen.frac_str(Fraction(rng.randint(-20, 60), rng.choice([1, 2, 4]))) for _ in range(_prod(gen.raw_shape([X])))]
                         for X in Xs]
        case["min_base"] = _threshold(rng, Xs, survey)
        return case
    ncols = rng.randint(1, 3)
    akind = rng.choice(["text", "text", "text", "datetime", "binned", "cat", "mr", "cat_date"])
    enum_rows = akind in ("text", "datetime", "binned")
    if enum_rows:
        # ids are the element positions (the augmentation addresses the summary's rows by id); the missing element, if
        # any, comes last
        n = rng.randint(2, 5)
        cats = [{"id": i, "missing": False, "name": "t%d" % i, "numeric_value": None} for i in range(n)]
        if rng.random() < 0.5:
            cats.append({"id": n, "missing": True, "name": "No Data", "numeric_value": None})
        A = gen.Var(akind, "v0", cats=cats)
    else:
        A = gen.gen_var(rng, akind, "v0", n=rng.randint(1, 4), missing_items=False)
    Bs = [gen.gen_var(rng, rng.choice(["cat", "cat", "mr", "cat_date"]), "v%d" % (j + 1), n=rng.randint(1, 3), missing_items=False)
          for j in range(ncols)]
    vars_ = [A] + Bs
    weighted = rng.random() < 0.5
    survey = gen.gen_survey(rng, vars_, n_resp=rng.choice([None, rng.randint(8, 50)]), weighted=weighted, tiny=False)
    if any(v.is_array for v in vars_) and rng.random() < 0.6:
        survey = _per_item_missing(rng, vars_, survey)
    cols = []
    for j in range(1, len(vars_)):
        B = vars_[j]
        if rng.random() < 0.6:
            if B.is_array:
                sel = {"item": rng.randrange(len(B.items))}
            else:
                sel = {"cats": rng.sample(range(len(B.cats)), rng.randint(1, len(B.cats)))}
            # rows nobody in the filter gave are dropped from the payload only where the library can re-associate them
            # (text / datetime element values; a binned element's value is a [lo, hi] list, which `augment_response`
            # does not match - not evidenced as an input, see the report)
            cols.append({"type": "filter", "j": j, "sel": sel,
                         "drop_absent": akind in ("text", "datetime") and rng.random() < 0.75})
        else:
            cols.append({"type": "cross", "j": j})
    if any(c["type"] == "filter" and c["drop_absent"] for c in cols):
        weighted = False        # the augmentation rewrites the count measure from the unweighted counts
        survey = [(Fraction(1), ans) for _, ans in survey]
    case = {"vars": [v.to_json() for v in vars_], "survey": gen.survey_to_json(survey), "weighted": weighted,
            "fam": "set", "ca0": False, "cols": cols}
    # threshold: straddle the bases of the later cubes too
    pool = [0, 1, len(survey), len(survey) + 1]
    for sub in _set_subcases(dict(case, min_base=0, rows_tr=[{}] * (len(cols) + 1))):
        vs, sv = sc.load(sub)
        for vi in range(len(vs)):
            for b in _valid_counts(vs, sv, vi):
                pool += [b, b + 1]
        pool += [len(sv), len(sv) + 1]
    case["min_base"] = rng.choice(pool) if rng.random() < 0.85 else rng.randint(0, len(survey) + 1)
    case["rows_tr"] = [(_gen_dim(rng, A, rich=not enum_rows) if rng.random() < 0.4 else {}) for _ in range(len(cols) + 1)]
    return case


def generate(ctx):
    rng = ctx.rng
    cases = [gen_tslice(rng) for _ in range(ctx.n(110, 1500))]
    cases += [gen_strand(rng) for _ in range(ctx.n(90, 1200))]
    cases += [gen_set(rng) for _ in range(ctx.n(60, 800))]
    return cases


# ---------------------------------------------------------------------------------------------
# sub-cases: every partition (set) of a case is the partition(s) of ONE plain cube case


def _in_filter(B, a, sel):
    if "item" in sel:
        return a[sel["item"]] == 0          # selected on that item
    return a[0] in sel["cats"]


def _set_subcases(case):
    """the plain (vars, survey, transforms) case each cube of the set must behave like, in cube order"""
    vars_, survey = sc.load(case)
    w, size = case["weighted"], case["min_base"]
    subs = []
    if case.get("num"):
        # an inflated cube is the 1 x n slice of a one-category rows variable that every respondent belongs to
        for j, X in enumerate(vars_):
            subs.append({"vars": [copy.deepcopy(ROW1), X.to_json()],
                         "survey": gen.survey_to_json([(wt, [[0], ans[j]]) for wt, ans in survey]),
                         "weighted": w, "min_base": size, "transforms": {}})
        return subs
    if case.get("ca0"):
        ca, X = vars_
        ct = case.get("ca0_transforms")
        t1 = {"rows_dimension": copy.deepcopy(ct["rows"])} if ct else {}
        for kk in ca.valid_item_pos:
            cv = gen.Var("cat", ca.alias, cats=copy.deepcopy(ca.cats))
            subs.append({"vars": [cv.to_json()], "survey": gen.survey_to_json([(wt, [[ans[0][kk]]]) for wt, ans in survey]),
                         "weighted": w, "min_base": size, "transforms": t1})
            subs.append({"vars": [cv.to_json(), X.to_json()],
                         "survey": gen.survey_to_json([(wt, [[ans[0][kk]], ans[1]]) for wt, ans in survey]),
                         "weighted": w, "min_base": size, "transforms": t1})
        return subs
    A = vars_[0]
    rows_tr = case["rows_tr"]

    def tr(i):
        return {"rows_dimension": copy.deepcopy(rows_tr[i])} if rows_tr[i] else {}
    subs.append({"vars": [A.to_json()], "survey": gen.survey_to_json([(wt, [ans[0]]) for wt, ans in survey]),
                 "weighted": w, "min_base": size, "transforms": tr(0)})
    for i, col in enumerate(case["cols"]):
        B = vars_[col["j"]]
        if col["type"] == "cross":
            subs.append({"vars": [A.to_json(), B.to_json()],
                         "survey": gen.survey_to_json([(wt, [ans[0], ans[col["j"]]]) for wt, ans in survey]),
                         "weighted": w, "min_base": size, "transforms": tr(i + 1)})
        else:
            fs = [(wt, [ans[0]]) for wt, ans in survey if _in_filter(B, ans[col["j"]], col["sel"])]
            subs.append({"vars": [A.to_json()], "survey": gen.survey_to_json(fs), "weighted": w, "min_base": size,
                         "transforms": tr(i + 1), "filter": col})
    return subs


def _set_responses(case):
    """the cube responses handed to CubeSet (filter cubes: single-column flag, rows nobody gave dropped)"""
    subs = _set_subcases(case)
    if case.get("num"):
        vars_, survey = sc.load(case)
        n = len(survey)
        r0 = {"query": {}, "result": {"dimensions": [], "missing": 0, "element": "crunch:cube", "counts": [n], "n": n,
                                      "measures": {"count": {"data": [n], "n_missing": 0, "metadata": {}},
                                                   "mean": {"data": [gen.num(Fraction(7, 2))], "n_missing": 0, "metadata": {}}}}}
        resps = [r0]
        for j, X in enumerate(vars_):
            data = [gen.num(Fraction(m)) for m in case["means"][j]]
            resps.append(gen.cube_response([X], [(wt, [ans[j]]) for wt, ans in survey], case["weighted"],
                                           extra_measures={"mean": data}))
        return resps, [None] * len(resps)
    if case.get("ca0"):
        vars_, survey = sc.load(case)
        ca, X = vars_
        r0 = gen.cube_response([ca], [(wt, [ans[0]]) for wt, ans in survey], case["weighted"])
        r1 = gen.cube_response([ca, X], survey, case["weighted"])
        ct = case.get("ca0_transforms")
        t0 = {"rows_dimension": copy.deepcopy(ct["rows"]), "columns_dimension": copy.deepcopy(ct["other"])} if ct else None
        t1 = {"rows_dimension": copy.deepcopy(ct["rows"])} if ct else None
        return [r0, r1], [t0, t1]
    resps, trs = [], []
    for sub in subs:
        vs, sv = sc.load(sub)
        col = sub.get("filter")
        if col is None:
            resps.append(gen.cube_response(vs, sv, sub["weighted"]))
        else:
            A = vs[0]
            present = list(range(len(A.cats)))
            if col["drop_absent"]:
                given = [p for p in range(len(A.cats)) if A.cats[p]["missing"] or any(ans[0][0] == p for _, ans in sv)]
                if any(not A.cats[p]["missing"] for p in given) and len(given) < len(A.cats):
                    present = given
            if len(present) < len(A.cats):
                subv = gen.Var.from_json(dict(A.to_json(), cats=[c for p, c in enumerate(A.cats) if p in present]))
                remap = {p: i for i, p in enumerate(present)}
                r = gen.cube_response([subv], [(wt, [[remap[ans[0][0]]]]) for wt, ans in sv], sub["weighted"])
                # the kept elements are the summary's elements (a datetime value is generated from the position)
                full_els = A.dimension_dicts()[0]["type"]["elements"]
                r["result"]["dimensions"][0]["type"]["elements"] = [copy.deepcopy(full_els[p]) for p in present]
            else:
                r = gen.cube_response(vs, sv, sub["weighted"])
            r["result"]["is_single_col_cube"] = True
            resps.append(r)
        trs.append(copy.deepcopy(sub["transforms"]))
    return resps, trs


def _subcases(case):
    if case["fam"] == "set":
        return _set_subcases(case)
    return [case]


def _sub_ops(sub):
    vars_, survey, lv, ls, wdata, udata = sc.lean_inputs(sub)
    tr = sub["transforms"]
    dims = cp._dims_of(vars_)
    size = sub.get("min_base", 0)
    if len(dims) == 1:
        (v, role), = dims
        return [{"op": "mask_strand", "vars": lv, "wdata": wdata, "udata": udata, "survey": ls, "size": size,
                 "rows": cp.lean_dim(v, role, tr.get("rows_dimension"))}]
    (rv, rrole), (cv, crole) = dims
    rows = cp.lean_dim(rv, rrole, tr.get("rows_dimension"))
    cols = cp.lean_dim(cv, crole, tr.get("columns_dimension"))
    return [{"op": "mask_slice", "vars": lv, "wdata": wdata, "udata": udata, "k": k, "survey": ls, "size": size,
             "rows": rows, "cols": cols} for k in range(sc.nparts(vars_))]


def lean_ops(case):
    ops = []
    for sub in _subcases(case):
        ops.extend(_sub_ops(sub))
    return ops


# ---------------------------------------------------------------------------------------------
# evaluation


def _lt(b, size):
    """numpy's `base < size`: False for NaN"""
    return isinstance(b, (int, float)) and not isinstance(b, bool) and b == b and b < size


def _mixed(m):
    flat = [x for r in m for x in (r if isinstance(r, list) else [r])] if isinstance(m, list) else []
    return (True in flat) and (False in flat)


def _has_nan(m):
    flat = [x for r in m for x in (r if isinstance(r, list) else [r])] if isinstance(m, list) else []
    return any(isinstance(x, float) and x != x for x in flat)


def _check_strand(findings, part, lo, size, pre, det, ctx):
    """-> nontrivial?"""
    if "raises" in lo:
        ctx.count("mask.model_raises")
        return False
    if not lo["wf"]:
        raise common.HarnessFault("mask_strand: side conditions failed (%s)" % det)
    if common.call_impl(lambda: part.ndim) != 1:
        findings.append({"kind": "spec", "locus": "%s.strand.ndim" % pre, "detail": det})
        return False
    ro = common.call_impl(lambda: part.row_order())
    if ro != lo["row_order"]:
        findings.append({"kind": "model", "locus": "%s.strand.row_order" % pre,
                         "detail": "%s impl %r model %r" % (det, ro, lo["row_order"])})
        return False
    det = "%s size=%s row_order=%r" % (det, size, ro)
    ub = common.call_impl(lambda: part.unweighted_bases)
    mub = common.model_to_float(lo["unweighted_bases"])
    bases_ok = sc.compare(findings, "model", "%s.strand.unweighted_bases" % pre, ub, mub, det)
    mask = common.call_impl(lambda: part.min_base_size_mask)
    if not (isinstance(mask, list) and len(mask) == len(ro) and all(isinstance(x, bool) for x in mask)):
        findings.append({"kind": "spec", "locus": "%s.strand.min_base_size_mask.shape" % pre,
                         "detail": "%s mask=%s" % (det, sc._short(mask))})
        return False
    if bases_ok:
        sc.compare(findings, "spec", "%s.strand.min_base_size_mask" % pre, mask, lo["mask"],
                   "%s unweighted_bases=%s" % (det, sc._short(ub)))
    if isinstance(ub, list) and len(ub) == len(mask):
        own = [_lt(b, size) for b in ub]
        sc.compare(findings, "spec", "%s.strand.min_base_size_mask.vs-own-bases" % pre, mask, own,
                   "%s unweighted_bases=%s" % (det, sc._short(ub)))
    spec = lo.get("spec")
    if spec:
        sub_ = [Fraction(common.frac_of(x)) if not isinstance(x, (int, float)) else Fraction(x) for x in spec["unweighted_bases"]]
        bad = [(p, x, mask[p], sub_[x]) for p, x in enumerate(ro) if x >= 0 and x < len(sub_) and mask[p] != (sub_[x] < size)]
        if bad:
            p, x, got, b = bad[0]
            findings.append({"kind": "spec", "locus": "%s.strand.min_base_size_mask.base-row-vs-respondents" % pre,
                             "detail": "%s displayed row %d (element %d) has %s eligible respondents: mask must be %s, is %s" % (
                                 det, p, x, b, b < size, got)})
    ctx.count("mask.strand_rows_flagged", sum(1 for x in mask if x))
    ctx.count("mask.strand_mixed", int(_mixed(mask)))
    return _mixed(mask) or _has_nan(ub)


def _check_slice(findings, part, lo, size, pre, det, ctx):
    if "raises" in lo:
        ctx.count("mask.model_raises")
        return False
    if not lo["wf"]:
        raise common.HarnessFault("mask_slice: side conditions failed (%s)" % det)
    if common.call_impl(lambda: part.ndim) != 2:
        findings.append({"kind": "spec", "locus": "%s.slice.ndim" % pre, "detail": det})
        return False
    ro = common.call_impl(lambda: part.row_order())
    co = common.call_impl(lambda: part.column_order())
    if ro != lo["row_order"] or co != lo["column_order"]:
        findings.append({"kind": "model", "locus": "%s.slice.order" % pre,
                         "detail": "%s impl %r %r model %r %r" % (det, ro, co, lo["row_order"], lo["column_order"])})
        return False
    det = "%s size=%s row_order=%r column_order=%r" % (det, size, ro, co)
    nontrivial = False
    mobj = part.min_base_size_mask
    spec = lo.get("spec")
    for d in ("row", "column", "table"):
        bname, mname = "%s_unweighted_bases" % d, "%s_mask" % d
        ub = common.call_impl(lambda: getattr(part, bname))
        mub = common.model_to_float(lo[bname])
        bases_ok = sc.compare(findings, "model", "%s.slice.%s" % (pre, bname), ub, mub, det)
        mask = common.call_impl(lambda: getattr(mobj, mname))
        shape_ok = (isinstance(mask, list) and len(mask) == len(ro)
                    and all(isinstance(r, list) and len(r) == len(co) and all(isinstance(x, bool) for x in r) for r in mask))
        if not shape_ok:
            if len(ro) and len(co):
                findings.append({"kind": "spec", "locus": "%s.slice.min_base_size_mask.%s.shape" % (pre, mname),
                                 "detail": "%s mask=%s" % (det, sc._short(mask))})
            continue
        if bases_ok:
            sc.compare(findings, "spec", "%s.slice.min_base_size_mask.%s" % (pre, mname), mask, lo[mname],
                       "%s %s=%s" % (det, bname, sc._short(ub)))
        if isinstance(ub, list) and len(ub) == len(mask) and all(isinstance(r, list) and len(r) == len(co) for r in ub):
            own = [[_lt(b, size) for b in r] for r in ub]
            sc.compare(findings, "spec", "%s.slice.min_base_size_mask.%s.vs-own-bases" % (pre, mname), mask, own,
                       "%s %s=%s" % (det, bname, sc._short(ub)))
        if spec:
            sm = spec[bname]
            bad = None
            for p, x in enumerate(ro):
                for q, y in enumerate(co):
                    if x >= 0 and y >= 0 and x < len(sm) and y < len(sm[x]):
                        b = common.frac_of(sm[x][y]) if isinstance(sm[x][y], str) else Fraction(sm[x][y])
                        if mask[p][q] != (b < size):
                            bad = bad or (p, q, x, y, b, mask[p][q])
            if bad:
                findings.append({"kind": "spec", "locus": "%s.slice.min_base_size_mask.%s.base-cell-vs-respondents" % (pre, mname),
                                 "detail": "%s displayed cell (%d,%d) = element (%d,%d) has %s eligible respondents: mask must be %s, is %s" % (
                                     det, bad[0], bad[1], bad[2], bad[3], bad[4], bad[4] < size, bad[5])})
        ctx.count("mask.slice_%s_mixed" % d, int(_mixed(mask)))
        if _has_nan(ub):
            ctx.count("mask.slice_nan_%s_bases" % d)
        nontrivial = nontrivial or _mixed(mask) or _has_nan(ub)
    return nontrivial


def _check_parts(findings, parts, louts, sub, pre, det, ctx):
    """parts of ONE cube against the ops of its sub-case"""
    size = sub.get("min_base", 0)
    vars_, _ = sc.load(sub)
    strand = len(cp._dims_of(vars_)) == 1
    if len(parts) != len(louts):
        findings.append({"kind": "spec", "locus": "%s.npartitions" % pre, "detail": "%s: %d partitions, expected %d" % (det, len(parts), len(louts))})
        return False
    nt = False
    for k, (part, lo) in enumerate(zip(parts, louts)):
        d = "%s k=%d transforms=%s" % (det, k, sc._short(sub["transforms"]))
        try:
            nt = (_check_strand if strand else _check_slice)(findings, part, lo, size, pre, d, ctx) or nt
        except common.HarnessFault:
            raise
        except Exception as e:  # noqa
            findings.append({"kind": "model", "locus": "%s.raises" % pre, "detail": "%s %s: %s" % (d, type(e).__name__, e)})
    return nt


def _nops(sub):
    vars_, _ = sc.load(sub)
    return 1 if len(cp._dims_of(vars_)) == 1 else sc.nparts(vars_)


def evaluate(case, louts, ctx):
    from cr.cube.cube import Cube, CubeSet
    fam = case["fam"]
    findings = []
    vars_, survey = sc.load(case)
    kinds = sc.kinds_of(vars_)
    size = case["min_base"]
    ctx.count("mask.fam:%s" % fam)
    nt = False
    try:
        if fam in ("tslice", "strand"):
            resp = gen.cube_response(vars_, survey, case["weighted"])
            tr = copy.deepcopy(case["transforms"])
            if case.get("via_set"):
                cs = CubeSet([resp], [tr], None, size)
                parts = [ps[0] for ps in cs.partition_sets]
                pre = "mask.%s.single-set" % fam
            else:
                kw = {"mask_size": size} if (size or len(case["survey"]) % 2) else {}      # 0 = the default too
                parts = list(Cube(resp, transforms=tr, **kw).partitions)
                pre = "mask.%s" % fam
            nt = _check_parts(findings, parts, louts, case, pre, "kinds=%s" % "x".join(kinds), ctx)
        else:
            subs = _set_subcases(case)
            resps, trs = _set_responses(case)
            cs = CubeSet(copy.deepcopy(resps), trs, None, size)
            psets = cs.partition_sets
            pos = 0
            if case.get("num"):
                if len(psets) != 1 or len(psets[0]) != len(subs) + 1:
                    findings.append({"kind": "spec", "locus": "mask.set.numeric.partition_sets.shape",
                                     "detail": "%r for %d cubes" % ([len(ps) for ps in psets], len(subs) + 1)})
                    return findings, None
                for j, sub in enumerate(subs):
                    n = _nops(sub)
                    nt = _check_parts(findings, [psets[0][j + 1]], louts[pos:pos + n], sub, "mask.set.numeric-inflated",
                                      "inflated cube %d min_base=%s" % (j + 1, size), ctx) or nt
                    pos += n
                ctx.count("mask.set.cube:numeric-inflated", len(subs))
            elif case.get("ca0"):
                nitems = len(vars_[0].valid_item_pos)
                if len(psets) != nitems or any(len(ps) != 2 for ps in psets):
                    findings.append({"kind": "spec", "locus": "mask.set.ca0th.partition_sets.shape",
                                     "detail": "%r for %d sub-variables" % ([len(ps) for ps in psets], nitems)})
                    return findings, None
                for k in range(nitems):
                    for c, nm in ((0, "strand"), (1, "slice")):
                        sub = subs[2 * k + c]
                        n = _nops(sub)
                        nt = _check_parts(findings, [psets[k][c]], louts[pos:pos + n], sub, "mask.set.ca0th",
                                          "sub-variable %d %s" % (k, nm), ctx) or nt
                        pos += n
            else:
                if len(psets) != 1 or len(psets[0]) != len(subs):
                    findings.append({"kind": "spec", "locus": "mask.set.partition_sets.shape",
                                     "detail": "%r for %d cubes" % ([len(ps) for ps in psets], len(subs))})
                    return findings, None
                for j, sub in enumerate(subs):
                    n = _nops(sub)
                    col = sub.get("filter")
                    if j == 0:
                        role = "summary"
                    elif col is None:
                        role = "crosstab"
                    else:
                        role = "filter-augmented" if len(resps[j]["result"]["counts"]) != len(resps[0]["result"]["counts"]) else "filter"
                    ctx.count("mask.set.cube:%s" % role)
                    nt = _check_parts(findings, [psets[0][j]], louts[pos:pos + n], sub, "mask.set.%s" % role,
                                      "cube %d of %d (%s) min_base=%s" % (j, len(subs), role, size), ctx) or nt
                    pos += n
    except common.HarnessFault:
        raise
    except Exception as e:  # noqa
        findings.append({"kind": "model", "locus": "mask.%s.construction" % fam, "detail": "%s: %s" % (type(e).__name__, e)})
        return findings, None
    key = None
    if nt:
        key = (fam, "x".join(kinds), repr(case.get("transforms") or case.get("rows_tr") or case.get("ca0_transforms")),
               size, len(case["survey"]))
    return findings, key


def describe(case):
    d = sc.describe(case)
    d["family"] = case["fam"]
    d["transforms"] = case.get("transforms") or case.get("rows_tr") or case.get("ca0_transforms")
    if case.get("cols"):
        d["cols"] = case["cols"]
    return d


shrink_candidates = sc.shrink_candidates
