"""C01 extension — a numeric measure reports the value the response CARRIES for the cell, whatever the other
measures of the same response say about that cell ("uncoupled" payloads).

The plain numeric generators (`c01_numeric`, `c01_numarr`) tabulate every statistic of a cell from the same
respondents with one convention, so availability is perfectly correlated across measures: a cell with fewer than two
valid respondents always carries an unavailable stddev, a cell with no valid respondent carries no mean / median and
a zero sum.  A library that re-derives availability from a DIFFERENT measure (`np.where(valid count > 1, stddev,
NaN)`, `np.where(count == 0, NaN, mean)`, zeroing sums of empty cells, ...) is then indistinguishable from one that
reports what is carried.  This family breaks the correlation, in the ways a real back end legitimately can:

  * stddev conventions: population (defined for a single respondent: 0.0), weighted sample with denominator
    sum(w) - 1 (defined for ONE respondent of weight > 1: 0 / (w - 1) = 0.0; unavailable for two respondents of total
    weight <= 1), frequency-weight sample (n - 1);
  * sparse surveys (about one respondent per raw cell, heavy and zero weights), so cells with exactly 0 or 1 valid
    respondent - weighted > 1, = 1, < 1 and 0 - occur in every case;
  * "filled" payloads: cells whose statistic is naturally unavailable carry a finite number anyway (0, or any value)
    for mean / sum / stddev / median - e.g. an imputed or suppressed-then-defaulted cell - while the counts say 0 / 1;
  * the converse (an unavailable marker in a well-populated cell) is the holes family of the base generator.

Every carried value is made explicit in the case (`carried`: measure -> {flat back-end position: value}), so a replay
does not depend on the conventions above.  Oracles are those of the numeric modules: `num_spec` (Lean Spec: the
decoded payload cell read from the back-end layout; respondent-level valid counts) and `num_api` (Lean Model) against
every public output of Cube / _Slice / _Strand / _Nub.  Nothing but the payload changes, so the Lean side is untouched:
`C01.numeric_flat_reports_cell_*` already quantify over EVERY payload function `g`; `C01_Uncoupled` restates that as
independence from the other measures.

The shared helper module `_numarr_gen` reads a case's payload through its module-level `payload`; this module wraps
that one function for the duration of a call (cases without `carried` are unaffected).
"""
from contextlib import contextmanager
from fractions import Fraction
import hashlib
import itertools
import math

import gen
from props import _numarr_gen as ng

PROPERTY = "C01"
LEAN_MODULE = "CrCube.Props.C01_Uncoupled"
THEOREMS = [
    "CrCube.C01.numeric_arrays_ignore_other_measures",
    "CrCube.C01.numeric_arrays_ignore_counts",
    "CrCube.C01.carried_number_surfaces_2d",
    "CrCube.C01.carried_number_surfaces_3d",
    "CrCube.C01.surfaces_nan_iff_carried_unavailable_2d",
]
RULE = ("uncoupled numeric payloads: designs of 1-3 apparent dimensions over cat/cat_date/datetime/text/binned/mr/ca and "
        "numeric arrays alone / x cat / x mr / x cat x cat, SPARSE respondent-level surveys (0-2 respondents per raw cell, "
        "weights from {0, 1/4, 1/2, 1, 5/4, 3/2, 2, 5/2, 3, 4}) x stddev convention {population, weighted sample "
        "sum(w)-1, frequency sample n-1} x filled cells (a finite number carried where the statistic is naturally "
        "unavailable) for every measure x valid-count presence {none,u,w,uw}; non-trivial = some raw cell with <= 1 valid "
        "respondent carries a finite stddev, or one with none a finite mean / median / non-zero sum; distinct = (kinds, "
        "items, valid-count mode, measures, carried values)")
ASSUMPTIONS = ["which statistic a back end writes into a cell is not the library's business: C01 demands the carried "
               "value, so any finite number may stand in any cell of mean / sum / stddev / median"]

HEAVY = [Fraction(5, 4), Fraction(3, 2), Fraction(2), Fraction(5, 2), Fraction(3), Fraction(4)]
SD_RULES = ("pop", "sample_w", "sample_n")
FILL_VALUES = [Fraction(0), Fraction(0), Fraction(1), Fraction(-3, 4), Fraction(7, 2), Fraction(100)]

GROUP_KINDS = ["cat", "cat", "cat", "mr", "mr", "cat_date", "datetime", "text", "binned"]
# (grouping kinds, numeric array?) -- every partition class and every extractor family, on every run
SYSTEMATIC = [(["cat", "cat"], False), (["cat", "mr"], False), (["mr", "cat"], False), (["mr", "mr"], False),
              (["cat", "cat", "cat"], False), (["mr", "cat", "mr"], False), (["ca"], False), (["cat", "ca"], False),
              (["cat"], False), (["cat"], False), (["mr"], False), (["text"], False), ([], False),
              (["cat"], True), (["mr"], True), ([], True), (["cat", "cat"], True)]


# ---------------------------------------------------------------------------------------
# payload with explicit carried values


def _payload(case, _orig=ng.payload):
    pl = _orig(case)
    for m, over in (case.get("carried") or {}).items():
        if m not in pl:
            continue
        holes = set(case["holes"].get(m, [])) | set(case.get("null_holes", {}).get(m, []))
        for pos, v in over.items():
            pos = int(pos)
            if pos < len(pl[m]) and pos not in holes:
                pl[m][pos] = ("null", None) if v is None else Fraction(v)
    return pl


@contextmanager
def _carried():
    saved = ng.payload
    ng.payload = _payload
    try:
        yield
    finally:
        ng.payload = saved


def _cell_members(case):
    """{(raw group index, item): [(weight, value)] of the respondents of the cell that have a value}"""
    vars_, survey = ng.load(case)
    nit = ng.n_items(case)
    out = {}
    for gix in itertools.product(*[range(s) for s in gen.raw_shape(vars_)]):
        members = [(w if case["weighted"] else Fraction(1), vals) for w, ans, vals in survey
                   if ng._in_cell(vars_, ans, gix)]
        for k in range(nit):
            out[(gix, k)] = [(w, vals[k]) for w, vals in members if vals[k] is not None]
    return out


def _stddev(xs, rule):
    """the cell's standard deviation under a back-end convention; None = unavailable"""
    n = len(xs)
    sw = sum((w for w, _ in xs), Fraction(0))
    if n == 0 or sw == 0:
        return None
    den = {"pop": sw, "sample_w": sw - 1, "sample_n": sw * (n - 1) / n}[rule]
    if den <= 0:
        return None
    mu = sum((w * x for w, x in xs), Fraction(0)) / sw
    var = sum((w * (x - mu) ** 2 for w, x in xs), Fraction(0)) / den
    return Fraction(math.sqrt(float(var)))


def _sparse_survey(rng, vars_, nit, weighted):
    ncell = 1
    for s in gen.raw_shape(vars_):
        ncell *= s
    n_resp = rng.randint(max(1, ncell // 2), max(2, 2 * ncell))
    n_resp = min(n_resp, 60)
    base = gen.gen_survey(rng, vars_, n_resp=n_resp, weighted=weighted, skew=rng.random() < 0.3)
    pool = rng.sample(ng.VALUES, rng.randint(2, 6))
    pm = [rng.choice([0.0, 0.0, 0.15, 0.4, 1.0] if nit > 1 else [0.0, 0.0, 0.15, 0.4]) for _ in range(nit)]
    out = []
    for w, ans in base:
        if weighted and rng.random() < 0.5:
            w = rng.choice(HEAVY)
        out.append((w, ans, [None if rng.random() < pm[k] else rng.choice(pool) for k in range(nit)]))
    return out


def gen_case(rng, kinds, array, systematic=False):
    """systematic: all four measures, every one of them with filled cells"""
    nit = rng.choice([1, 2, 3]) if array else 1
    case = ng.gen_case(rng, kinds, nit, array, measures=list(ng.NUMERIC_MEASURES) if systematic else None,
                       min_n=2 if systematic else rng.choice([1, 2]))
    vars_, _ = ng.load(case)
    weighted = rng.random() < 0.65
    case["weighted"] = weighted
    case["survey"] = ng.survey_to_json(_sparse_survey(rng, vars_, nit, weighted))
    # stddev in two cases out of three, any other subset otherwise
    if rng.random() < 0.67 and "stddev" not in case["measures"]:
        case["measures"] = sorted(case["measures"] + ["stddev"])
    case["holes"] = {m: v for m, v in case["holes"].items() if m in case["measures"] and rng.random() < 0.3}
    case["null_holes"] = {m: v for m, v in case["null_holes"].items() if m in case["measures"] and rng.random() < 0.3}
    case["min_base"] = rng.choice([0, 0, 0, 2])
    case["sd_rule"] = rng.choice(SD_RULES)
    members = _cell_members(case)
    order = ng.flat_index_order(case)
    natural = ng.cells(case)
    carried = {}
    for m in case["measures"]:
        over = {}
        fill = rng.choice(["all", "some"] if systematic else [None, "all", "some"])
        for pos, key in enumerate(order):
            v = natural[key][m]
            if m == "stddev":
                v = _stddev(members[key], case["sd_rule"])
                over[str(pos)] = None if v is None else gen.frac_str(v)
            # (the sum of nobody is naturally 0: an empty cell may carry something else just as well)
            if (v is None or (m == "sum" and not members[key])) and fill and (fill == "all" or rng.random() < 0.5):
                fv = rng.choice(FILL_VALUES)
                over[str(pos)] = gen.frac_str(abs(fv) if m == "stddev" else fv)   # a deviation is never negative
        if over:
            carried[m] = over
    case["carried"] = carried
    return case


def gen_kinds(rng):
    if rng.random() < 0.3:
        return list(rng.choice([[], ["cat"], ["cat"], ["mr"], ["cat", "cat"], ["datetime"], ["text"]])), True
    nd = rng.choice([1, 1, 2, 2, 2, 3, 3])
    kinds, app = [], 0
    while app < nd:
        k = rng.choice(GROUP_KINDS + ["ca"])
        w = 2 if k == "ca" else 1
        if app + w > nd or (k == "ca" and "ca" in kinds):
            k, w = "cat", 1
        kinds.append(k)
        app += w
    return kinds, False


def generate(ctx):
    out = [gen_case(ctx.rng, list(kinds), array, systematic=True) for kinds, array in SYSTEMATIC]
    for _ in range(ctx.n(45, 1500)):
        kinds, array = gen_kinds(ctx.rng)
        out.append(gen_case(ctx.rng, kinds, array))
    return out


def lean_ops(case):
    with _carried():
        return ng.lean_ops(case)


def uncoupled_cells(case):
    """{measure: number of raw cells whose carried value is finite although the cell's own valid respondents would
    not support the statistic (<= 1 for stddev, none for mean / median, a non-zero sum of nobody)}"""
    with _carried():
        pl = ng.payload(case)
    members = _cell_members(case)
    out = {}
    for m in case["measures"]:
        n = 0
        for pos, key in enumerate(ng.flat_index_order(case)):
            v = pl[m][pos]
            if isinstance(v, tuple):
                continue
            k = len(members[key])
            if (m == "stddev" and k <= 1) or (m in ("mean", "median") and k == 0) or (m == "sum" and k == 0 and v != 0):
                n += 1
        if n:
            out[m] = n
    return out


def evaluate(case, louts, ctx):
    with _carried():
        pre = "uncoupled.numarr" if ng.is_array(case) else "uncoupled.numeric"
        findings, key = ng.evaluate_case(case, louts, ctx, "c01", pre)
    unc = uncoupled_cells(case)
    for m, n in unc.items():
        ctx.count("uncoupled.cells:%s" % m, n)
    ctx.count("uncoupled.sd_rule:%s" % case.get("sd_rule"))
    if not unc:
        return findings, None
    sig = tuple(sorted((m, tuple(sorted(o.items()))) for m, o in (case.get("carried") or {}).items()))
    key = ("uncoupled", "x".join(ng.apparent_kinds(case)), case["n_items"], case["vc"], tuple(case["measures"]),
           len(case["survey"]), hashlib.md5(repr(sig).encode()).hexdigest()[:12])
    return findings, key


def describe(case):
    d = ng.describe(case)
    d["sd_rule"] = case.get("sd_rule")
    d["uncoupled_cells"] = uncoupled_cells(case)
    return d


def shrink_candidates(case):
    for c in ng.shrink_candidates(case):
        if not c["survey"]:
            continue    # keep a respondent-level witness: at least one respondent behind the response
        if "carried" in c:
            c = dict(c, carried={m: o for m, o in c["carried"].items() if m in c["measures"]})
        yield c
    carried = case.get("carried") or {}
    for m, over in carried.items():
        # back to the naturally tabulated value, measure by measure and cell by cell
        yield dict(case, carried={k: v for k, v in carried.items() if k != m})
        if len(over) > 1:
            for pos in list(over)[:40]:
                yield dict(case, carried=dict(carried, **{m: {p: v for p, v in over.items() if p != pos}}))
