"""Shared pieces of the C04 / C15 checks: insertion-dict generator, cube construction with
view-level and transform-level insertions, the merged-survey oracle, block <-> assembled-matrix
mapping."""
from fractions import Fraction
import copy
import itertools
import math

import gen
import common

STALE_BASE = -1000000  # Lean-side int standing for "an id spelling that matches no element"


# ---------------------------------------------------------------------------------------------
# insertion dicts


def lean_id(x):
    if isinstance(x, bool):
        return STALE_BASE - 1
    if isinstance(x, int):
        return x
    return STALE_BASE - 2


def lean_insertion(d):
    """the gauntlet-relevant content of a raw insertion entry, for the Lean driver"""
    if not isinstance(d, dict):
        return {"fn": False, "hide": False, "an": False, "kwpos": [], "args": [], "neg": []}
    kw = d.get("kwargs", {}) or {}
    return {
        "fn": d.get("function") == "subtotal",
        "hide": d.get("hide") is True,
        "an": ("anchor" in d) and ("name" in d),
        "kwpos": [lean_id(x) for x in (kw.get("positive") or [])],
        "args": [lean_id(x) for x in (d.get("args") or [])],
        "neg": [lean_id(x) for x in (kw.get("negative") or [])],
    }


def valid_ids(var):
    return [c["id"] for c in var.cats if not c["missing"]]


def gen_insertion(rng, var, idx, want_id):
    """one raw insertion dict on the categories of `var` (a cat-like Var or a CA Var)."""
    vids = valid_ids(var)
    mids = [c["id"] for c in var.cats if c["missing"]]
    absent = [max([c["id"] for c in var.cats] + [0]) + 50 + idx, 999]

    def pick(k, allow_stale=True):
        out = []
        for _ in range(k):
            r = rng.random()
            if vids and (r < 0.72 or not allow_stale):
                out.append(rng.choice(vids))
            elif mids and r < 0.82:
                out.append(rng.choice(mids))
            elif r < 0.94:
                out.append(rng.choice(absent))
            elif vids:
                out.append(str(rng.choice(vids)))   # string spelling of an int id: matches nothing
            else:
                out.append(rng.choice(absent))
        return out

    kinds = ["sum", "sum", "sum", "diff", "diff", "diff11", "diffmulti", "neg_only", "first",
             "overlap", "dup", "all_stale", "junk"]
    if var.kind == "cat_date":
        kinds += ["diff11", "diffmulti", "diffmulti", "sum"]      # the wave-difference rules live here
    kind = rng.choice(kinds)
    d = {"function": "subtotal", "name": "ins%d" % idx}
    anchors = ["top", "bottom"] + vids[:] + absent[:1]
    d["anchor"] = rng.choice(anchors)
    pos, neg = [], []
    if kind == "sum":
        pos = pick(rng.randint(1, 3))
    elif kind == "diff":
        pos = pick(rng.randint(1, 3))
        neg = pick(rng.randint(1, 2))
    elif kind == "diff11":
        if len(vids) >= 2:
            a, b = rng.sample(vids, 2)
            pos, neg = [a], [b]
        else:
            pos, neg = pick(1), pick(1)
    elif kind == "diffmulti":
        if len(vids) >= 3:
            ids = rng.sample(vids, 3)
            if rng.random() < 0.5:
                pos, neg = ids[:2], ids[2:]
            else:
                pos, neg = ids[:1], ids[1:]
            if rng.random() < 0.6:
                # the defect-F1 shape: the single subtrahend is the FIRST valid element
                others = [x for x in vids if x != vids[0]]
                pos, neg = rng.sample(others, 2), [vids[0]]
        else:
            pos, neg = pick(2), pick(1)
    elif kind == "neg_only":
        neg = pick(rng.randint(1, 2))
    elif kind == "first":
        if vids:
            if rng.random() < 0.5:
                pos = [vids[0]]
            else:
                pos, neg = ([vids[-1]] if len(vids) > 1 else pick(1)), [vids[0]]
        else:
            pos = pick(1)
    elif kind == "overlap":
        pos = pick(rng.randint(1, 2))
        neg = [pos[0]] + pick(rng.randint(0, 1))
    elif kind == "dup":
        pos = pick(rng.randint(1, 2))
        pos = pos + [pos[0]]
        if rng.random() < 0.4:
            neg = pick(1)
            neg = neg + neg
    elif kind == "all_stale":
        pos = [rng.choice(absent)] + ([rng.choice(mids)] if mids else [])
        if rng.random() < 0.4:
            neg = [rng.choice(absent)]
    elif kind == "junk":
        j = rng.choice(["nondict", "heading", "hide", "noanchor", "noname", "empty", "hidefalse"])
        if j == "nondict":
            return rng.choice([None, "subtotal", 7])
        pos = pick(2)
        if j == "heading":
            d["function"] = "heading"
        elif j == "hide":
            d["hide"] = True
        elif j == "hidefalse":
            d["hide"] = False
        elif j == "noanchor":
            del d["anchor"]
        elif j == "noname":
            del d["name"]
        elif j == "empty":
            pos = []
    # spelling of the lists
    form = rng.choice(["args", "args", "kwpos", "both", "emptykw"])
    if neg:
        if form == "args":
            d["args"] = pos
            d["kwargs"] = {"negative": neg}
        elif form == "kwpos":
            d["kwargs"] = {"positive": pos, "negative": neg}
        elif form == "both":
            d["args"] = pick(1)              # ignored: kwargs.positive wins when non-empty
            d["kwargs"] = {"positive": pos, "negative": neg}
            if not pos:
                d["args"] = []
        else:
            d["args"] = pos
            d["kwargs"] = {"positive": [], "negative": neg}
    else:
        if form in ("args", "emptykw"):
            d["args"] = pos
            if form == "emptykw":
                d["kwargs"] = {"positive": []}
        elif form == "kwpos":
            d["kwargs"] = {"positive": pos}
            d["args"] = []
        else:
            d["args"] = pick(1) if pos else []
            d["kwargs"] = {"positive": pos}
    if want_id:
        d["id"] = idx + 1
    return d


def gen_insertions(rng, var, max_n=3):
    n = rng.choice([0, 1, 1, 2, 2, 3][: max_n + 3])
    mode = rng.choice(["all", "all", "none", "none", "mixed", "collide", "equal"])
    out = [gen_insertion(rng, var, i, mode == "all") for i in range(n)]
    dicts = [d for d in out if isinstance(d, dict)]
    if mode == "mixed":
        # some carry an id, some do not (the others are auto-numbered by position)
        for i, d in enumerate(dicts):
            if rng.random() < 0.5:
                d["id"] = 10 + i
    elif mode == "collide" and len(dicts) >= 2:
        # COLLIDING insertion ids: one explicit id equals the number an id-less one is given automatically
        # (1-based position among the surviving insertions); values must not depend on the ids at all
        k = rng.randrange(len(dicts))
        for i, d in enumerate(dicts):
            d.pop("id", None)
        dicts[k]["id"] = rng.choice([i + 1 for i in range(len(dicts)) if i != k] + [1])
    elif mode == "equal" and len(dicts) >= 2:
        for d in dicts:
            d["id"] = 1
    return out


def lean_dim(var, view, transform, catdate=None):
    """dim JSON for the Lean driver.  `var` None = an MR / CA-items dimension (no subtotals)."""
    if var is None:
        return {"validIds": [], "view": [], "transform": None, "array": True, "catdate": False}
    return {"validIds": valid_ids(var),
            "view": [lean_insertion(d) for d in (view or [])],
            "transform": None if transform is None else [lean_insertion(d) for d in transform],
            "array": False,
            "catdate": (var.kind == "cat_date") if catdate is None else catdate}


# ---------------------------------------------------------------------------------------------
# the slice's two dimensions in terms of the generator's variables


def dim_vars(vars_):
    """[(var, role)] for the apparent dimensions; role 'cat' (carries subtotals), 'mr', 'items'"""
    out = []
    for v in vars_:
        if v.kind == "mr":
            out.append((v, "mr"))
        elif v.kind == "ca":
            out.append((v, "items"))
            out.append((v, "cat"))
        else:
            out.append((v, "cat"))
    return out


def response_dim_index(vars_, var_idx, role):
    """index into result.dimensions of the dimension dict that carries `role` of variable var_idx"""
    pos = 0
    for i, v in enumerate(vars_):
        n = 2 if v.is_array else 1
        if i == var_idx:
            if v.kind == "ca":
                return pos + (1 if role == "cat" else 0)
            if v.kind == "mr":
                return pos          # MR_SUBVAR dim
            return pos
        pos += n
    raise ValueError


def attach_view(resp, vars_, var_idx, role, insertions):
    k = response_dim_index(vars_, var_idx, role)
    dim = resp["result"]["dimensions"][k]
    dim["references"]["view"] = {"transform": {"insertions": copy.deepcopy(insertions)}}


def flat_num(x):
    """cell of an extra measure: Fraction -> json number, None -> {"?": -1}"""
    if x is None:
        return {"?": -1}
    return gen.num(Fraction(x))


def measure_str(x):
    return "nan" if x is None else gen.frac_str(x)


def order_map(order, n_base):
    """signed display order -> list of ('b', idx) | ('s', subtotal idx); n_subs inferred later"""
    return list(order)


def cell_of(sidx, n_subs):
    """signed index -> (is_subtotal, index)"""
    sidx = int(sidx)
    if sidx < 0:
        return True, n_subs + sidx
    return False, sidx


def assemble_model(blocks, row_order, col_order, nrs, ncs):
    """Lean blocks (dict of 4 lists) -> assembled matrix following the library's display order"""
    body, ic, ir, inter = blocks["body"], blocks["ins_cols"], blocks["ins_rows"], blocks["inter"]
    out = []
    for r in row_order:
        rs, ri = cell_of(r, nrs)
        row = []
        for c in col_order:
            cs, ci = cell_of(c, ncs)
            if not rs and not cs:
                row.append(body[ri][ci])
            elif not rs and cs:
                row.append(ic[ri][ci])
            elif rs and not cs:
                row.append(ir[ri][ci])
            else:
                row.append(inter[ri][ci])
        out.append(row)
    return out


def block_name(rs, cs):
    return {(False, False): "body", (False, True): "ins-cols", (True, False): "ins-rows",
            (True, True): "intersections"}[(rs, cs)]


def first_diff(impl, model, row_order, col_order, nrs, ncs):
    """first differing cell of two assembled matrices -> (block name, i, j, a, b) or None"""
    if not isinstance(impl, list):
        return ("whole", -1, -1, impl, "matrix")
    if len(impl) != len(model):
        return ("shape", -1, -1, len(impl), len(model))
    for i, (ra, rb) in enumerate(zip(impl, model)):
        if not isinstance(ra, list) or len(ra) != len(rb):
            return ("shape", i, -1, ra, rb)
        for j, (a, b) in enumerate(zip(ra, rb)):
            if not common.num_close(a, b):
                rs, _ = cell_of(row_order[i], nrs)
                cs, _ = cell_of(col_order[j], ncs)
                return (block_name(rs, cs), i, j, a, b)
    return None


# ---------------------------------------------------------------------------------------------
# merged-survey oracle


def merge_var(var, addend_raw_pos):
    """the variable with the categories at raw positions `addend_raw_pos` replaced by ONE new
    category appended at the end; returns (new Var, recode: old raw pos -> new raw pos)"""
    keep = [i for i in range(len(var.cats)) if i not in addend_raw_pos]
    new_cats = [copy.deepcopy(var.cats[i]) for i in keep]
    new_id = max([c["id"] for c in var.cats] + [0]) + 7
    merged = {"id": new_id, "missing": False, "name": "merged", "numeric_value": None}
    if var.kind == "cat_date":
        merged["date"] = "2031-01"
    new_cats.append(merged)
    recode = {}
    for new, old in enumerate(keep):
        recode[old] = new
    for a in addend_raw_pos:
        recode[a] = len(keep)
    nv = gen.Var(var.kind, var.alias, cats=new_cats, items=copy.deepcopy(var.items),
                 ca_transposed=var.ca_transposed)
    return nv, recode


def merge_survey(survey, var_idx, recode):
    out = []
    for w, ans in survey:
        a2 = [list(a) for a in ans]
        a2[var_idx] = [recode[c] for c in a2[var_idx]]
        out.append((w, a2))
    return out


def merge_flat(vars_, flat, var_idx, addend_raw_pos, new_vars, recode):
    """merge a raw flat measure array (list of Fraction | None) along the category axis of var_idx
    with numpy-sum semantics (None = NaN is absorbing)."""
    shape = gen.raw_shape(vars_)
    new_shape = gen.raw_shape(new_vars)
    # axis of the category dimension of var_idx in the raw array
    ax = 0
    for i, v in enumerate(vars_):
        if i == var_idx:
            ax += (1 if v.is_array else 0)
            break
        ax += len(v.raw_axes_shape())
    strides = []
    acc = 1
    for s in reversed(shape):
        strides.append(acc)
        acc *= s
    strides = list(reversed(strides))

    def at(ix):
        return flat[sum(i * s for i, s in zip(ix, strides))]

    inv = {}
    for old, new in recode.items():
        inv.setdefault(new, []).append(old)
    out = []
    for ix in itertools.product(*[range(s) for s in new_shape]):
        olds = inv[ix[ax]]
        tot = Fraction(0)
        nan = False
        for o in olds:
            jx = list(ix)
            jx[ax] = o
            x = at(jx)
            if x is None:
                nan = True
            else:
                tot += x
        out.append(None if nan else tot)
    return out


def is_nan(x):
    return isinstance(x, float) and math.isnan(x)
