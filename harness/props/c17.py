"""C17 — population estimates scale the right proportion by population and filter share.

Seams (all through the REAL library, `Cube(response, population=…)` / `CubeSet`):
  frac    : `Cube.population_fraction`, `partition.population_fraction`, `CubeSet.population_fraction` on a grid of
            raw filter-statistic shapes (absent / {} / old style / new style / zeros / null leaves / cat-date flag),
            EXHAUSTIVE over the grid in the quick tier -> Lean Spec (`fractionOf ∘ viewOf`) and Model
            (`populationFraction` on the raw JSON).  A separate MALFORMED stream (null in place of an enclosing
            object, null / missing selected-other, non-dict `weighted`, odd leaf types) is compared with the Model
            only and counted under its own loci (finding candidates F10), never alarmed on as a property failure.
  slice   : generated surveys (rows/cols cat, cat_date, mr, datetime; optional table dimension; subtotals and
            subtotal DIFFERENCES on both dimensions) x population (0, integers, non-integers) x filter statistics ->
            `_Slice.population_counts / population_counts_moe / population_fraction` against the respondent-level
            Lean Spec (`estimate (popProportion …)`, `marginOfError (stdErr …)`) and the Lean Model (`SliceIn`).
            MoE additionally against Z·population·fraction·(library's own row/column/table std-err, whichever
            matches the chosen proportion) on every cell incl. differences.  Linearity: a second cube with k·population.
  strand  : the same for `_Strand`.
  forms   : every frac shape is also fed as JSON text and as a {"value": …} envelope (dict / text) and must give the
            dict form's fraction; slices and strands are fed in a random one of the four forms (float-valued
            statistics such as 12.5 / 7.0 over 0 / 0.0 included).
  augment : multi-cube CubeSets over a text rows variable whose 2nd/3rd response is a single-column filter cube listing
            fewer labels than the summary (so `Cube.augment_response` rebuilds it): the augmented partition's
            population_counts / MoE / fraction against the Spec on the zero-padded survey and against a plain Cube.
Subtotal differences include negative-only insertions and differences whose positive ids are all missing / stale.
"""
from fractions import Fraction
import copy
import itertools
import math

import gen
import common

PROPERTY = "C17"
LEAN_MODULE = "CrCube.Props.C17"
THEOREMS = [
    "CrCube.C17.fraction_cascade",
    "CrCube.C17.fraction_decision",
    "CrCube.C17.fraction_null_objects_counterexample",
    "CrCube.C17.cubeset_fraction",
    "CrCube.C17.pop_proportion_choice",
    "CrCube.C17.popMode_within",
    "CrCube.C17.pop_counts",
    "CrCube.C17.pop_counts_formula",
    "CrCube.C17.diffs_nan",
    "CrCube.C17.moe_eq",
    "CrCube.C17.pop_moe",
    "CrCube.C17.linear_in_population",
    "CrCube.C17.moe_linear",
    "CrCube.C17.zero_population",
    "CrCube.C17.strand_choice",
    "CrCube.C17.strand_counts",
    "CrCube.C17.strand_diffs_nan",
    "CrCube.C17.strand_moe",
    "CrCube.C17.strand_linear",
]
RULE = ("frac: the full grid filter_stats{absent,{},{fc:{}},weighted∈{absent,null,{},(sel,oth) pairs incl. zeros}} x "
        "is_cat_date{absent,null,true,false} x filtered/unfiltered{absent,{},weighted_n∈{null,0,num}} (exhaustive, quick "
        "tier) + malformed stream; slice/strand: random designs x surveys (0-60 respondents, dyadic weights) x "
        "subtotals incl. differences on both dimensions x population∈{0,1,ints,non-integers} x filter shape; "
        "non-trivial = >=2 distinct positive finite estimates (slice/strand) or a fraction outside {1} (frac); "
        "distinct = (seam, mode, kinds, filter-shape, population) key")
ASSUMPTIONS = [
    "N4: 'null' filter statistics = null LEAF values (weighted, weighted_n) of otherwise well-formed objects; nulls in "
    "place of enclosing objects and null/missing selected/other are the malformed stream (model-only, own loci)",
    "F9: categorical-date on BOTH dimensions: rows are taken (as coded); the property text is silent",
    "margin of error on subtotal-difference cells: only 'Z·population·fraction·matching library std-err' is demanded",
    "numbers in filter statistics are ints / finite floats; population is a finite number",
]
EXHAUSTIVE = True

NAN = float("nan")
Z = 1.959964
ABSENT = "__absent__"


# ---------------------------------------------------------------------------------------
# filter-statistic shapes


def _mk(d):
    """drop ABSENT entries recursively"""
    if isinstance(d, dict):
        return {k: _mk(v) for k, v in d.items() if not (isinstance(v, str) and v == ABSENT)}
    return d


PAIRS = [(3, 1), (0, 0), (0, 5), (5, 0), (1.5, 0.5), (0.0, 0.0), (7, 2.25), (1, 1), (7.0, 3.0), (12.5, 0.0)]
LEAVES = [ABSENT, None, 0, 2, 2.5, 0.0, 7.0]
FORMS = ["dict", "text", "envelope", "envelope-text"]
ICD = [ABSENT, None, True, False]


def weighted_options():
    opts = [ABSENT, None, {}]
    for s, o in PAIRS:
        opts.append({"selected": s, "other": o})
    return opts


def fs_options():
    """well-formed filter_stats values"""
    out = [ABSENT, {}, {"filtered_complete": {}}]
    for icd in ICD:
        for w in weighted_options():
            fc = {"weighted": w}
            out.append({"filtered_complete": fc, "is_cat_date": icd})
    return out


def side_options():
    out = [ABSENT, {}]
    for x in LEAVES:
        if x is not ABSENT:
            out.append({"weighted_n": x})
    return out


def decorate(rng, extras):
    """add the sibling keys real payloads carry (unweighted stats, missing counts) — they must be ignored"""
    e = copy.deepcopy(extras)
    fs = e.get("filter_stats")
    if isinstance(fs, dict) and rng.random() < 0.5:
        fs["filtered"] = {"unweighted": {"selected": 5, "other": 1, "missing": 0},
                          "weighted": {"selected": 9, "other": 1, "missing": 0}}
        fc = fs.get("filtered_complete")
        if isinstance(fc, dict):
            fc["unweighted"] = {"selected": 4, "other": 4, "missing": 1}
            if isinstance(fc.get("weighted"), dict) and fc["weighted"]:
                fc["weighted"]["missing"] = rng.choice([0, 3])
    for k in ("filtered", "unfiltered"):
        if isinstance(e.get(k), dict) and rng.random() < 0.5:
            e[k]["unweighted_n"] = rng.choice([0, 10])
    return e


MALFORMED = [
    ("null-object", {"filter_stats": None}),
    ("null-object", {"filter_stats": {"filtered_complete": None}}),
    ("null-object", {"filter_stats": None, "filtered": {"weighted_n": 1}, "unfiltered": {"weighted_n": 2}}),
    ("null-object", {"filtered": None}),
    ("null-object", {"unfiltered": None}),
    ("null-object", {"filtered": None, "unfiltered": {"weighted_n": 2}}),
    ("null-object", {"filtered": {"weighted_n": 2}, "unfiltered": None}),
    ("null-object", {"filter_stats": {"filtered_complete": {"weighted": {"selected": 1, "other": 1}}}, "filtered": None}),
    ("null-selected-other", {"filter_stats": {"filtered_complete": {"weighted": {"selected": None, "other": 1}}}}),
    ("null-selected-other", {"filter_stats": {"filtered_complete": {"weighted": {"selected": 1, "other": None}}}}),
    ("null-selected-other", {"filter_stats": {"filtered_complete": {"weighted": {"selected": None, "other": None}}}}),
    ("null-selected-other", {"filter_stats": {"filtered_complete": {"weighted": {"selected": 1}}}}),
    ("null-selected-other", {"filter_stats": {"filtered_complete": {"weighted": {"other": 1}}}}),
    ("null-selected-other", {"filter_stats": {"is_cat_date": True, "filtered_complete": {"weighted": {"other": 1}}}}),
    ("odd-type", {"filter_stats": {"filtered_complete": {"weighted": 5}}}),
    ("odd-type", {"filter_stats": {"filtered_complete": {"weighted": "x"}}}),
    ("odd-type", {"filter_stats": {"filtered_complete": {"weighted": [1]}}}),
    ("odd-type", {"filter_stats": {"filtered_complete": {"weighted": 0}}}),
    ("odd-type", {"filter_stats": {"filtered_complete": {"weighted": []}}, "filtered": {"weighted_n": 1}, "unfiltered": {"weighted_n": 4}}),
    ("odd-type", {"filter_stats": {"filtered_complete": 3}}),
    ("odd-type", {"filter_stats": 3}),
    ("odd-type", {"filter_stats": []}),
    ("odd-type", {"filtered": 3, "unfiltered": 4}),
    ("odd-type", {"filtered": {"weighted_n": True}, "unfiltered": {"weighted_n": 2}}),
    ("odd-type", {"filtered": {"weighted_n": "3"}, "unfiltered": {"weighted_n": 2}}),
    ("odd-type", {"filtered": {"weighted_n": 3}, "unfiltered": {"weighted_n": False}}),
    ("odd-type", {"filter_stats": {"is_cat_date": 1, "filtered_complete": {"weighted": {"selected": 1, "other": 3}}}}),
    ("odd-type", {"filter_stats": {"is_cat_date": "yes", "filtered_complete": {"weighted": {"selected": 1, "other": 3}}}}),
    ("odd-type", {"filter_stats": {"is_cat_date": 0, "filtered_complete": {"weighted": {"selected": 1, "other": 3}}}}),
    ("odd-type", {"filter_stats": {"filtered_complete": {"weighted": {"selected": "a", "other": "b"}}}}),
    ("odd-type", {"filter_stats": {"filtered_complete": {"weighted": {"selected": True, "other": 1}}}}),
    ("odd-type", {"filter_stats": {"filtered_complete": {"weighted": {"selected": [1], "other": [2]}}}}),
    ("odd-type", {"filter_stats": {"filtered_complete": {"weighted": {"selected": 1, "other": "b"}}}}),
]


def as_form(resp, form):
    """the same response as the caller may hand it over: dict, JSON text, or a shoji {"value": …} envelope of either.
    JSON text turns every number into what `json.loads` makes of it (ints stay ints, 7.0 / 0.0 / 12.5 floats)."""
    import json
    if form == "dict":
        return resp
    if form == "text":
        return json.dumps(resp)
    if form == "envelope":
        return {"element": "shoji:view", "value": resp}
    return json.dumps({"element": "shoji:view", "value": resp})


def isnum(x):
    return isinstance(x, (int, float)) and not isinstance(x, bool)


def well_formed(extras):
    def obj_or_absent(d, k):
        return k not in d or isinstance(d[k], dict)

    def leaf_ok(d, k):
        return k not in d or d[k] is None or isnum(d[k])
    if not obj_or_absent(extras, "filter_stats"):
        return False
    fs = extras.get("filter_stats", {})
    if not obj_or_absent(fs, "filtered_complete"):
        return False
    fc = fs.get("filtered_complete", {})
    w = fc.get("weighted", None)
    if not (w is None or w == {} or (isinstance(w, dict) and isnum(w.get("selected")) and isnum(w.get("other")))):
        return False
    icd = fs.get("is_cat_date", None)
    if not (icd is None or isinstance(icd, bool)):
        return False
    for k in ("filtered", "unfiltered"):
        if not obj_or_absent(extras, k):
            return False
        if not leaf_ok(extras.get(k, {}), "weighted_n"):
            return False
    return True


def py_fraction(extras):
    """the property sentence on a WELL-FORMED shape; exact (Fraction | 'nan')"""
    fs = extras.get("filter_stats", {})
    w = fs.get("filtered_complete", {}).get("weighted")
    if isinstance(w, dict) and w:
        if fs.get("is_cat_date") is True:
            return Fraction(1)
        s, o = Fraction(w["selected"]), Fraction(w["other"])
        return "nan" if s + o == 0 else s / (s + o)
    f = extras.get("filtered", {}).get("weighted_n")
    u = extras.get("unfiltered", {}).get("weighted_n")
    if f is None or u is None:
        return Fraction(1)
    return "nan" if Fraction(u) == 0 else Fraction(f) / Fraction(u)


def py_fraction_repaired(extras):
    """proposed repair (fixes/F10): null objects read as absent, every lookup inside the try"""
    try:
        fs = extras.get("filter_stats") or {}
        w = (fs.get("filtered_complete") or {}).get("weighted")
        if w:
            if fs.get("is_cat_date"):
                return 1.0
            num = w["selected"]
            den = num + w["other"]
        else:
            num = (extras.get("filtered") or {}).get("weighted_n")
            den = (extras.get("unfiltered") or {}).get("weighted_n")
        return num / den
    except ZeroDivisionError:
        return NAN
    except Exception:
        return 1.0


def shape_class(extras):
    fs = extras.get("filter_stats", ABSENT)
    if fs is ABSENT:
        a = "fs-absent"
    elif not isinstance(fs, dict):
        a = "fs-odd"
    else:
        w = (fs.get("filtered_complete") or {}).get("weighted", ABSENT) if isinstance(fs.get("filtered_complete", {}), dict) else "odd"
        if w is ABSENT:
            a = "w-absent"
        elif w is None:
            a = "w-null"
        elif w == {}:
            a = "w-empty"
        elif isinstance(w, dict):
            a = "new-zero" if (w.get("selected") == 0 and w.get("other") == 0) else "new"
            if fs.get("is_cat_date") is True:
                a += "-catdate"
        else:
            a = "w-odd"
    def side(k):
        v = extras.get(k, ABSENT)
        if v is ABSENT:
            return "absent"
        if not isinstance(v, dict):
            return "odd"
        x = v.get("weighted_n", ABSENT)
        return "noleaf" if x is ABSENT else ("null" if x is None else ("zero" if x == 0 else "num"))
    return "%s|%s|%s" % (a, side("filtered"), side("unfiltered"))


# ---------------------------------------------------------------------------------------
# generation


POPULATIONS = [0, 1, 1000, 2500, 1234.5, 0.25, 3000000, 17]
KINDS2 = ["cat", "cat", "cat_date", "cat_date", "mr", "datetime", "text"]


def _subtotals(rng, var):
    """subtotals and differences; some terms refer to MISSING categories or to ids the variable does not have
    (stale), and some differences are negative-only or keep only their negative term — a subtotal that
    subtracts a valid category is a difference whatever is left of its positive side."""
    ids = [c["id"] for c in var.cats if not c["missing"]]
    dead = [c["id"] for c in var.cats if c["missing"]] + [max(c["id"] for c in var.cats) + 7, 9999]
    out = []
    for k in range(rng.choice([0, 1, 1, 2])):
        pos = rng.sample(ids, rng.randint(1, min(3, len(ids))))
        rest = [i for i in ids if i not in pos]
        neg = []
        if rest and rng.random() < 0.6:
            neg = rng.sample(rest, rng.randint(1, min(2, len(rest))))
        style = rng.random()
        if neg and style < 0.2:
            pos = []                                    # negative-only insertion
        elif neg and style < 0.4:
            pos = rng.sample(dead, rng.randint(1, 2))   # positive side all missing / stale
        elif style < 0.55:
            pos = pos + rng.sample(dead, 1)             # a stale extra on the positive side
        elif neg and style < 0.65:
            neg = neg + rng.sample(dead, 1)             # a stale extra on the negative side
        elif style < 0.72 and not neg:
            neg = rng.sample(dead, 1)                   # negative side all stale: an ordinary subtotal
        anchor = rng.choice(["top", "bottom"] + ids)
        kwargs = {"negative": neg} if neg else {}
        if pos and rng.random() < 0.3:
            kwargs["positive"] = list(pos)
        out.append({"function": "subtotal", "name": "S%d" % k, "anchor": anchor, "args": pos, "kwargs": kwargs})
    return out


def random_extras(rng):
    e = {}
    fs = rng.choice(FS_OPTS)
    if fs is not ABSENT:
        e["filter_stats"] = fs
    for k in ("filtered", "unfiltered"):
        v = rng.choice(SIDE_OPTS)
        if v is not ABSENT:
            e[k] = v
    return decorate(rng, _mk(e))


def gen_table(rng, strand=False):
    if strand:
        kinds = [rng.choice(["cat", "cat", "cat", "cat_date", "cat_date", "cat_date", "mr", "text", "datetime"])]
    else:
        kinds = [rng.choice(KINDS2), rng.choice(KINDS2)]
        if rng.random() < 0.15:
            kinds = ["cat"] + kinds
    vars_ = [gen.gen_var(rng, k, "v%d" % i, n=rng.choice([1, 2, 3, 3, 4, 5])) for i, k in enumerate(kinds)]
    weighted = rng.random() < 0.65
    survey = gen.gen_survey(rng, vars_, weighted=weighted, n_resp=rng.randint(0, 50))
    subs = []
    for v in vars_[-2:] if not strand else vars_:
        subs.append(_subtotals(rng, v) if v.kind in ("cat", "cat_date") and rng.random() < 0.7 else [])
    return {"t": "strand" if strand else "slice", "vars": [v.to_json() for v in vars_],
            "survey": gen.survey_to_json(survey), "weighted": weighted,
            "subtotals": subs, "population": rng.choice(POPULATIONS), "k": rng.choice([2, 3, 0.5, 10]),
            "extras": random_extras(rng), "form": rng.choice(FORMS)}


def gen_augment(rng):
    """a tabbook over a TEXT rows variable: summary cube + 1-2 single-column filter cubes that list only (some
    of) the labels they have cases for, so that the CubeSet augments them to the summary's shape."""
    n = rng.randint(2, 6)
    nresp = rng.randint(4, 40)
    answers = [rng.choice(list(range(n)) + [n]) if rng.random() < 0.9 else n for _ in range(nresp)]   # n = missing
    filters = []
    for _ in range(rng.choice([1, 1, 2])):
        support = rng.sample(range(n), rng.randint(0, n - 1))       # labels the filter can reach (never all)
        members = [i for i, a in enumerate(answers) if (a in support or a == n) and rng.random() < 0.8]
        keep_zero = [l for l in support if rng.random() < 0.3]       # zero-count labels still listed
        filters.append({"members": members, "keep_zero": keep_zero})
    return {"t": "augment", "n": n, "answers": answers, "filters": filters,
            "population": rng.choice([p for p in POPULATIONS if p]), "k": rng.choice([2, 3, 0.5, 10]),
            "extras": [random_extras(rng) for _ in range(1 + len(filters))]}


def _augment_cubes(case):
    """per cube: (labels listed by the response, respondents' answers in SUMMARY positions)"""
    n = case["n"]
    cubes = [(list(range(n)), list(case["answers"]))]
    for f in case["filters"]:
        ans = [case["answers"][i] for i in f["members"]]
        listed = [l for l in range(n) if l in ans or l in f["keep_zero"]]
        if len(listed) == n:
            listed = listed[:-1] if listed[-1] not in ans else [l for l in listed if l in ans]
        cubes.append((listed, ans))
    return cubes


def _augment_response(n, listed, ans, extras, single_col):
    """the response as the back end sends it: only `listed` labels (ids = positions) + the missing element"""
    cats = [{"id": k, "missing": False, "name": "L%d" % l, "numeric_value": None} for k, l in enumerate(listed)]
    cats.append({"id": -1, "missing": True, "name": "No Data", "numeric_value": None})
    v = gen.Var("text", "txt", cats=cats)
    local = {l: k for k, l in enumerate(listed)}
    survey = [(Fraction(1), [[local.get(a, len(listed))]]) for a in ans if a == n or a in local]
    resp = gen.cube_response([v], survey, False)
    for k, val in extras.items():
        resp["result"][k] = copy.deepcopy(val)
    if single_col:
        resp["result"]["is_single_col_cube"] = True
    return resp


FS_OPTS = fs_options()
SIDE_OPTS = side_options()


def generate(ctx):
    rng = ctx.rng
    cases = []
    # ---- the full well-formed grid, one case per filter_stats option (36 side combinations each)
    for fs in FS_OPTS:
        results = []
        for f, u in itertools.product(SIDE_OPTS, SIDE_OPTS):
            e = {"filter_stats": fs, "filtered": f, "unfiltered": u}
            results.append(decorate(rng, _mk(e)))
        cases.append({"t": "frac", "stream": "grid", "results": results})
    ctx.count("exhaustive_done")
    # ---- malformed stream
    cases.append({"t": "frac", "stream": "malformed", "results": [copy.deepcopy(e) for _, e in MALFORMED],
                  "tags": [t for t, _ in MALFORMED]})
    for _ in range(ctx.n(420, 12000)):
        cases.append(gen_table(rng, strand=False))
    for _ in range(ctx.n(160, 4000)):
        cases.append(gen_table(rng, strand=True))
    for _ in range(ctx.n(40, 600)):
        cases.append(gen_augment(rng))
    return cases


# ---------------------------------------------------------------------------------------
# designs -> lines


def _load(case):
    vars_ = [gen.Var.from_json(d) for d in case["vars"]]
    survey = gen.survey_from_json(case["survey"])
    return vars_, survey


def _nparts(vars_):
    return len(vars_[0].valid_cat_pos) if len(vars_) == 3 else 1


def base_lines(v):
    """lines of the valid elements of a dimension, in payload order"""
    if v.kind == "mr":
        return [{"mr": k} for k in range(len(v.items))]
    valid = v.valid_cat_pos
    return [{"cat": {"members": [p], "valid": valid}} for p in valid]


def subtotal_lines(v, subs):
    id2pos = {c["id"]: p for p, c in enumerate(v.cats) if not c["missing"]}
    valid = v.valid_cat_pos
    out = []
    for st in subs:
        positive = st.get("kwargs", {}).get("positive") or st.get("args", [])
        add = [id2pos[i] for i in positive if i in id2pos]
        neg = [i for i in st.get("kwargs", {}).get("negative", []) if i in id2pos]
        # a subtotal DIFFERENCE: it subtracts at least one valid category
        out.append(({"cat": {"members": add, "valid": valid}}, bool(neg)))
    return out


def display_lines(v, subs, order):
    base = base_lines(v)
    st = subtotal_lines(v, subs)
    n = len(base) + len(st)
    lines, diffs = [], []
    for pos, idx in enumerate(order):
        j = idx if idx >= 0 else n + idx
        if j < len(base):
            lines.append(base[j])
        else:
            ln, d = st[j - len(base)]
            lines.append(ln)
            if d:
                diffs.append(pos)
    return lines, diffs


def predicted_order(v, subs):
    """display order (signed indexes) for anchors top / bottom / element id, payload order otherwise.
    Only used to build the Lean ops; `evaluate` cross-checks it against the library's own order and falls
    back to HarnessFault if they disagree (ordering is C05-C08's business, not ours)."""
    if v.kind == "mr":
        return list(range(len(v.items)))
    ns = len(subs)
    ids = [c["id"] for c in v.cats if not c["missing"]]
    top = [k for k, s in enumerate(subs) if s["anchor"] == "top"]
    bottom = [k for k, s in enumerate(subs) if s["anchor"] == "bottom"]
    order = [k - ns for k in top]
    for e, cid in enumerate(ids):
        order.append(e)
        order.extend(k - ns for k, s in enumerate(subs) if s["anchor"] == cid and not isinstance(s["anchor"], str))
    order.extend(k - ns for k in bottom)
    return order


def _restrict(vars_, survey, k):
    """partition k of a 3-D cube: respondents in table category k, table variable dropped"""
    if len(vars_) == 3:
        tpos = vars_[0].valid_cat_pos[k]
        return vars_[1:], [(w, a[1:]) for w, a in survey if a[0][0] == tpos]
    return vars_, survey


def _lean_survey(survey, weighted):
    return [{"w": gen.frac_str(w if weighted else 1), "ans": a} for w, a in survey]


def _frac_wire(fr):
    return fr if isinstance(fr, str) else gen.frac_str(fr)


def lean_ops(case):
    if case["t"] == "frac":
        return [{"op": "pop_fraction", "results": case["results"]}]
    if case["t"] == "augment":
        ops = [{"op": "pop_fraction", "results": case["extras"]}]
        n = case["n"]
        lines = [{"cat": {"members": [p], "valid": list(range(n))}} for p in range(n)]
        for (listed, ans), extras in zip(_augment_cubes(case), case["extras"]):
            ops.append({"op": "pop_strand", "survey": [{"w": "1", "ans": [[a]]} for a in ans], "row_lines": lines,
                        "rows_cat_date": False, "diff_rows": [],
                        "population": gen.frac_str(Fraction(case["population"])),
                        "fraction": _frac_wire(py_fraction(extras))})
        return ops
    vars_, survey = _load(case)
    ops = [{"op": "pop_fraction", "results": [case["extras"]]}]
    fr = _frac_wire(py_fraction(case["extras"]))
    pop = gen.frac_str(Fraction(case["population"]))
    if case["t"] == "strand":
        v = vars_[0]
        order = predicted_order(v, case["subtotals"][0])
        lines, diffs = display_lines(v, case["subtotals"][0], order)
        ops.append({"op": "pop_strand", "survey": _lean_survey(survey, case["weighted"]), "row_lines": lines,
                    "rows_cat_date": v.kind == "cat_date", "diff_rows": diffs, "population": pop, "fraction": fr})
        return ops
    for k in range(_nparts(vars_)):
        vs, sv = _restrict(vars_, survey, k)
        rv, cv = vs
        ro = predicted_order(rv, case["subtotals"][0])
        co = predicted_order(cv, case["subtotals"][1])
        rl, rd = display_lines(rv, case["subtotals"][0], ro)
        cl, cd = display_lines(cv, case["subtotals"][1], co)
        ops.append({"op": "pop_slice", "survey": _lean_survey(sv, case["weighted"]), "rv": 0, "cv": 1,
                    "row_lines": rl, "col_lines": cl, "rows_cat_date": rv.kind == "cat_date",
                    "cols_cat_date": cv.kind == "cat_date", "diff_rows": rd, "diff_cols": cd,
                    "population": pop, "fraction": fr})
    return ops


# ---------------------------------------------------------------------------------------
# evaluation


SMALL = None


def _small_response(extras):
    """a real 1-D cube response carrying the given filter statistics"""
    global SMALL
    if SMALL is None:
        import random
        rng = random.Random(7)
        v = gen.gen_var(rng, "cat", "q", n=3, allow_missing=False)
        sv = gen.gen_survey(rng, [v], n_resp=12)
        SMALL = (v, sv)
    v, sv = SMALL
    fs = extras.get("filter_stats", ABSENT)
    resp = gen.cube_response([v], sv, True)
    for k, val in extras.items():
        resp["result"][k] = copy.deepcopy(val)
    return resp


def _model_val(m):
    if isinstance(m, dict) and "raises" in m:
        return m
    return common.model_to_float(m)


def _same(a, b):
    if isinstance(a, dict) or isinstance(b, dict):
        return a == b
    return common.num_close(a, b)


def eval_frac(case, louts, ctx):
    from cr.cube.cube import Cube, CubeSet
    out = louts[0]
    findings = []
    key = None
    malformed = case["stream"] == "malformed"
    impls = []
    for idx, (extras, per) in enumerate(zip(case["results"], out["per"])):
        resp = _small_response(extras)
        impl = common.call_impl(lambda: Cube(resp, population=100).population_fraction)
        impl_part = common.call_impl(lambda: Cube(resp, population=100).partitions[0].population_fraction)
        # the same response handed over as JSON text / in a {"value": …} envelope must give the same fraction
        for form in FORMS[1:]:
            impl_form = common.call_impl(lambda: Cube(as_form(resp, form), population=100).population_fraction)
            if not _same(impl, impl_form):
                findings.append({"kind": "spec", "locus": "population_fraction.form-" + form,
                                 "detail": "dict form %r vs %s form %r on %r" % (impl, form, impl_form, extras)})
        impls.append(impl)
        model = _model_val(per["model"])
        wf = well_formed(extras)
        if wf != per["well_formed"]:
            raise common.HarnessFault("well-formedness disagrees (python %r, lean %r) on %r" % (wf, per["well_formed"], extras))
        if not _same(impl, impl_part):
            findings.append({"kind": "spec", "locus": "population_fraction.partition-differs",
                             "detail": "cube %r vs partition %r on %r" % (impl, impl_part, extras)})
        if wf:
            want = common.model_to_float(_frac_wire(py_fraction(extras)))
            spec = common.model_to_float(per["spec"])
            if not _same(want, spec):
                raise common.HarnessFault("python fraction %r != Lean spec %r on %r" % (want, spec, extras))
            cls = shape_class(extras)
            ctx.count("frac:" + cls.split("|")[0])
            if not _same(impl, spec):
                findings.append({"kind": "spec", "locus": "population_fraction." + cls.split("|")[0],
                                 "detail": "impl %r != spec %r on %r" % (impl, spec, extras)})
            if not _same(impl, model):
                findings.append({"kind": "model", "locus": "seam.population_fraction",
                                 "detail": "impl %r != model %r on %r" % (impl, model, extras)})
            if not (isinstance(impl, dict)) and not (impl == 1):
                key = ("frac", cls)
        else:
            tag = case.get("tags", ["malformed"] * len(case["results"]))[idx]
            repaired = py_fraction_repaired(extras)
            raised = isinstance(impl, dict)
            ctx.count("finding-candidate:population_fraction.%s:%s" % (tag, impl["raises"] if raised else "value"))
            if not _same(impl, model) and not _same(impl, repaired):
                findings.append({"kind": "model", "locus": "seam.population_fraction.malformed." + tag,
                                 "detail": "impl %r is neither the model's %r nor the repaired reading %r on %r" % (impl, model, repaired, extras)})
    # CubeSet: first cube's fraction (both orders, so that first != last in one of them)
    n = len(case["results"])
    picks = [0, n // 2, n - 1] if n >= 3 else list(range(n))
    for order in (picks, picks[::-1]):
        form = "text" if order is picks else "dict"
        resps = [as_form(_small_response(case["results"][i]), form) for i in order]
        cs = common.call_impl(lambda: CubeSet(resps, transforms=[{} for _ in resps], population=100, min_base=0).population_fraction)
        if not _same(cs, impls[order[0]]):
            findings.append({"kind": "spec", "locus": "cubeset.population_fraction",
                             "detail": "cubeset %r vs first cube %r (cubes: %r)" % (cs, impls[order[0]], [case["results"][i] for i in order])})
    cm = _model_val(out["cubeset"])
    if well_formed(case["results"][0]) and not _same(impls[0], cm):
        findings.append({"kind": "model", "locus": "seam.cubeset.population_fraction",
                         "detail": "first cube %r vs model %r" % (impls[0], cm)})
    if malformed:
        key = ("frac", "malformed")
    return findings, key


def _transforms(case, strand):
    tr = {}
    names = ["rows_dimension"] if strand else ["rows_dimension", "columns_dimension"]
    for nm, subs in zip(names, case["subtotals"]):
        if subs:
            tr[nm] = {"insertions": subs}
    return tr


def _cmp(findings, kind, locus, impl, want, note):
    ok, where = common.deep_close(impl, want)
    if not ok:
        findings.append({"kind": kind, "locus": locus,
                         "detail": "%s: impl%s (impl=%r want=%r)" % (note, where, impl, want)})
    return ok


def _mask(m, diff_rows, diff_cols):
    """drop cells of difference rows/columns (set to None on both sides)"""
    out = []
    for i, r in enumerate(m):
        out.append([None if (i in diff_rows or j in diff_cols) else x for j, x in enumerate(r)])
    return out


def _distinct_pos(m):
    s = set()
    for r in (m if m and isinstance(m[0], list) else [m]):
        for x in r:
            if isinstance(x, float) and math.isfinite(x) and x > 0:
                s.add(round(x, 9))
    return len(s)


def eval_table(case, louts, ctx):
    import numpy as np
    from cr.cube.cube import Cube
    vars_, survey = _load(case)
    strand = case["t"] == "strand"
    findings = []
    extras = case["extras"]
    pop = case["population"]
    resp = gen.cube_response(vars_, survey, case["weighted"])
    for k, val in extras.items():
        resp["result"][k] = copy.deepcopy(val)
    tr = _transforms(case, strand)
    form = case.get("form", "dict")
    ctx.count("form:" + form)
    cube = Cube(as_form(resp, form), transforms=tr, population=pop)
    frac_exact = py_fraction(extras)
    frac = common.model_to_float(_frac_wire(frac_exact))
    spec_frac = common.model_to_float(louts[0]["per"][0]["spec"])
    if not _same(frac, spec_frac):
        raise common.HarnessFault("python fraction %r != Lean spec %r on %r" % (frac, spec_frac, extras))
    cls = shape_class(extras).split("|")[0]
    key = None
    nparts = 1 if strand else _nparts(vars_)
    parts = cube.partitions
    if len(parts) != nparts:
        raise common.HarnessFault("partition count %d != %d" % (len(parts), nparts))
    cube2 = Cube(as_form(copy.deepcopy(resp), form), transforms=copy.deepcopy(tr), population=pop * case["k"])
    for k in range(nparts):
        part = parts[k]
        out = louts[1 + k]
        impl_frac = common.call_impl(lambda: part.population_fraction)
        if not _same(impl_frac, frac):
            findings.append({"kind": "spec", "locus": "population_fraction." + cls,
                             "detail": "partition fraction %r != spec %r on %r" % (impl_frac, frac, extras)})
        if strand:
            v = vars_[0]
            mode = "catdate" if v.kind == "cat_date" else "table"
            order = common.call_impl(lambda: part.row_order())
            if order != predicted_order(v, case["subtotals"][0]):
                findings.append({"kind": "model", "locus": "seam.display-order",
                                 "detail": "row order %r != predicted %r" % (order, predicted_order(v, case["subtotals"][0]))})
                continue
            _, diffs = display_lines(v, case["subtotals"][0], order)
            ctx.count("strand:" + mode + (":diff" if diffs else ""))
            impl_c = common.call_impl(lambda: part.population_counts)
            impl_m = common.call_impl(lambda: part.population_counts_moe)
            tag = "strand.%s" % mode
            spec_c = common.model_to_float(out["spec"]["counts"])
            _cmp(findings, "spec", tag + ".population_counts" + (".diff" if diffs else ""), impl_c, spec_c,
                 "pop=%r frac=%r" % (pop, frac))
            _cmp(findings, "model", "seam." + tag + ".population_counts", impl_c, common.model_to_float(out["model"]["counts"]), "")
            spec_m = common.model_to_float(out["spec"]["moe"])
            if isinstance(impl_m, list):
                im = [None if i in diffs else x for i, x in enumerate(impl_m)]
            else:
                im = impl_m
            _cmp(findings, "spec", tag + ".population_counts_moe", im, spec_m, "pop=%r frac=%r" % (pop, frac))
            _cmp(findings, "model", "seam." + tag + ".population_counts_moe", im, common.model_to_float(out["model"]["moe"]), "")
            # matching std-err, all rows
            own_se = common.call_impl(lambda: part.table_proportion_stderrs)
            if isinstance(own_se, list) and isinstance(impl_m, list):
                want = [Z * pop * frac * (0.0 if mode == "catdate" else s) for s in own_se]
                _cmp(findings, "spec", tag + ".population_counts_moe.matching-stderr", impl_m, want, "pop=%r frac=%r" % (pop, frac))
            # linearity
            impl_c2 = common.call_impl(lambda: cube2.partitions[k].population_counts)
            if isinstance(impl_c, list):
                _cmp(findings, "spec", tag + ".population_counts.linearity", impl_c2, [case["k"] * x for x in impl_c], "k=%r" % case["k"])
            if isinstance(impl_c, list) and _distinct_pos(impl_c) >= 2:
                key = ("strand", mode, v.kind, cls, pop, bool(diffs))
            continue
        vs, _ = _restrict(vars_, survey, k)
        rv, cv = vs
        rcd, ccd = rv.kind == "cat_date", cv.kind == "cat_date"
        mode = "both-catdate" if (rcd and ccd) else ("catdate-rows" if rcd else ("catdate-cols" if ccd else "table"))
        ro = common.call_impl(lambda: part.row_order())
        co = common.call_impl(lambda: part.column_order())
        if ro != predicted_order(rv, case["subtotals"][0]) or co != predicted_order(cv, case["subtotals"][1]):
            findings.append({"kind": "model", "locus": "seam.display-order",
                             "detail": "display order %r/%r != predicted" % (ro, co)})
            continue
        _, rd = display_lines(rv, case["subtotals"][0], ro)
        _, cd = display_lines(cv, case["subtotals"][1], co)
        ctx.count("slice:" + mode + (":diff" if (rd or cd) else ""))
        tag = "slice.%s" % mode
        impl_c = common.call_impl(lambda: part.population_counts)
        impl_m = common.call_impl(lambda: part.population_counts_moe)
        spec_c = common.model_to_float(out["spec"]["counts"])
        _cmp(findings, "spec", tag + ".population_counts" + (".diff" if (rd or cd) else ""), impl_c, spec_c,
             "part=%d pop=%r frac=%r" % (k, pop, frac))
        _cmp(findings, "model", "seam." + tag + ".population_counts", impl_c, common.model_to_float(out["model"]["counts"]), "part=%d" % k)
        impl_p = common.call_impl(lambda: part.population_proportions)
        _cmp(findings, "model", "seam." + tag + ".population_proportions", impl_p, common.model_to_float(out["model"]["props"]), "part=%d" % k)
        spec_m = common.model_to_float(out["spec"]["moe"])
        im = _mask(impl_m, rd, cd) if isinstance(impl_m, list) else impl_m
        _cmp(findings, "spec", tag + ".population_counts_moe", im, spec_m, "part=%d pop=%r frac=%r" % (k, pop, frac))
        _cmp(findings, "model", "seam." + tag + ".population_counts_moe", im, common.model_to_float(out["model"]["moe"]), "part=%d" % k)
        own = {"catdate-rows": "row_std_err", "both-catdate": "row_std_err", "catdate-cols": "column_std_err",
               "table": "table_std_err"}[mode]
        own_se = common.call_impl(lambda: getattr(part, own))
        if isinstance(own_se, list) and isinstance(impl_m, list):
            with np.errstate(all="ignore"):
                want = (Z * (pop * frac) * np.array(own_se, dtype=np.float64)).tolist()
            _cmp(findings, "spec", tag + ".population_counts_moe.matching-stderr", impl_m, want, "part=%d vs own %s" % (k, own))
        impl_c2 = common.call_impl(lambda: cube2.partitions[k].population_counts)
        if isinstance(impl_c, list):
            _cmp(findings, "spec", tag + ".population_counts.linearity", impl_c2,
                 [[case["k"] * x for x in r] for r in impl_c], "k=%r" % case["k"])
        if isinstance(impl_c, list) and _distinct_pos(impl_c) >= 2:
            key = ("slice", mode, rv.kind, cv.kind, cls, pop, bool(rd or cd))
    return findings, key


def eval_augment(case, louts, ctx):
    from cr.cube.cube import Cube, CubeSet
    n, pop = case["n"], case["population"]
    cubes = _augment_cubes(case)
    findings = []
    key = None

    def responses():
        return [_augment_response(n, listed, ans, extras, idx > 0)
                for idx, ((listed, ans), extras) in enumerate(zip(cubes, case["extras"]))]
    cs = CubeSet(responses(), transforms=[{} for _ in cubes], population=pop, min_base=0)
    psets = common.call_impl(lambda: len(cs.partition_sets))
    if psets != 1:
        raise common.HarnessFault("expected one partition set, got %r" % (psets,))
    parts = cs.partition_sets[0]
    cs2 = CubeSet(responses(), transforms=[{} for _ in cubes], population=pop * case["k"], min_base=0)
    for idx, ((listed, ans), extras) in enumerate(zip(cubes, case["extras"])):
        out = louts[1 + idx]
        augmented = idx > 0 and len(listed) != n
        tag = "cubeset.%s" % ("augmented" if augmented else ("filter-col" if idx else "summary"))
        ctx.count(tag)
        frac = common.model_to_float(_frac_wire(py_fraction(extras)))
        part = parts[idx]
        impl_f = common.call_impl(lambda: part.population_fraction)
        if not _same(impl_f, frac):
            findings.append({"kind": "spec", "locus": tag + ".population_fraction",
                             "detail": "cube %d: %r != %r on %r" % (idx, impl_f, frac, extras)})
        impl_c = common.call_impl(lambda: part.population_counts)
        impl_m = common.call_impl(lambda: part.population_counts_moe)
        note = "cube %d listed=%r pop=%r frac=%r" % (idx, listed, pop, frac)
        _cmp(findings, "spec", tag + ".population_counts", impl_c, common.model_to_float(out["spec"]["counts"]), note)
        _cmp(findings, "spec", tag + ".population_counts_moe", impl_m, common.model_to_float(out["spec"]["moe"]), note)
        _cmp(findings, "model", "seam." + tag + ".population_counts", impl_c, common.model_to_float(out["model"]["counts"]), note)
        # the same numbers as a plain Cube over the zero-padded response
        padded = _augment_response(n, list(range(n)), ans, extras, False)
        plain = Cube(padded, population=pop).partitions[0]
        _cmp(findings, "spec", tag + ".population_counts.vs-plain-cube", impl_c, common.call_impl(lambda: plain.population_counts), note)
        _cmp(findings, "spec", tag + ".population_counts_moe.vs-plain-cube", impl_m, common.call_impl(lambda: plain.population_counts_moe), note)
        impl_c2 = common.call_impl(lambda: cs2.partition_sets[0][idx].population_counts)
        if isinstance(impl_c, list):
            _cmp(findings, "spec", tag + ".population_counts.linearity", impl_c2, [case["k"] * x for x in impl_c], "k=%r" % case["k"])
        if augmented and isinstance(impl_c, list) and _distinct_pos(impl_c) >= 1:
            key = ("augment", n, len(listed), shape_class(extras).split("|")[0], pop)
    return findings, key


def evaluate(case, louts, ctx):
    if case["t"] == "frac":
        return eval_frac(case, louts, ctx)
    if case["t"] == "augment":
        return eval_augment(case, louts, ctx)
    return eval_table(case, louts, ctx)


def describe(case):
    if case["t"] == "frac":
        return {"t": "frac", "stream": case["stream"], "n_results": len(case["results"]), "first": case["results"][:2]}
    if case["t"] == "augment":
        return {"t": "augment", "n_labels": case["n"], "n_respondents": len(case["answers"]),
                "listed": [l for l, _ in _augment_cubes(case)], "population": case["population"], "extras": case["extras"]}
    return {"t": case["t"], "kinds": [v["kind"] for v in case["vars"]], "n_respondents": len(case["survey"]),
            "weighted": case["weighted"], "subtotals": case["subtotals"], "population": case["population"],
            "extras": case["extras"], "form": case.get("form", "dict")}


def shrink_candidates(case):
    if case["t"] == "frac":
        for i in range(len(case["results"])):
            c = dict(case, results=[case["results"][i]])
            if "tags" in case:
                c["tags"] = [case["tags"][i]]
            yield c
        return
    if case["t"] == "augment":
        if len(case["filters"]) > 1:
            for i in range(len(case["filters"])):
                yield dict(case, filters=[case["filters"][i]], extras=[case["extras"][0], case["extras"][1 + i]])
        if any(case["extras"]):
            yield dict(case, extras=[{} for _ in case["extras"]])
        return
    sv = case["survey"]
    n = len(sv)
    if n > 1:
        yield dict(case, survey=sv[: n // 2])
        yield dict(case, survey=sv[n // 2:])
    for i in range(min(n, 20)):
        yield dict(case, survey=sv[:i] + sv[i + 1:])
    for d, subs in enumerate(case["subtotals"]):
        for i in range(len(subs)):
            ns = copy.deepcopy(case["subtotals"])
            del ns[d][i]
            yield dict(case, subtotals=ns)
    if case["extras"]:
        yield dict(case, extras={})
    if any(w != "1" for w, _ in sv):
        yield dict(case, survey=[["1", a] for _, a in sv])
