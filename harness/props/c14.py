"""C14 -- scale mean / median / std-dev / std-err from category numeric values.

Observed through the public API of the real library:
  _Slice.rows_/columns_scale_mean, _scale_median, _scale_mean_stddev, _scale_mean_stderr,
         rows_/columns_scale_mean_margin, _scale_median_margin
  _Strand.scale_mean, scale_median, scale_std_dev, scale_std_err
against
  (spec)  the respondent-level statistics, computed twice: by the Lean `ScaleSpec` driver op and by
          a direct Python oracle on the generated survey (expanded multiset median etc.)
  (model) the Lean model `Scale.sliceVectors / strandStats / marginMean / marginMedian`
          fed with the survey's tabulated counts and bases.
"""
from fractions import Fraction as F
import copy
import math
import gen
import common
from props import pw_util as U

PROPERTY = "C14"
LEAN_MODULE = "CrCube.Props.C14"
THEOREMS = [
    "CrCube.C14.scale_mean_spec",
    "CrCube.C14.scale_std_spec",
    "CrCube.C14.scale_stderr_def",
    "CrCube.C14.scale_median_spec",
    "CrCube.C14.old_median_counterexample",
    "CrCube.C14.median_order_irrelevant",
    "CrCube.C14.none_iff_no_values",
    "CrCube.C14.nan_iff_no_valued_respondents",
    "CrCube.C14.median_nan_iff",
    "CrCube.C14.strand_mean_spec",
    "CrCube.C14.strand_std_spec",
    "CrCube.C14.strand_stderr_def",
    "CrCube.C14.strand_median_spec",
    "CrCube.C14.strand_none_iff",
    "CrCube.C14.subtotal_counts",
    "CrCube.C14.margin_mean_spec",
    "CrCube.C14.margin_median_spec",
]
RULE = ("designs cat x cat, mr x cat, cat x mr, mr x mr, CA (subvar x cat) slices and cat / mr strands; numeric "
        "values partial / repeated / negative / unsorted / absent, also non-binary decimals (2.2, 0.1) and 1e8 + k magnitudes; surveys unweighted, integer- or dyadic-weighted, "
        "categorical-date dimensions; tiny (x 2^-40) and 1 + 2^-20 weights; "
        "plus small count tables and strands with many zero cells (exact-50% splits next to zero-count categories) and 10^5-range counts "
        "whose median respondent is the last / first of its category; subtotal "
        "(and difference) vectors, explicit order / hide / prune on both dimensions; a case is non-trivial when "
        "at least one vector has >= 2 distinct numeric values among its respondents; distinct = (design, counts) key")
ASSUMPTIONS = [
    "counts / weighted bases handed to the model are the survey's tabulation (C01/C02; cross-checked here against "
    "the library's own counts and row/column weighted bases)",
    "display order of vectors is read from the library's row_labels / column_labels (ordering itself is C05-C08)",
    "median compared at respondent level only for integer counts (unit or integer weights), as the property says",
    "numpy argsort is stable for the short category lists used (repaired median is order-independent anyway)",
]
TRUSTED_EXTRA = ["Python evaluation of Scale.SOut terms (np.sqrt, np.sqrt(a)/np.sqrt(b))"]

INT_WEIGHTS = [F(0), F(1), F(1), F(1), F(2), F(3)]


# ---------------------------------------------------------------------------------------
# generation


def _survey_from_table(rng, vars_, axes, table):
    """unit-weight respondents realising a count table over (valid row elem, valid col elem);
    only for cat x cat designs"""
    r, c = axes
    sv = []
    for i in range(r.n):
        for j in range(c.n):
            for _ in range(table[i][j]):
                sv.append((F(1), [[r.pos[i]], [c.pos[j]]]))
    # a few respondents in missing categories (must not be counted)
    for v_idx, v in enumerate(vars_):
        miss = [p for p in range(len(v.cats)) if v.cats[p]["missing"]]
        if miss and rng.random() < 0.5:
            other = vars_[1 - v_idx]
            a = [None, None]
            a[v_idx] = [rng.choice(miss)]
            a[1 - v_idx] = [rng.randrange(len(other.cats))]
            sv.append((F(1), a))
    rng.shuffle(sv)
    return sv


def _half_vector(rng, values):
    """counts over opposing categories with an exact 50% split whose upper neighbour(s) in value
    order have zero count (the F6 corner), zero-count categories possibly also elsewhere"""
    n = len(values)
    vj = sorted((j for j in range(n) if values[j] is not None), key=lambda j: values[j])
    row = [rng.choice([0, 0, 1, 3]) if values[j] is None else 0 for j in range(n)]
    if len(vj) < 3:
        return [rng.choice([0, 1, 2]) for _ in range(n)]
    s = rng.randint(0, len(vj) - 3)
    t = rng.randint(s + 2, len(vj) - 1)
    h = rng.randint(1, 4)
    row[vj[s]] += 1
    for _ in range(h - 1):
        row[vj[rng.randint(0, s)]] += 1
    row[vj[t]] += 1
    for _ in range(h - 1):
        row[vj[rng.randint(t, len(vj) - 1)]] += 1
    return row


DECIMALS = [2.2, 2.2, 0.1, -0.3, 1.5, 7.7, 0.7, 19.99]


def _exotic_values(rng, vars_):
    """replace the small-integer numeric values: decimals that are not binary fractions, or large
    magnitudes of small spread (1e8 + k) -- both expose cancellation in a variance formula"""
    mode = rng.choice(["decimal", "decimal", "big", "bigneg"])
    for v in vars_:
        for c in v.cats:
            if c.get("numeric_value") is None or v.kind == "mr":
                continue
            if mode == "decimal":
                c["numeric_value"] = rng.choice(DECIMALS)
            elif mode == "big":
                c["numeric_value"] = 100000000 + rng.randint(1, 6)
            else:
                c["numeric_value"] = -100000000 - rng.randint(1, 6)


def _bighalf_vector(rng, values):
    """counts in the 10^5 range: the median respondent is the LAST (or first) of its category, an exact
    half, or an exact half followed by a zero-count category"""
    n = len(values)
    vj = sorted((j for j in range(n) if values[j] is not None), key=lambda j: values[j])
    row = [0] * n
    if len(vj) < 2:
        return [rng.choice([0, 1, 100000]) for _ in range(n)]
    big = rng.choice([100000, 100000, 150000, 250000])
    s_ = rng.randint(0, len(vj) - 2)
    t = rng.randint(s_ + 1, len(vj) - 1)
    kind = rng.choice(["last", "last", "first", "half"])
    row[vj[s_]] = big + (1 if kind == "last" else 0)
    row[vj[t]] = big + (1 if kind == "first" else 0)
    return row


def _catk(rng):
    """categorical, now and then a categorical-DATE variable (categories carrying a "date"): same scale statistics"""
    return "cat_date" if rng.random() < 0.25 else "cat"


def gen_case(rng):
    typ = rng.choice(["slice"] * 6 + ["table"] * 3 + ["half"] * 3 + ["bighalf"] * 2 + ["strand"] * 3 + ["strand_table"] * 2
                     + ["strand_half"] * 2)
    numeric = rng.choice(["some"] * 6 + ["all"] * 2 + ["none"])
    wmode = rng.choice(["unit"] * 8 + ["int"] * 4 + ["dyadic"] * 6 + ["tiny"] * 2 + ["near1"])
    if typ in ("strand", "strand_table", "strand_half"):
        kind = rng.choice([_catk(rng)] * 6 + ["mr"])
        if typ == "strand_half":
            kind, numeric = _catk(rng), rng.choice(["all", "all", "some"])
        v = gen.gen_var(rng, kind, "v0", n=rng.randint(3, 6) if typ == "strand_half" else rng.randint(1, 6), numeric=numeric)
        vars_ = [v]
        if rng.random() < 0.3 and wmode not in ("tiny", "near1"):
            _exotic_values(rng, vars_)
        if typ == "strand_half":
            # exact 50 % split whose upper neighbour(s) in value order have no respondents (the strand twin of F6)
            ax0 = U.axes_of(vars_)[0]
            row = _half_vector(rng, ax0.values)
            sv = [(F(1), [[ax0.pos[e]]]) for e in range(ax0.n) for _ in range(row[e])]
            miss = [p_ for p_ in range(len(v.cats)) if v.cats[p_]["missing"]]
            if miss and rng.random() < 0.5:
                sv.append((F(1), [[rng.choice(miss)]]))
            rng.shuffle(sv)
            wmode = rng.choice(["unit", "unit", "unit", "int"])
        elif typ == "strand_table" and kind != "mr":
            sv = []
            for p in range(len(v.cats)):
                for _ in range(rng.choice([0, 0, 0, 1, 1, 2, 2, 3, 4])):
                    sv.append((F(1), [[p]]))
            wmode = rng.choice(["unit", "unit", "int", "dyadic", "dyadic"])
        else:
            sv = gen.gen_survey(rng, vars_, weighted=False, n_resp=rng.choice([0, 1, 2, 5, 10, 20, 30]))
        transforms = {}
        if rng.random() < 0.3:
            ax = U.axes_of(vars_)[0]
            transforms = {"rows_dimension": U.gen_dim_transforms(rng, ax)}
    else:
        design = rng.choice([("cat", "cat")] * 8 + [("mr", "cat")] * 3 + [("cat", "mr")] * 3 + [("ca",)] * 3
                            + [("mr", "mr")])
        if typ in ("table", "half", "bighalf"):
            design = ("cat", "cat")
        if typ in ("half", "bighalf"):
            numeric = rng.choice(["all", "all", "some"])
            ns = [rng.randint(1, 3), rng.randint(3, 6)]
            o = rng.randrange(2)
            if o:
                ns.reverse()
            vars_ = [gen.gen_var(rng, _catk(rng), "v%d" % i, n=ns[i], numeric=numeric) for i in range(2)]
        elif design == ("ca",):
            vars_ = [gen.gen_var(rng, "ca", "v0", n=rng.randint(1, 3), ncat=rng.randint(1, 5), numeric=numeric)]
        else:
            vars_ = [gen.gen_var(rng, _catk(rng) if k == "cat" else k, "v%d" % i, n=rng.randint(1, 5), numeric=numeric)
                     for i, k in enumerate(design)]
        if rng.random() < 0.3 and wmode not in ("tiny", "near1"):
            _exotic_values(rng, vars_)
        axes = U.axes_of(vars_)
        if typ == "bighalf":
            # one respondent per cell whose integer weight is the (large) count
            if o == 0:
                table = [_bighalf_vector(rng, axes[1].values) for _ in range(axes[0].n)]
            else:
                table = U.transpose([_bighalf_vector(rng, axes[0].values) for _ in range(axes[1].n)], axes[0].n)
            sv = [(F(table[i][j]), [[axes[0].pos[i]], [axes[1].pos[j]]])
                  for i in range(axes[0].n) for j in range(axes[1].n) if table[i][j]]
            wmode = "bigint"
        elif typ == "table":
            table = [[rng.choice([0, 0, 0, 1, 1, 2, 2, 3, 4]) for _ in range(axes[1].n)] for _ in range(axes[0].n)]
            sv = _survey_from_table(rng, vars_, axes, table)
            wmode = rng.choice(["unit", "unit", "int"])
        elif typ == "half":
            if o == 0:
                table = [_half_vector(rng, axes[1].values) for _ in range(axes[0].n)]
            else:
                table = U.transpose([_half_vector(rng, axes[0].values) for _ in range(axes[1].n)], axes[0].n)
            sv = _survey_from_table(rng, vars_, axes, table)
            wmode = rng.choice(["unit", "unit", "unit", "dyadic"])
        else:
            sv = gen.gen_survey(rng, vars_, weighted=False, n_resp=rng.choice([0, 1, 3, 8, 15, 25, 40]))
        transforms = {}
        if rng.random() < 0.75:
            transforms = {"rows_dimension": U.gen_dim_transforms(rng, axes[0]),
                          "columns_dimension": U.gen_dim_transforms(rng, axes[1])}
    if wmode == "int":
        sv = [(rng.choice(INT_WEIGHTS), a) for _, a in sv]
    elif wmode == "dyadic":
        sv = [(rng.choice(gen.WEIGHTS), a) for _, a in sv]
    elif wmode == "tiny":
        # the whole survey on a tiny (dyadic, exact) scale: every scale statistic but the std-err is scale-free
        sv = [(rng.choice(gen.WEIGHTS) * gen.TINY, a) for _, a in sv]
    elif wmode == "near1":
        sv = [(gen.NEAR1, a) for _, a in sv]
    return {"type": "strand" if typ.startswith("strand") else "slice",
            "vars": [v.to_json() for v in vars_], "survey": gen.survey_to_json(sv),
            "wmode": wmode, "transforms": transforms}


def generate(ctx):
    return [gen_case(ctx.rng) for _ in range(ctx.n(300, 8000))]


# ---------------------------------------------------------------------------------------
# respondent level


def _load(case):
    vars_ = [gen.Var.from_json(d) for d in case["vars"]]
    survey = gen.survey_from_json(case["survey"])
    return vars_, survey


def _int_weights(survey):
    return all(w.denominator == 1 and w >= 0 for w, _ in survey)


def _vector_resps(axes, survey, orient, members):
    """respondents of the vector made of base elements `members` (list of idx on the vector
    axis): list of (w, opposing category idx)"""
    r, c = axes
    out = []
    for w, ans in survey:
        for e in members:
            if orient == "rows":
                for j in range(c.n):
                    if U.membership(axes, ans, e, j)[0]:
                        out.append((w, j))
            else:
                for i in range(r.n):
                    if U.membership(axes, ans, i, e)[0]:
                        out.append((w, i))
    return out


def _strand_resps(ax, survey):
    out = []
    for w, ans in survey:
        for e in range(ax.n):
            if ax.role == "cat":
                if ans[0][0] == ax.pos[e]:
                    out.append((w, e))
            else:
                if ans[0][e] == 0:
                    out.append((w, e))
    return out


def _replicate(resps):
    out = []
    for w, k in resps:
        out.extend([(F(1), k)] * int(w))
    return out


def _fq(v):
    """a numeric value as the exact decimal the payload spells (2.2 -> 11/5), not the binary float"""
    return F(str(v)) if isinstance(v, float) else F(v)


BIG = 400      # beyond this many (integer-weight) respondents a vector is not expanded one by one (the Lean spec's variance is
               # quadratic in the number of listed respondents); larger vectors are judged by `scale_median_int` + the python oracle


def _too_big(resps):
    return sum((w for w, _ in resps), F(0)) > BIG


def oracle(values, resps, int_counts):
    """respondent-level statistics in Python (floats): mean, stddev, median, n valued weight"""
    ps = [(w, _fq(values[k])) for w, k in resps if values[k] is not None]
    sw = sum((w for w, _ in ps), F(0))
    if sw == 0:
        return {"mean": float("nan"), "stddev": float("nan"), "median": float("nan"), "sw": 0.0}
    mean = sum((w * v for w, v in ps), F(0)) / sw
    var = sum((w * (v - mean) ** 2 for w, v in ps), F(0)) / sw
    med = None
    if int_counts:
        # value of the respondent at (0-based) position k of the sorted expansion, without expanding
        byval = {}
        for w, v in ps:
            byval[v] = byval.get(v, 0) + int(w)
        order = sorted(byval)
        n = sum(byval.values())
        def at(k):
            acc = 0
            for v in order:
                acc += byval[v]
                if k < acc:
                    return v
        med = float(at(n // 2)) if n % 2 else float((at(n // 2 - 1) + at(n // 2)) / 2)
    return {"mean": float(mean), "stddev": math.sqrt(float(var)), "median": med, "sw": float(sw)}


def _next_listed_median(values, counts):
    """what a cumulative-count median gives when, at an exact half, it averages with the next LISTED value"""
    ps = sorted(((_fq(v), int(c)) for v, c in zip(values, counts) if v is not None), key=lambda p: p[0])
    total = sum(c for _, c in ps)
    acc = 0
    for k, (v, c) in enumerate(ps):
        acc += c
        if total and 2 * acc >= total:
            if 2 * acc == total and k + 1 < len(ps):
                return float((v + ps[k + 1][0]) / 2)
            return float(v)
    return None


def _spec_op(values, resps, int_counts):
    rs = _replicate(resps) if (int_counts and not _too_big(resps)) else resps
    return {"op": "scale_spec", "vals": [None if v is None else U.fs(_fq(v)) for v in values],
            "resps": [[U.fs(w), k] for w, k in rs]}


def _int_op(values, resps):
    """respondent-level median of integer-weighted records of ANY size (Lean `ScaleSpec.medianInt`, proved equal to the
    median over the enumerated individual respondents: C14.median_int_spec)"""
    return {"op": "scale_median_int", "vals": [None if v is None else U.fs(_fq(v)) for v in values],
            "resps": [[U.fs(w), k] for w, k in resps]}


def _wants_int(case, resps, intc):
    return intc and (_too_big(resps) or case.get("family") == "largecounts")


def unit_expanded_response(resp):
    """the cube response of the UNWEIGHTED data set holding every integer-weighted record `w` times: the counts are the
    weighted counts, there is no weight (what a count table of millions of plain respondents looks like)"""
    resp = copy.deepcopy(resp)
    res = resp["result"]
    data = res["measures"]["count"]["data"]
    if any(int(x) != x for x in data):
        raise common.HarnessFault("unit_expanded_response needs integer counts")
    data = [int(x) for x in data]
    res["measures"]["count"]["data"] = data
    res["measures"]["count"]["metadata"]["type"]["integer"] = True
    res["counts"] = list(data)
    res["n"] = sum(data)
    return resp


def _vals_json(values):
    return [None if v is None else U.fs(_fq(v)) for v in values]


def _plan(case):
    """everything derived from the case alone (shared by lean_ops and evaluate)"""
    vars_, survey = _load(case)
    axes = U.axes_of(vars_)
    intc = _int_weights(survey)
    plan = {"vars": vars_, "survey": survey, "axes": axes, "intc": intc, "ops": [], "idx": {}}

    def add(name, op):
        plan["idx"][name] = len(plan["ops"])
        plan["ops"].append(op)

    if case["type"] == "strand":
        ax = axes[0]
        counts = [sum((w for w, k in _strand_resps(ax, survey) if k == e), F(0)) for e in range(ax.n)]
        plan["counts"] = counts
        sresps = _strand_resps(ax, survey)
        if not (intc and _too_big(sresps)):     # the strand model expands respondent by respondent (as np.repeat does)
            add("strand", {"op": "scale_strand", "values": _vals_json(ax.values), "counts": [U.fs(x) for x in counts]})
        add("strand_spec", _spec_op(ax.values, sresps, intc))
        if _wants_int(case, sresps, intc):
            add("strand_int", _int_op(ax.values, sresps))
        return plan
    counts, rb, cb = U.tabulate2(axes, survey, lambda w: w)
    plan["counts"], plan["rb"], plan["cb"] = counts, rb, cb
    tr = case.get("transforms") or {}
    for orient, dimname, vax, oax in (("rows", "rows_dimension", axes[0], axes[1]),
                                      ("columns", "columns_dimension", axes[1], axes[0])):
        subs = U.subs_of(vax, tr.get(dimname)) if vax.can_insert else []
        plan[orient + "_subs"] = subs
        cm = counts if orient == "rows" else U.transpose(counts, axes[1].n)
        bm = rb if orient == "rows" else U.transpose(cb, axes[1].n)
        nvec = vax.n + len(subs)
        order = list(range(vax.n)) + [k - len(subs) for k in range(len(subs))]
        add(orient, {"op": "scale_vectors", "values": _vals_json(oax.values), "counts": U.fmat(cm),
                     "bases": U.fmat(bm), "subs": [{"add": a, "sub": s} for _, a, s in subs], "order": order})
        # respondent-level spec of every base vector and every additive subtotal vector
        for e in range(vax.n):
            vr = _vector_resps(axes, survey, orient, [e])
            add("%s_spec_%d" % (orient, e), _spec_op(oax.values, vr, intc))
            if _wants_int(case, vr, intc):
                add("%s_int_%d" % (orient, e), _int_op(oax.values, vr))
        for k, (_, a, s) in enumerate(subs):
            if not s and vax.role in ("cat", "cacat"):
                vr = _vector_resps(axes, survey, orient, a)
                add("%s_spec_%d" % (orient, k - len(subs)), _spec_op(oax.values, vr, intc))
                if _wants_int(case, vr, intc):
                    add("%s_int_%d" % (orient, k - len(subs)), _int_op(oax.values, vr))
        # overall margin: all respondents of the table (valid on both dims), by opposing category
        # (`skip_margins`: tables beyond ~10^7 respondents, whose margins np.repeat cannot materialise)
        if axes[0].role == "cat" and axes[1].role == "cat" and not case.get("skip_margins"):
            hidden = set()
            otr = tr.get("columns_dimension" if orient == "rows" else "rows_dimension") or {}
            for k_, v_ in (otr.get("elements") or {}).items():
                if v_.get("hide"):
                    hidden.add(int(k_))
            ucounts = U.tabulate2(axes, survey, lambda w: F(1))[0]
            um = ucounts if orient == "rows" else U.transpose(ucounts, axes[1].n)
            shown = []
            for j in range(oax.n):
                if oax.ids[j] in hidden:
                    continue
                if otr.get("prune") and sum((um[i][j] for i in range(vax.n)), F(0)) == 0:
                    continue
                shown.append(j)
            margin = [sum((cm[i][j] for i in range(vax.n)), F(0)) for j in range(oax.n)]
            osubs = U.subs_of(oax, otr)
            plan[orient + "_shown"] = shown
            # subtotal positions carry NaN values; their margin value is irrelevant (masked out)
            vals = [oax.values[j] for j in shown] + [None] * len(osubs)
            mar = [margin[j] for j in shown] + [F(1)] * len(osubs)
            allresp = _vector_resps(axes, survey, orient, list(range(vax.n)))
            if not _too_big(allresp):     # the model expands respondent by respondent: not for 10^5-range counts
                add(orient + "_margin", {"op": "scale_margin", "values": _vals_json(vals), "margin": [U.fs(x) for x in mar]})
            add(orient + "_margin_spec", _spec_op(oax.values, allresp, intc))
            if _wants_int(case, allresp, intc):
                add(orient + "_margin_int", _int_op(oax.values, allresp))
    return plan


def lean_ops(case):
    return _plan(case)["ops"]


# ---------------------------------------------------------------------------------------
# evaluation


_TOL = {"abs": common.ABS_TOL}


def _set_tolerance(vars_):
    """absolute tolerance scaled to the magnitude of the numeric values: the correct code's mean carries a
    rounding error of a few ulp of |value| (1.5e-8 for values near 1e8), which is all that is left where the
    exact deviation is 0"""
    mags = [abs(float(c["numeric_value"])) for v in vars_ for c in v.cats if c.get("numeric_value") is not None]
    _TOL["abs"] = max(common.ABS_TOL, 1e-12 * max(mags + [1.0]))


def _cmp(findings, kind, locus, what, impl, expected):
    ok, where = common.deep_close(impl, expected, abs_=_TOL["abs"])
    if not ok:
        findings.append({"kind": kind, "locus": locus,
                         "detail": "%s: impl%s (impl=%r expected=%r)" % (what, where, impl, expected)})
    return ok


def _int_median(findings, lo, locus, what, impl, orc):
    """judge a median against Lean's `medianInt` (integer-weighted records of any size); the two oracles must agree"""
    if not lo["nat_weights"]:
        raise common.HarnessFault("scale_median_int on non-natural weights")
    exp = common.model_to_float(lo["median"])
    if not common.num_close(exp, orc["median"]):
        raise common.HarnessFault("Lean medianInt %r != python oracle %r" % (exp, orc["median"]))
    _cmp(findings, "spec", locus, "%s vs Lean spec (integer-weighted records)" % what, impl, exp)


def _isnan(x):
    return isinstance(x, float) and math.isnan(x)


def evaluate(case, louts, ctx):
    from cr.cube.cube import Cube
    plan = _plan(case)
    vars_, survey, axes, intc = plan["vars"], plan["survey"], plan["axes"], plan["intc"]
    _set_tolerance(vars_)
    L = lambda name: louts[plan["idx"][name]]  # noqa
    findings = []
    weighted = case["wmode"] != "unit"
    resp = gen.cube_response(vars_, survey, weighted)
    if case.get("present") == "expanded":
        resp = unit_expanded_response(resp)
    ctx.count("present:%s" % case.get("present", "survey"))
    tr = case.get("transforms") or {}
    cube = Cube(resp, transforms=copy.deepcopy(tr))   # the library rewrites ids inside the dict it is given
    part = common.call_impl(lambda: len(cube.partitions))
    if part != 1:
        raise common.HarnessFault("expected one partition, got %r" % (part,))
    part = cube.partitions[0]
    key = None
    nontrivial = False
    ctx.count("type:%s" % case["type"])
    ctx.count("wmode:%s" % case["wmode"])

    if case["type"] == "strand":
        ax = axes[0]
        resps = _strand_resps(ax, survey)
        orc = oracle(ax.values, resps, intc)
        sp = L("strand_spec")
        if [F(x) for x in sp["counts"]] != plan["counts"] and not intc:
            raise common.HarnessFault("Lean countsOf != python counts (strand)")
        any_vals = any(v is not None for v in ax.values)
        m = L("strand") if "strand" in plan["idx"] else None
        impl = {"mean": common.call_impl(lambda: part.scale_mean),
                "median": common.call_impl(lambda: part.scale_median),
                "stddev": common.call_impl(lambda: part.scale_std_dev),
                "stderr": common.call_impl(lambda: part.scale_std_err)}
        has_resp = orc["sw"] != 0
        # --- spec level
        if not any_vals or not has_resp:
            ctx.count("strand:none")
            for k in ("mean", "stddev", "stderr", "median"):
                if impl[k] is not None:
                    why = "no-values" if not any_vals else "no-valued-respondents"
                    findings.append({"kind": "spec", "locus": "strand.scale_%s.%s-not-None" % (k, why),
                                     "detail": "strand scale_%s = %r, property says None (%s)" % (k, impl[k], why)})
        else:
            _cmp(findings, "spec", "strand.scale_mean", "vs python oracle", impl["mean"], orc["mean"])
            _cmp(findings, "spec", "strand.scale_mean", "vs Lean spec", impl["mean"], common.model_to_float(sp["mean"]))
            _cmp(findings, "spec", "strand.scale_std_dev", "vs python oracle", impl["stddev"], orc["stddev"])
            _cmp(findings, "spec", "strand.scale_std_dev", "vs Lean spec", impl["stddev"], U.sout_float(sp["stddev"]))
            _cmp(findings, "spec", "strand.scale_std_err", "vs python oracle", impl["stderr"],
                 orc["stddev"] / math.sqrt(orc["sw"]))
            _cmp(findings, "spec", "strand.scale_std_err", "vs Lean spec", impl["stderr"],
                 U.sout_float(sp["stderr_strand"]))
            if intc:
                mloc = "strand.scale_median"
                if common.num_close(impl["median"], _next_listed_median(ax.values, plan["counts"])) and \
                        not common.num_close(impl["median"], orc["median"]):
                    # the strand twin of F6: averaged with the next LISTED value although nobody chose it
                    mloc = "strand.scale_median.exact-half-next-value-zero-count"
                _cmp(findings, "spec", mloc, "vs python oracle", impl["median"], orc["median"])
                if not _too_big(resps):
                    _cmp(findings, "spec", "strand.scale_median", "vs Lean spec", impl["median"],
                         common.model_to_float(sp["median"]))
                if "strand_int" in plan["idx"]:
                    _int_median(findings, L("strand_int"), mloc, "scale_median", impl["median"], orc)
        # --- model level
        for k in ("mean", "median", "stddev", "stderr"):
            if m is not None:
                _cmp(findings, "model", "seam.strand.%s" % k, "vs Lean model", impl[k], U.sout_float(m[k]))
        vs = {ax.values[k] for w, k in resps if w > 0 and ax.values[k] is not None}
        if len(vs) >= 2:
            key = ("strand", tuple(plan["counts"]), tuple(ax.values))
        return findings, key

    # ---- slice ---------------------------------------------------------------------
    ctx.count("design:%sx%s" % (axes[0].role, axes[1].role))
    # inputs seam (C01/C02 territory, reported as model-kind so it cannot pose as a C14 failure)
    plain = Cube(resp).partitions[0]
    _cmp(findings, "model", "seam.inputs.counts", "tabulation", common.call_impl(lambda: plain.counts),
         [[float(x) for x in r] for r in plan["counts"]] if axes[0].n and axes[1].n else
         common.call_impl(lambda: plain.counts))
    for orient, vax, oax in (("rows", axes[0], axes[1]), ("columns", axes[1], axes[0])):
        subs = plan[orient + "_subs"]
        any_vals = any(v is not None for v in oax.values)
        names = {"mean": "%s_scale_mean" % orient, "median": "%s_scale_median" % orient,
                 "stddev": "%s_scale_mean_stddev" % orient, "stderr": "%s_scale_mean_stderr" % orient}
        impl = {k: common.call_impl(lambda n=n: getattr(part, n)) for k, n in names.items()}
        labels = common.call_impl(lambda: list(part.row_labels if orient == "rows" else part.column_labels))
        m = L(orient)
        if not any_vals:
            ctx.count("%s:none" % orient)
            for k in impl:
                if impl[k] is not None:
                    findings.append({"kind": "spec", "locus": "slice.%s.no-values-not-None" % names[k],
                                     "detail": "%s = %r but no category carries a numeric value" % (names[k], impl[k])})
            if m["defined"]:
                findings.append({"kind": "model", "locus": "seam.slice.defined", "detail": "model says defined"})
            continue
        if any(v is None for v in impl.values()):
            # stderr may legitimately be undefined when the vector dimension has no margin (array rows)
            for k in impl:
                if impl[k] is None and not (k == "stderr" and vax.role in ("mr", "arr") and False):
                    findings.append({"kind": "spec", "locus": "slice.%s.None-with-values" % names[k],
                                     "detail": "%s is None although numeric values exist" % names[k]})
            continue
        order = U.signed_order(labels, vax, subs) if isinstance(labels, list) else None
        if order is None:
            raise common.HarnessFault("cannot map labels %r to elements" % (labels,))
        nvec = vax.n + len(subs)
        mv = m["vectors"]
        for pos, sidx in enumerate(order):
            vec = mv[sidx if sidx >= 0 else nvec + sidx]
            for k in ("mean", "median", "stddev", "stderr"):
                got = impl[k][pos] if isinstance(impl[k], list) and pos < len(impl[k]) else impl[k]
                exp = U.sout_float(vec[k])
                ok = _cmp(findings, "model", "seam.slice.%s" % names[k], "vector %d (signed %d)" % (pos, sidx), got, exp)
            specname = "%s_spec_%d" % (orient, sidx)
            if specname not in plan["idx"]:
                ctx.count("vector:difference-or-array-subtotal")
                continue
            sp = L(specname)
            members = [sidx] if sidx >= 0 else subs[len(subs) + sidx][1]
            resps = _vector_resps(axes, survey, orient, members)
            orc = oracle(oax.values, resps, intc)
            marg = float(sum((w for w, _ in resps), F(0)))
            tag = "subtotal" if sidx < 0 else "base"
            g = {k: (impl[k][pos] if isinstance(impl[k], list) and pos < len(impl[k]) else impl[k]) for k in impl}
            if orc["sw"] == 0:
                ctx.count("vector:no-valued-respondents")
                for k in ("mean", "median", "stddev", "stderr"):
                    if not _isnan(g[k]):
                        findings.append({"kind": "spec", "locus": "slice.%s.%s.not-NaN-without-valued-respondents" % (names[k], tag),
                                         "detail": "%s[%d] = %r, property says NaN" % (names[k], pos, g[k])})
                continue
            _cmp(findings, "spec", "slice.%s.%s" % (names["mean"], tag), "vs python oracle", g["mean"], orc["mean"])
            _cmp(findings, "spec", "slice.%s.%s" % (names["mean"], tag), "vs Lean spec", g["mean"],
                 common.model_to_float(sp["mean"]))
            _cmp(findings, "spec", "slice.%s.%s" % (names["stddev"], tag), "vs python oracle", g["stddev"], orc["stddev"])
            _cmp(findings, "spec", "slice.%s.%s" % (names["stddev"], tag), "vs Lean spec", g["stddev"],
                 U.sout_float(sp["stddev"]))
            _cmp(findings, "spec", "slice.%s.%s" % (names["stderr"], tag), "vs python oracle", g["stderr"],
                 orc["stddev"] / math.sqrt(marg))
            _cmp(findings, "spec", "slice.%s.%s" % (names["stderr"], tag), "vs Lean spec", g["stderr"],
                 U.sout_float(sp["stderr"]))
            if intc:
                mloc = "slice.%s.%s" % (names["median"], tag)
                f6 = not common.num_close(U.sout_float(vec["median"]), U.sout_float(vec["median_old"]))
                if f6:
                    ctx.count("median:exact-half-with-zero-count-neighbour")
                    if common.num_close(g["median"], U.sout_float(vec["median_old"])):
                        # the defect F6: averaged with the next LISTED value although its count is 0
                        mloc = "slice.scale_median.exact-half-next-value-zero-count"
                _cmp(findings, "spec", mloc, "%s[%d] vs python oracle" % (names["median"], pos), g["median"], orc["median"])
                if not _too_big(resps):
                    _cmp(findings, "spec", mloc, "%s[%d] vs Lean spec" % (names["median"], pos), g["median"],
                         common.model_to_float(sp["median"]))
                iname = "%s_int_%d" % (orient, sidx)
                if iname in plan["idx"]:
                    _int_median(findings, L(iname), mloc, "%s[%d]" % (names["median"], pos), g["median"], orc)
            vs = {oax.values[k] for w, k in resps if w > 0 and oax.values[k] is not None}
            if len(vs) >= 2:
                nontrivial = True
        # ---- overall margins
        if (orient + "_margin_spec") in plan["idx"]:
            olabels = common.call_impl(lambda: list(part.column_labels if orient == "rows" else part.row_labels))
            otr = tr.get("columns_dimension" if orient == "rows" else "rows_dimension") or {}
            osubs = U.subs_of(oax, otr)
            oorder = U.signed_order(olabels, oax, osubs) if isinstance(olabels, list) else None
            shown = plan[orient + "_shown"]
            if oorder is None or sorted(k for k in oorder if k >= 0) != shown or \
                    len([k for k in oorder if k < 0]) != len(osubs) or not labels:
                ctx.count("margin:skipped")
                continue
            impl_mean = common.call_impl(lambda: getattr(part, "%s_scale_mean_margin" % orient))
            impl_med = common.call_impl(lambda: getattr(part, "%s_scale_median_margin" % orient))
            if (orient + "_margin") in plan["idx"]:
                mm = L(orient + "_margin")
                _cmp(findings, "model", "seam.slice.%s_scale_mean_margin" % orient, "vs Lean model", impl_mean,
                     U.sout_float(mm["mean"]))
                _cmp(findings, "model", "seam.slice.%s_scale_median_margin" % orient, "vs Lean model", impl_med,
                     U.sout_float(mm["median"]))
            if len(shown) == oax.n:
                sp = L(orient + "_margin_spec")
                allresp = _vector_resps(axes, survey, orient, list(range(vax.n)))
                orc = oracle(oax.values, allresp, intc)
                if orc["sw"] == 0:
                    for nm, val in (("mean", impl_mean), ("median", impl_med)):
                        if not (val is None or _isnan(val)):
                            findings.append({"kind": "spec", "locus": "slice.%s_scale_%s_margin.empty" % (orient, nm),
                                             "detail": "%r for a table without valued respondents" % (val,)})
                else:
                    _cmp(findings, "spec", "slice.%s_scale_mean_margin" % orient, "vs python oracle", impl_mean, orc["mean"])
                    _cmp(findings, "spec", "slice.%s_scale_mean_margin" % orient, "vs Lean spec", impl_mean,
                         common.model_to_float(sp["mean"]))
                    if intc:
                        _cmp(findings, "spec", "slice.%s_scale_median_margin" % orient, "vs python oracle", impl_med,
                             orc["median"])
                        if not _too_big(allresp):
                            _cmp(findings, "spec", "slice.%s_scale_median_margin" % orient, "vs Lean spec", impl_med,
                                 common.model_to_float(sp["median"]))
                        if (orient + "_margin_int") in plan["idx"]:
                            _int_median(findings, L(orient + "_margin_int"), "slice.%s_scale_median_margin" % orient,
                                        "%s_scale_median_margin" % orient, impl_med, orc)
    if nontrivial:
        key = ("slice", axes[0].role, axes[1].role, tuple(tuple(r) for r in plan["counts"]),
               tuple(axes[0].values), tuple(axes[1].values))
    return findings, key


def describe(case):
    vars_, survey = _load(case)
    axes = U.axes_of(vars_)
    return {"type": case["type"], "kinds": [v.kind for v in vars_], "wmode": case["wmode"],
            "numeric_values": [a.values for a in axes], "n_respondents": len(survey),
            "transforms": case.get("transforms")}


def shrink_candidates(case):
    sv = case["survey"]
    n = len(sv)
    if n > 1:
        yield dict(case, survey=sv[: n // 2])
        yield dict(case, survey=sv[n // 2:])
    for i in range(min(n, 25)):
        yield dict(case, survey=sv[:i] + sv[i + 1:])
    tr = case.get("transforms") or {}
    if tr:
        yield dict(case, transforms={})
        for d in list(tr):
            t2 = {k: v for k, v in tr.items() if k != d}
            yield dict(case, transforms=t2)
            for kk in list(tr[d]):
                t3 = dict(tr)
                t3[d] = {k: v for k, v in tr[d].items() if k != kk}
                yield dict(case, transforms=t3)
