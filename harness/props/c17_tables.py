"""C17 extension: source-table tie (margin-of-error constant Z_975 of the population estimates; see _srctables.py): the numeric literal in the working tree is
translated to an exact rational on every run and proved equal to the model's constant."""
from props import _srctables

PROPERTY = "C17"
THEOREMS = []
RULE = "source-table tie: one case; margin-of-error constant Z_975 of the population estimates translated from the working tree and proved equal to the model constant"
TRUSTED_EXTRA = ["tools/srctables.py (ast translator of dict / enum / numeric literals)"]
NAMES = ["z975_constant"]
generate, lean_ops, evaluate, describe = _srctables.make_module(PROPERTY, NAMES, "margin-of-error constant Z_975 of the population estimates")
