"""C05 extension — the END-TO-END pipeline model of `_Slice` / `_Strand`.

One Lean op (`pipe_slice` / `pipe_strand`, Model/Pipeline.lean) takes the whole case — typed design, raw weighted and
unweighted arrays, both dimensions with view insertions and their transforms (insertions, per-element hide flags,
prune, order spec) — and returns EVERY assembled public output.  The real partition's outputs are compared with it
cell for cell (kind `model`); base cells and the set of visible elements are also compared with respondent-level
values (`specCount`, kind `spec`) at the positions the library's OWN reported display orders name.

Grammar = `c05.gen_dim` / `c05.gen_order` restricted to what the pipeline models (see RULE).
"""
import copy
from fractions import Fraction

import common
import gen
from props import _slice_common as sc
from props import _subtotals as st
from props import c05

PROPERTY = "C05"
LEAN_MODULE = ["CrCube.Props.C05_Pipeline", "CrCube.Props.C05_PipelineMeasures"]
THEOREMS = [
    "CrCube.C05.slice_blocks_depend_on_insertions_only",
    "CrCube.C05.slice_blocks_independent",
    "CrCube.C05.slice_blocks_independent_e2e",
    "CrCube.C05.strand_blocks_independent",
    "CrCube.C05.slice_order_nodup",
    "CrCube.C05.slice_order_subset",
    "CrCube.C05.slice_strip_order_complete",
    "CrCube.C05.strand_order_nodup",
    "CrCube.C05.strand_order_subset",
    "CrCube.C05.slice_output_reindexed",
    "CrCube.C05.slice_margins_reindexed",
    "CrCube.C05.slice_output_reindexed_e2e",
    "CrCube.C05.strand_output_reindexed",
    "CrCube.C05.slice_extent_matches",
    "CrCube.C05.strand_extent_matches",
    "CrCube.C05.slice_cell_is_block",
    "CrCube.C05.slice_hidden_still_count",
    "CrCube.C05.catXcat_bases_sum_all",
    "CrCube.C05.slice_inserted_idxs_def",
    "CrCube.C05.slice_inserted_reads_insertion",
    "CrCube.C05.slice_label_idxs_def",
    "CrCube.C05.slice_position_outputs_renumbered",
    "CrCube.C05.slice_diff_idxs_def",
    "CrCube.C05.slice_pipeline_factors",
    "CrCube.C05.strand_pipeline_factors",
    "CrCube.C05.slice_row_pruned_iff",
    "CrCube.C05.slice_col_pruned_iff",
    "CrCube.C05.slice_row_subtotal_pruned_iff",
    "CrCube.C05.slice_col_subtotal_pruned_iff",
    "CrCube.C05.strand_pruned_iff",
    "CrCube.C05.slice_row_pruned_iff_respondents",
    "CrCube.C05.slice_col_pruned_iff_respondents",
    "CrCube.C05.strand_pruned_iff_respondents",
    "CrCube.C05.slice_base_cells_respondents",
    "CrCube.C05.slice_base_cells_respondents_3d",
    "CrCube.C05.strand_base_cells_respondents",
    "CrCube.C05.resolve_strip",
    "CrCube.C05.resolve_wf",
    "CrCube.C05.sliceWF_of_resolve",
    # phase 2 (Props/C05_PipelineMeasures.lean): every measure of the keyword tables, composed
    "CrCube.C05.slice_mat_cell",
    "CrCube.C05.slice_variance_is_C11",
    "CrCube.C05.varCellAt_prims",
    "CrCube.C05.sideOf_def",
    "CrCube.C05.slice_omat_cell",
    "CrCube.C05.slice_stats_are_C11",
    "CrCube.C05.slice_zscore_is_C12",
    "CrCube.C05.slice_zscore_block_uniform",
    "CrCube.C05.slice_sort_reads_surrogate",
    "CrCube.C05.sqrtKey_monotone",
    "CrCube.C05.sqrtKey_nan_iff",
    "CrCube.C05.slice_colindex_is_C16",
    "CrCube.C05.slice_colindex_respondents",
    "CrCube.C05.slice_variance_respondents",
    "CrCube.C05.slice_zscore_respondents",
    "CrCube.C05.slice_numeric_are_C04_C15",
    "CrCube.C05.popDir_eq_popMode",
    "CrCube.C05.slice_population_is_C17",
    "CrCube.C05.slice_scale_is_C14",
    "CrCube.C05.slice_omat_reindexed",
    "CrCube.C05.slice_omat_extent",
    "CrCube.C05.slice_scale_reindexed",
    "CrCube.C05.strand_stats_are_C11",
    "CrCube.C05.strand_ovec_reindexed",
    "CrCube.C05.strand_scale_is_C14",
]
RULE = ("pipeline: 1-D / 2-D / 3-D designs over cat / cat_date / text / binned / datetime / mr (derived items, missing "
        "items, missing categories anywhere) and single CA variables x random surveys (weighted or not, zero-weight "
        "rows, 0..50 respondents) x numeric measures (mean / sum / stddev / median with unavailable cells) on ~half x "
        "population 0 / 250 / 1000 x c05.gen_dim transforms on both dimensions (insertions incl. differences / junk / "
        "id-less / colliding ids / stale anchors / fills, view-level insertions and empty transform lists overriding "
        "them, hide flags, prune, explicit / payload / label / marginal / opposing-element / opposing-insertion / "
        "univariate orders with direction and fixed lists with repeats and stale ids) over EVERY keyword of the three "
        "sort-key tables (33 matrix measures, 7 row marginals, 13 stripe measures, + unknown keywords for the fallback "
        "path); a KEYWORD SWEEP (one rich data set, one case per keyword) and three focused families (sort-by-value "
        "with >= 2 insertions per dimension, strands sorted by a measure, pruning over MR pairings with 0-9 "
        "respondents); EVERY listed public output of the real partition - counts, bases, proportions, variances, "
        "std-dev / std-err / MoE, z-scores, p-values, column index, population proportions / counts / std-err / MoE, "
        "sums / means / stddev / medians, shares of sum, scale mean / median / stddev / stderr, margins, 1-D margin "
        "proportions, orders, shape, index lists, labels / codes / aliases / fills - vs the Lean pipeline op, cell for "
        "cell (symbolic sqrt / normal-tail terms evaluated with numpy / scipy); base cells and visibility also vs "
        "respondent-level counts at the positions the library's own orders name; non-trivial = display order differs "
        "from the stripped order; distinct = (kinds, transforms, orders)")
ASSUMPTIONS = [
    "adapter: element keys are spelled as the library addresses them (category ids, subvariable aliases, datetime "
    "values); ids in fixed / explicit lists that no element carries are passed as spelled (they match nothing on "
    "either side); element labels are computed by the adapter and compared with the library's whenever a label sort "
    "reads them; population fraction is 1 (no filter statistics in the generated responses: C17's subject)",
    "orders: the model sorts exact rational surrogates (radicand of a sqrt, sign * n^2/d of n/sqrt(d), -z^2 of a normal "
    "tail), the library floats: when the two orders differ ONLY by a permutation of vectors whose inexact sort keys are "
    "equal within 1e-9 (never for counts / bases / payload values, never for NaN keys) the model outputs are "
    "re-indexed to the library's order before the cell-by-cell comparison (counted as pipe.near_tie_reordered)",
    "excluded: opposing-insertion sort on an ARRAY opposing dimension only with ids its translation cascade rejects "
    "(fallback path); opposing-element references to an MR dimension are aliases or an unmatched id (the translation "
    "cascade is C19's subject); column_index and col_index sort keys on designs whose array dimension carries an "
    "item flagged missing (input not evidenced - the library states an MR_SUBVAR element is never missing; counted "
    "as excluded:column_index.missing-array-item); valid-count measures (diff_nans); the 2-D margin-proportion "
    "fallback (F13) and the scale *_margin scalars (F21); CubeSets, smoothing, pairwise index sets (C05 main)",
]
TRUSTED_EXTRA = ["Python evaluation of Scale.SOut terms (np.sqrt, np.sqrt(a)/np.sqrt(b))",
                 "monotonicity of sqrt and of the normal tail, by which the exact surrogates order like the float values"]

MEASURE_OK = ["col_base_unweighted", "col_base_weighted", "col_percent", "row_base_unweighted", "row_base_weighted",
              "row_percent", "table_percent", "table_base_unweighted", "table_base_weighted", "count_unweighted",
              "valid_count_unweighted", "count_weighted", "valid_count_weighted",
              # phase 2: every keyword of the helper's table
              "col_index", "col_percent_moe", "col_share_sum", "col_std_dev", "col_std_err", "mean", "population",
              "population_moe", "p_value", "row_percent_moe", "row_share_sum", "row_std_dev", "row_std_err", "stddev",
              "sum", "table_percent_moe", "table_std_dev", "table_std_err", "total_share_sum", "z_score"]
MARGINAL_OK = ["unweighted_base", "weighted_base", "table_proportion", "scale_mean", "scale_mean_stddev",
               "scale_mean_stderr", "scale_median"]
STRIPE_OK = ["base_unweighted", "base_weighted", "count_unweighted", "count_weighted", "percent", "mean", "percent_moe",
             "percent_stddev", "percent_stderr", "population", "population_moe", "share_sum", "sum"]

MATS = ["counts", "unweighted_counts", "row_weighted_bases", "row_unweighted_bases", "column_weighted_bases",
        "column_unweighted_bases", "table_weighted_bases", "table_unweighted_bases", "row_proportions",
        "column_proportions", "table_proportions",
        "row_proportion_variances", "column_proportion_variances", "table_proportion_variances", "column_index",
        "row_std_dev", "column_std_dev", "table_std_dev", "row_std_err", "column_std_err", "table_std_err",
        "row_proportions_moe", "column_proportions_moe", "table_proportions_moe", "zscores", "pvals",
        "population_std_err", "population_proportions", "population_counts", "population_counts_moe"]
NUMERIC_MATS = {"sums": "sum", "means": "mean", "stddev": "stddev", "medians": "median", "row_share_sum": "sum",
                "column_share_sum": "sum", "total_share_sum": "sum"}
MARGS = ["rows_margin", "columns_margin", "rows_base", "columns_base", "table_margin", "table_base"]
SPEC_MATS = ["counts", "unweighted_counts", "row_weighted_bases", "row_unweighted_bases", "column_weighted_bases",
             "column_unweighted_bases", "table_weighted_bases", "table_unweighted_bases"]
STRAND_VECS = ["counts", "unweighted_counts", "weighted_bases", "unweighted_bases", "table_proportions",
               "table_proportion_stddevs", "table_proportion_stderrs", "table_proportion_moes",
               "population_proportion_stderrs", "population_proportions", "population_counts", "population_counts_moe"]
STRAND_NUMERIC = {"sums": "sum", "means": "mean", "stddev": "stddev", "medians": "median", "share_sum": "sum"}
STRAND_SPEC = ["counts", "unweighted_counts", "weighted_bases", "unweighted_bases"]
MEASURE_FIELD = {"sum": "sums", "mean": "means", "stddev": "stddevs", "median": "medians"}


# ---------------------------------------------------------------------------------------------
# generation


def _restrict_order(rng, o, strand):
    """the c05 grammar; a strand's `univariate_measure` draws from the stripe helper's own keyword table"""
    if not o:
        return o
    t = o.get("type")
    if t == "univariate_measure" and strand:
        o["measure"] = rng.choice(STRIPE_OK + STRIPE_OK + ["bogus_measure"])
    elif t == "marginal" and rng.random() < 0.1:
        o["marginal"] = "bogus_marginal"
    return o


def _rich_insertions(rng, v):
    """the C04 insertion grammar (stale / duplicate / missing ids, junk entries, id-less, colliding ids, stale anchors)"""
    if v.is_array or v.kind not in ("cat", "cat_date"):
        return []
    out = st.gen_insertions(rng, v, max_n=3)
    for d in out:
        if isinstance(d, dict) and "anchor" in d and rng.random() < 0.15:
            a = d["anchor"]
            d["anchor"] = rng.choice([str(a) if isinstance(a, int) else a.upper(), None, "Bottom", "TOP"])
    return out


def _gen_dim(rng, v, opp, opp_ins, strand=False):
    if v is None:        # CA categories dimension handled by the caller
        return {}
    d = c05.gen_dim(rng, v, opp, [i for i in opp_ins if isinstance(i, dict)], strand)
    if rng.random() < 0.35:
        ins = _rich_insertions(rng, v)
        if ins or rng.random() < 0.3:
            d["insertions"] = ins
    if "order" in d:
        d["order"] = _restrict_order(rng, d["order"], strand)
        if d["order"].get("type") == "explicit" and rng.random() < 0.2:
            # explicit order: string spelling of an int id matches nothing on a categorical dimension
            l = d["order"].get("element_ids") or []
            if l and isinstance(l[0], int):
                l[0] = str(l[0])
    return d


class _CaCats:
    """stand-in for the categories dimension of a CA variable in the c05 grammar"""

    def __init__(self, v):
        self.kind = "cat"
        self.cats = v.cats
        self.items = []
        self.is_array = False
        self.alias = v.alias + "_cats"


def _with_fills(rng, ins):
    for k, d in enumerate(ins):
        if isinstance(d, dict) and rng.random() < 0.4:
            d["fill"] = "#00%02d%02d" % (k, rng.randrange(100))
    return ins


def _sort_opts(rng, o, ids):
    if rng.random() < 0.6:
        o["direction"] = rng.choice(["ascending", "descending"])
    if rng.random() < 0.3 and ids:
        fx = {}
        for side in ("top", "bottom"):
            if rng.random() < 0.5:
                fx[side] = [rng.choice(ids + [997]) for _ in range(rng.randint(1, 2))]
        if fx:
            o["fixed"] = fx
    return o


def _at_least_two_insertions(rng, v):
    if v.is_array or v.kind not in ("cat", "cat_date"):
        return []
    for _ in range(6):
        ins = sc.gen_insertions(rng, v, max_n=3, allow_diff=True, allow_hide=False)
        if len(ins) >= 2:
            return ins
    return ins


BASE_MEASURES = MEASURE_OK[:13]
DERIVED_MEASURES = ["col_index", "col_percent_moe", "col_std_dev", "col_std_err", "p_value", "row_percent_moe", "row_std_dev",
                    "row_std_err", "table_percent_moe", "table_std_dev", "table_std_err", "z_score"]
NUMERIC_MEASURES = {"mean": ["mean"], "stddev": ["stddev"], "sum": ["sum", "col_share_sum", "row_share_sum", "total_share_sum"]}


def _pick_measure(rng, cat_date, measures):
    """sort key of a matrix order: weighted towards the composed measures; population keys where a dimension is
    categorical-date (only there do they differ from the table percent); numeric keys where the cube carries them"""
    r = rng.random()
    if cat_date and r < 0.3:
        return rng.choice(["population", "population_moe"])
    avail = [k for m in (measures or {}) for k in NUMERIC_MEASURES.get(m, [])]
    if avail and r < 0.5:
        return rng.choice(avail)
    if r < 0.58:
        return rng.choice(BASE_MEASURES)
    if r < 0.63:
        return rng.choice(["population", "population_moe", "mean", "sum", "stddev", "col_share_sum"])
    return rng.choice(DERIVED_MEASURES)


def _gen_measures(rng, vars_, p=0.45, names=None):
    if rng.random() >= p:
        return None
    tot = 1
    for x in gen.raw_shape(vars_):
        tot *= x
    ms = {}
    for name in (names or rng.sample(["mean", "sum", "stddev", "median"], rng.randint(1, 3))):
        ms[name] = [gen.frac_str(Fraction(rng.randint(0, 40), rng.choice([1, 2, 4]))) if rng.random() < 0.9 else None
                    for _ in range(tot)]
    return ms


def gen_sort_case(rng):
    """sort-by-value focus: enough respondents and elements for the sort keys to differ, at least two insertions on
    the categorical dimensions (so that the order WITHIN the subtotal group, the inserted column a sort reads and the
    NaN-last rule are observable), weighted surveys (weighted vs unweighted keys order differently)"""
    kinds = rng.choice([["cat", "cat"], ["cat", "cat"], ["cat", "cat"], ["cat_date", "cat"], ["cat", "cat_date"],
                        ["cat_date", "cat_date"], ["cat", "mr"], ["mr", "cat"], ["cat", "cat", "cat"],
                        ["mr", "cat", "cat"]])
    vars_ = [gen.gen_var(rng, k, "v%d" % i, n=rng.randint(3, 5), missing_items=True) for i, k in enumerate(kinds)]
    weighted = rng.random() < 0.8
    survey = gen.gen_survey(rng, vars_, n_resp=rng.randint(15, 45), weighted=weighted, skew=rng.random() < 0.3)
    case = {"vars": [v.to_json() for v in vars_], "survey": gen.survey_to_json(survey), "weighted": weighted, "min_base": 0}
    ms = _gen_measures(rng, vars_, p=0.5, names=rng.choice([["mean", "sum"], ["sum"], ["mean", "stddev"], ["sum", "stddev", "mean"]]))
    if ms:
        case["measures"] = ms
    R, C = vars_[-2], vars_[-1]
    cat_date = "cat_date" in kinds[-2:]
    rd, cd = {}, {}
    ri, ci = _at_least_two_insertions(rng, R), _at_least_two_insertions(rng, C)
    if ri:
        rd["insertions"] = _with_fills(rng, ri)
    if ci:
        cd["insertions"] = _with_fills(rng, ci)
    rkeys, ckeys = sc.element_keys(R), sc.element_keys(C)
    rt = rng.choice(["opposing_element", "opposing_element", "opposing_element", "opposing_insertion",
                     "opposing_insertion", "opposing_insertion", "marginal", "marginal", "label"])
    if rt == "opposing_element":
        ro = {"type": rt, "element_id": rng.choice(ckeys), "measure": _pick_measure(rng, cat_date, ms)}
    elif rt == "opposing_insertion":
        ro = {"type": rt, "insertion_id": rng.choice(_ins_ids(cd) + [77]) if not C.is_array else 77,
              "measure": _pick_measure(rng, cat_date, ms)}
    elif rt == "marginal":
        ro = {"type": rt, "marginal": rng.choice(MARGINAL_OK + ["scale_mean", "scale_mean_stddev", "scale_mean_stderr",
                                                               "scale_median", "table_proportion"])}
        for cc in C.cats:                      # a scale needs numeric values on the opposing dimension
            if cc.get("numeric_value") is None and rng.random() < 0.7:
                cc["numeric_value"] = rng.choice([-2, -1, 0, 1, 2, 3, 5, 10])
        case["vars"] = [v.to_json() for v in vars_]
    else:
        ro = {"type": "label"}
    rd["order"] = _sort_opts(rng, ro, rkeys)
    ct = rng.choice(["opposing_element", "opposing_insertion", "label", "explicit", "none"])
    if ct == "opposing_element":
        cd["order"] = _sort_opts(rng, {"type": ct, "element_id": rng.choice(rkeys), "measure": _pick_measure(rng, cat_date, ms)}, ckeys)
    elif ct == "opposing_insertion":
        cd["order"] = _sort_opts(rng, {"type": ct, "insertion_id": rng.choice(_ins_ids(rd) + [78]),
                                       "measure": _pick_measure(rng, cat_date, ms)}, ckeys)
    elif ct == "label":
        cd["order"] = _sort_opts(rng, {"type": "label"}, ckeys)
    elif ct == "explicit":
        l = list(ckeys)
        rng.shuffle(l)
        cd["order"] = {"type": "explicit", "element_ids": l[: rng.randint(0, len(l))]}
    for d, keys in ((rd, rkeys), (cd, ckeys)):
        el = {str(k): {"hide": True} for k in keys if rng.random() < 0.12}
        if el:
            d["elements"] = el
        if rng.random() < 0.25:
            d["prune"] = True
    case["transforms"] = {"rows_dimension": rd, "columns_dimension": cd}
    return case


def gen_strand_sort_case(rng):
    """1-D sort focus: MR strands (each item has its own base, so percent / count / base keys order differently)
    and categorical strands with at least two insertions"""
    kind = rng.choice(["mr", "mr", "cat", "cat_date"])
    v = gen.gen_var(rng, kind, "v0", n=rng.randint(3, 5), missing_items=True, derived_items=True)
    weighted = rng.random() < 0.8
    survey = gen.gen_survey(rng, [v], n_resp=rng.randint(10, 40), weighted=weighted, skew=rng.random() < 0.3)
    if weighted and rng.random() < 0.5:
        tgt = rng.randrange(len(v.cats))      # weighted-empty, unweighted non-empty (first item, for MR)
        survey = [(Fraction(0) if ans[0][0] == tgt else w, ans) for w, ans in survey]
    case = {"vars": [v.to_json()], "survey": gen.survey_to_json(survey), "weighted": weighted, "min_base": 0}
    ms = _gen_measures(rng, [v], p=0.5, names=rng.choice([["mean", "sum"], ["sum"], ["mean"]]))
    if ms:
        case["measures"] = ms
    d = {}
    ins = _at_least_two_insertions(rng, v)
    if ins:
        d["insertions"] = _with_fills(rng, ins)
    keys = sc.element_keys(v)
    t = rng.choice(["univariate_measure", "univariate_measure", "univariate_measure", "label"])
    o = {"type": t}
    if t == "univariate_measure":
        r = rng.random()
        if kind == "cat_date" and r < 0.4:
            o["measure"] = rng.choice(["population", "population_moe"])
        elif ms and r < 0.6:
            o["measure"] = rng.choice([k for k, need in (("mean", "mean"), ("sum", "sum"), ("share_sum", "sum")) if need in ms])
        elif r < 0.8:
            o["measure"] = rng.choice(["percent_moe", "percent_stddev", "percent_stderr", "percent_moe"])
        else:
            o["measure"] = rng.choice(STRIPE_OK)
    d["order"] = _sort_opts(rng, o, keys)
    el = {str(k): {"hide": True} for k in keys if rng.random() < 0.12}
    if el:
        d["elements"] = el
    if rng.random() < 0.5:
        d["prune"] = True
    case["transforms"] = {"rows_dimension": d}
    return case


def gen_prune_case(rng):
    """pruning focus: few respondents over MR / categorical pairings, prune on both dimensions, so that 'answered but
    never selected', 'selected once', 'weight 0 only' and 'nobody' vectors all occur; insertions present so that the
    subtotals-dropped-when-the-opposing-dimension-is-empty rule fires"""
    kinds = rng.choice([["cat", "mr"], ["mr", "cat"], ["mr", "mr"], ["cat", "cat"], ["mr"], ["cat"], ["cat_date"],
                        ["cat", "cat", "mr"]])
    vars_ = [gen.gen_var(rng, k, "v%d" % i, n=rng.randint(1, 4), missing_items=True, derived_items=True)
             for i, k in enumerate(kinds)]
    weighted = rng.random() < 0.7
    survey = gen.gen_survey(rng, vars_, n_resp=rng.choice([0, 1, 2, 2, 3, 4, 6, 9]), weighted=weighted)
    if weighted and survey and rng.random() < 0.6:
        # every respondent of one element of a pruned dimension has weight 0: weighted-empty, unweighted non-empty
        vi = rng.randrange(max(0, len(vars_) - 2), len(vars_))
        tgt = rng.randrange(len(vars_[vi].cats))
        survey = [(Fraction(0) if ans[vi][0] == tgt else w, ans) for w, ans in survey]
    case = {"vars": [v.to_json() for v in vars_], "survey": gen.survey_to_json(survey), "weighted": weighted, "min_base": 0}
    tr = {}
    dimvars = vars_[-2:] if len(vars_) >= 2 else vars_
    for name, v in zip(["rows_dimension", "columns_dimension"], dimvars):
        d = {"prune": True} if rng.random() < 0.85 else {}
        ins = sc.gen_insertions(rng, v, allow_diff=True, allow_hide=True)
        if ins:
            d["insertions"] = ins
        el = {str(k): {"hide": True} for k in sc.element_keys(v) if rng.random() < 0.15}
        if el:
            d["elements"] = el
        tr[name] = d
    case["transforms"] = tr
    return case


def _gen_case0(rng):
    r = rng.random()
    if r < 0.30:
        return gen_sort_case(rng)
    if r < 0.38:
        return gen_strand_sort_case(rng)
    if r < 0.50:
        return gen_prune_case(rng)
    if r < 0.58:
        kinds = ["ca"]
    else:
        nd = rng.choice([1, 2, 2, 2, 2, 2, 3])
        pool = ["cat", "cat", "cat", "mr", "mr", "cat_date", "text", "binned", "datetime", "datetime", "datetime"]
        kinds = [rng.choice(pool) for _ in range(nd)]
    case = sc.gen_case(rng, kinds=kinds, max_n=4, derived_items=True, n_resp=rng.choice([None, None, None, 0, 3]))
    vars_, survey = sc.load(case)
    # view-level insertions on some categorical variables (transforms with an `insertions` key replace them)
    for i, v in enumerate(vars_):
        if v.kind in ("cat", "cat_date") and rng.random() < 0.25:
            vi = _rich_insertions(rng, v) if rng.random() < 0.6 else sc.gen_insertions(rng, v, allow_diff=True)
            case["vars"][i]["view_insertions"] = vi
    vars_, survey = sc.load(case)
    # zero-weight whole rows: weighted-empty but unweighted non-empty vectors (prune must use unweighted counts)
    if case["weighted"] and survey and rng.random() < 0.35:
        vi = max(0, len(vars_) - 2)
        v0 = vars_[vi]
        tgt = rng.randrange(len(v0.cats))
        survey = [(Fraction(0) if ans[vi][0] == tgt else w, ans) for w, ans in survey]
        case["survey"] = gen.survey_to_json(survey)
    if kinds == ["ca"]:
        ca = vars_[0]
        cc = _CaCats(ca)
        cd = _gen_dim(rng, cc, ca, [])
        rd = _gen_dim(rng, ca, cc, cd.get("insertions", []))
        _fix_opp_ins(rng, rd, cd, True, False)
        case["transforms"] = {"rows_dimension": rd, "columns_dimension": cd}
    elif len(kinds) == 1:
        case["transforms"] = {"rows_dimension": _gen_dim(rng, vars_[0], None, [], strand=True)}
    else:
        R, C = vars_[-2], vars_[-1]
        cd = _gen_dim(rng, C, R, [])
        rd = _gen_dim(rng, R, C, cd.get("insertions", []))
        _fix_opp_ins(rng, rd, cd, R.is_array, C.is_array)
        case["transforms"] = {"rows_dimension": rd, "columns_dimension": cd}
    for d in case["transforms"].values():
        if d.get("insertions"):
            _with_fills(rng, d["insertions"])
    # a transforms dict that HAS the key `insertions` - even an empty list - replaces the view's insertions
    dimvars = vars_[-2:] if len(vars_) >= 2 else vars_
    for name, v in zip(["rows_dimension", "columns_dimension"], dimvars):
        if kinds != ["ca"] and v.view_insertions and name in case["transforms"] and rng.random() < 0.3:
            case["transforms"][name]["insertions"] = []
    if rng.random() < 0.1:
        case["transforms"].pop(rng.choice(sorted(case["transforms"])))
    return case


def gen_case(rng):
    case = _gen_case0(rng)
    vars_, survey = sc.load(case)
    # numeric measures on some cases (a sort by mean / sum / stddev / share-of-sum falls back without them)
    if "measures" not in case:
        ms = _gen_measures(rng, vars_)
        if ms:
            case["measures"] = ms
    case["population"] = rng.choice([0, 1000, 1000, 250])
    # the column index is not evidenced for an array dimension with an item flagged missing (the library states an
    # MR_SUBVAR element is never missing): no col_index sort key there, and column_index is not compared
    if _missing_array_item(vars_):
        for d in case["transforms"].values():
            o = (d or {}).get("order") or {}
            if o.get("measure") == "col_index":
                o["measure"] = "col_percent"
    return case


def _missing_array_item(vars_):
    return any(v.is_array and len(v.valid_item_pos) != len(v.items) for v in vars_[-2:])


def _ins_ids(d):
    return [i.get("id") for i in d.get("insertions", []) if isinstance(i, dict) and isinstance(i.get("id"), int)]


def _fix_opp_ins(rng, rd, cd, rows_array, cols_array):
    """insertion ids of the opposing dimension, id 1 (what an id-less first insertion is given) or a stale one; when
    the opposing dimension is an array only ids its translation cascade rejects (C19's subject)"""
    if "order" in cd and cd["order"].get("type") == "opposing_insertion":
        cd["order"]["insertion_id"] = 78 if rows_array else rng.choice(_ins_ids(rd) + [1, 78])
    if "order" in rd and rd["order"].get("type") == "opposing_insertion":
        rd["order"]["insertion_id"] = 77 if cols_array else rng.choice(_ins_ids(cd) + [1, 77])


def gen_sweep(rng):
    """KEYWORD SWEEP: one rich data set, one case per sort keyword of the helpers' tables (33 matrix measures on the
    rows order by an opposing element and on the columns order by an opposing insertion, the 7 row marginals, the 13
    stripe measures on an MR strand, the population keys on a categorical-date strand): a wrong entry of a keyword
    table shows as soon as the two measures order this data set differently"""
    out = []
    kinds = rng.choice([["cat", "cat"], ["cat_date", "cat"], ["cat", "cat_date"]])
    vars_ = [gen.gen_var(rng, k, "v%d" % i, n=rng.randint(4, 5), allow_missing=(i == 0), numeric="all")
             for i, k in enumerate(kinds)]
    survey = gen.gen_survey(rng, vars_, n_resp=rng.randint(35, 50), weighted=True, skew=False)
    base = {"vars": [v.to_json() for v in vars_], "survey": gen.survey_to_json(survey), "weighted": True, "min_base": 0,
            "measures": _gen_measures(rng, vars_, p=1.1, names=["mean", "sum", "stddev"]), "population": 1000}
    R, C = vars_
    ri, ci = _at_least_two_insertions(rng, R), _at_least_two_insertions(rng, C)
    rkeys, ckeys = sc.element_keys(R), sc.element_keys(C)
    col_el = rng.choice(ckeys[1:] or ckeys)
    row_ins = rng.choice(_ins_ids({"insertions": ri}) or [78])
    for kw in MEASURE_OK:
        rd = {"insertions": copy.deepcopy(ri), "order": {"type": "opposing_element", "element_id": col_el, "measure": kw,
                                                        "direction": rng.choice(["ascending", "descending"])}}
        cd = {"insertions": copy.deepcopy(ci), "order": {"type": "opposing_insertion", "insertion_id": row_ins, "measure": kw}}
        out.append(dict(copy.deepcopy(base), transforms={"rows_dimension": rd, "columns_dimension": cd}))
    for kw in MARGINAL_OK:
        rd = {"insertions": copy.deepcopy(ri), "order": {"type": "marginal", "marginal": kw}}
        out.append(dict(copy.deepcopy(base), transforms={"rows_dimension": rd, "columns_dimension": {"insertions": copy.deepcopy(ci)}}))
    # a second data set for the marginals (five rows: two marginals rarely order five rows and two subtotals alike)
    vars2 = [gen.gen_var(rng, "cat", "v%d" % i, n=5, allow_missing=False, numeric="all") for i in range(2)]
    survey2 = gen.gen_survey(rng, vars2, n_resp=rng.randint(35, 50), weighted=True, skew=False)
    base2 = {"vars": [v.to_json() for v in vars2], "survey": gen.survey_to_json(survey2), "weighted": True, "min_base": 0,
             "population": 1000}
    ri2 = _at_least_two_insertions(rng, vars2[0])
    for kw in MARGINAL_OK:
        rd = {"insertions": copy.deepcopy(ri2), "order": {"type": "marginal", "marginal": kw,
                                                         "direction": rng.choice(["ascending", "descending"])}}
        out.append(dict(copy.deepcopy(base2), transforms={"rows_dimension": rd}))
    for kind, kws in (("mr", STRIPE_OK), ("cat_date", ["population", "population_moe", "percent", "percent_moe"])):
        v = gen.gen_var(rng, kind, "v0", n=5, missing_items=False)
        sv = gen.gen_survey(rng, [v], n_resp=rng.randint(30, 45), weighted=True, skew=False)
        sb = {"vars": [v.to_json()], "survey": gen.survey_to_json(sv), "weighted": True, "min_base": 0,
              "measures": _gen_measures(rng, [v], p=1.1, names=["mean", "sum"]), "population": 1000}
        ins = _at_least_two_insertions(rng, v)
        for kw in kws:
            d = {"order": {"type": "univariate_measure", "measure": kw, "direction": rng.choice(["ascending", "descending"])}}
            if ins:
                d["insertions"] = copy.deepcopy(ins)
            out.append(dict(copy.deepcopy(sb), transforms={"rows_dimension": d}))
    return out


def generate(ctx):
    cases = gen_sweep(ctx.rng)
    if not ctx.quick:
        for _ in range(9):
            cases.extend(gen_sweep(ctx.rng))
    return cases + [gen_case(ctx.rng) for _ in range(ctx.n(200, 3000))]


# ---------------------------------------------------------------------------------------------
# adapter: case -> Lean op


def _dims_of(vars_):
    """(var, role) of the last two apparent dimensions (or the single one)"""
    dv = st.dim_vars(vars_)
    return dv[-2:] if len(dv) >= 2 else dv


def _keys(v, role):
    if role == "cat" and v.kind == "ca":
        return sc.valid_ids(v)
    return sc.element_keys(v)


def _el_transform(d, key):
    el = (d or {}).get("elements", {}) or {}
    x = el.get(str(key))
    if x is None:
        x = el.get(key, {})
    return x if isinstance(x, dict) else {}


def _labels(v, role, d):
    out = []
    if role == "cat":
        for key, (i, c) in zip(_keys(v, role), [(i, c) for i, c in enumerate(v.cats) if not c["missing"]]):
            if v.kind == "binned":
                name = "%d-%d" % (i * 10, i * 10 + 10)       # "-".join of the formatted bounds
            elif v.kind == "datetime":
                name = key                                   # the element value as the payload spells it
            else:
                name = c["name"]
            out.append((key, name))
    else:
        for it in v.items:
            if not it.get("missing"):
                out.append((it["alias"], it["name"]))
    labels = []
    for key, name in out:
        x = _el_transform(d, key)
        if "name" in x:
            labels.append(str(x["name"]) if x["name"] else "")
        else:
            labels.append(name if name else "")
    return labels


def _lean_ins(d):
    base = st.lean_insertion(d)
    if not isinstance(d, dict):
        base.update({"anchor": None, "id": None, "label": ""})
        return base
    a = d.get("anchor")
    if isinstance(a, bool) or not isinstance(a, (int, str, type(None))):
        a = None
    iid = d.get("id")
    name = d.get("name")
    base.update({"anchor": a, "id": iid if isinstance(iid, int) and not isinstance(iid, bool) else None,
                 "label": name if isinstance(name, str) and name else ""})
    return base


def _eid(x):
    if isinstance(x, bool):
        return "bool:%s" % x
    if isinstance(x, (int, str)) or x is None:
        return x
    return repr(x)


def _lean_order(o):
    if not o:
        return None
    out = {"type": o.get("type")}
    out["desc"] = o.get("direction", "descending") != "ascending"
    fx = o.get("fixed", {}) or {}
    out["top"] = [_eid(x) for x in fx.get("top", [])]
    out["bottom"] = [_eid(x) for x in fx.get("bottom", [])]
    t = o.get("type")
    if t == "explicit":
        out["ids"] = [_eid(x) for x in (o.get("element_ids") or [])]
    elif t == "marginal":
        out["kw"] = o.get("marginal")
    elif t == "opposing_element":
        out["id"] = _eid(o.get("element_id"))
        out["kw"] = o.get("measure")
    elif t == "opposing_insertion":
        out["ins_id"] = o.get("insertion_id")
        out["kw"] = o.get("measure")
    elif t == "univariate_measure":
        out["kw"] = o.get("measure")
    return out


def _numvals(v, role):
    if role != "cat" or v.kind not in ("cat", "cat_date", "logical", "ca"):
        return ["nan"] * len(_keys(v, role))
    return ["nan" if c.get("numeric_value") is None else gen.frac_str(Fraction(c["numeric_value"]))
            for c in v.cats if not c["missing"]]


def _valid_item_flat(vars_, flat):
    """a raw flat measure array restricted to the array items not flagged missing (the layout the Lean design has)"""
    import itertools
    shape = gen.raw_shape(vars_)
    keep = []
    for v in vars_:
        if v.is_array:
            keep.append(v.valid_item_pos)
            keep.append(list(range(len(v.cats))))
        else:
            keep.append(list(range(len(v.cats))))
    strides = []
    acc = 1
    for n in reversed(shape):
        strides.append(acc)
        acc *= n
    strides = list(reversed(strides))
    return [flat[sum(i * st for i, st in zip(ix, strides))] for ix in itertools.product(*keep)]


def _measure_ops(case, vars_):
    out = {}
    for name, data in (case.get("measures") or {}).items():
        out[MEASURE_FIELD[name]] = ["nan" if x is None else x for x in _valid_item_flat(vars_, data)]
    out["population"] = case.get("population", 0)
    return out


def _make_cube(case, tr):
    from cr.cube.cube import Cube
    vars_, survey = sc.load(case)
    extra = {}
    for name, data in (case.get("measures") or {}).items():
        extra[name] = [{"?": -1} if x is None else gen.num(Fraction(x)) for x in data]
    resp = gen.cube_response(vars_, survey, case["weighted"], extra_measures=extra or None)
    return Cube(resp, transforms=copy.deepcopy(tr), population=case.get("population", 0))


def lean_dim(v, role, d):
    d = d or {}
    keys = _keys(v, role)
    if role == "cat":
        elems = [{"id": k} for k in keys]
        kind = "cat"
    else:
        elems = [{"id": it["alias"], "derived": bool(it.get("derived")),
                  "anchor": it.get("anchor") if it.get("derived") else None}
                 for it in v.items if not it.get("missing")]
        kind = "mr" if role == "mr" else "arr"
    view = v.view_insertions if (role == "cat" and v.kind != "ca") else None
    out = {"kind": kind, "catdate": role == "cat" and v.kind == "cat_date", "elems": elems,
           "labels": _labels(v, role, d), "numvals": _numvals(v, role),
           "view": [_lean_ins(i) for i in (view or [])],
           "insertions": [_lean_ins(i) for i in d["insertions"]] if "insertions" in d else None,
           "hide": [_el_transform(d, k).get("hide") is True for k in keys],
           "prune": d.get("prune") is True,
           "order": _lean_order(d.get("order"))}
    return out


def lean_ops(case):
    vars_, survey, lv, ls, wdata, udata = sc.lean_inputs(case)
    tr = case["transforms"]
    dims = _dims_of(vars_)
    # the executable twins of the re-indexing theorems on every 12th case or so (a pure function of the case)
    twins = (len(case["survey"]) + len(repr(tr))) % 12 == 5
    if len(dims) == 1:
        (v, role), = dims
        return [dict({"op": "pipe_strand", "vars": lv, "wdata": wdata, "udata": udata, "survey": ls, "twins": twins,
                      "rows": lean_dim(v, role, tr.get("rows_dimension"))}, **_measure_ops(case, vars_))]
    (rv, rrole), (cv, crole) = dims
    rows = lean_dim(rv, rrole, tr.get("rows_dimension"))
    cols = lean_dim(cv, crole, tr.get("columns_dimension"))
    mo = _measure_ops(case, vars_)
    return [dict({"op": "pipe_slice", "vars": lv, "wdata": wdata, "udata": udata, "k": k, "survey": ls, "twins": twins,
                  "rows": rows, "cols": cols}, **mo) for k in range(sc.nparts(vars_))]


# ---------------------------------------------------------------------------------------------
# evaluation


def _strs(x):
    return [str(y) for y in x] if isinstance(x, list) else x


def _lf(m):
    """Lean value -> floats: common.model_to_float plus the Scale model's sqrt(a)/sqrt(b) term"""
    import numpy as np
    if isinstance(m, dict) and "sqrtdivsqrt" in m:
        a, b = (common.model_to_float(x) for x in m["sqrtdivsqrt"])
        with np.errstate(all="ignore"):
            return float(np.sqrt(np.float64(a)) / np.sqrt(np.float64(b)))
    if isinstance(m, list):
        return [_lf(x) for x in m]
    if isinstance(m, dict) and not (set(m) & {"sqrt", "divsqrt", "scale", "normtail2", "ttail2"}):
        return {k: _lf(v) for k, v in m.items()}
    return common.model_to_float(m)


def _near(a, b):
    import math
    if a is None or b is None:
        return a is b
    if math.isnan(a) or math.isnan(b):
        return math.isnan(a) and math.isnan(b)
    if math.isinf(a) or math.isinf(b):
        return a == b
    return abs(a - b) <= 1e-9 * max(1.0, abs(a), abs(b))


EXACT_KEYS = {"col_base_unweighted", "col_base_weighted", "row_base_unweighted", "row_base_weighted",
              "table_base_unweighted", "table_base_weighted", "count_unweighted", "valid_count_unweighted",
              "count_weighted", "valid_count_weighted", "mean", "sum", "stddev", "unweighted_base", "weighted_base",
              "base_unweighted", "base_weighted"}


def _tie_perm(lib_order, lean_order, keys, order_dict):
    """orders computed from exact rationals and from floats may break (near-)ties differently — but only for sort keys
    that involve a division or a square root (dyadic counts, bases and payload values are exact in binary64, and NaN
    keys keep payload order on both sides).  If the two orders list the same vectors and at every position where they
    differ the two vectors have finite, (near-)equal, inexact sort keys, return the map lib position -> lean position,
    else None"""
    import math
    kw = (order_dict or {}).get("measure", (order_dict or {}).get("marginal"))
    if keys is None or kw in EXACT_KEYS or sorted(lib_order) != sorted(lean_order):
        return None
    n = len(keys)
    kf = common.model_to_float(keys)
    for a, b in zip(lib_order, lean_order):
        if a == b:
            continue
        ka, kb = kf[a if a >= 0 else n + a], kf[b if b >= 0 else n + b]
        if math.isnan(ka) or math.isnan(kb) or not _near(ka, kb):
            return None
    return [lean_order.index(x) for x in lib_order]


ROW_VECS = ("row_label_idxs",)
COL_VECS = ("column_label_idxs",)
ROW_POS = ("inserted_row_idxs", "diff_row_idxs", "derived_row_idxs")
COL_POS = ("inserted_column_idxs", "diff_column_idxs", "derived_column_idxs")


def _remap(t, rp, cp, nr, nc):
    """the Lean outputs re-indexed from the Lean display orders to the library's (a pure permutation of displayed
    vectors with tied sort keys)"""
    rp = rp if rp is not None else list(range(nr))
    cp = cp if cp is not None else list(range(nc))

    def mat(m):
        return [[m[i][j] for j in cp] for i in rp]

    def is_mat(m):
        return isinstance(m, list) and len(m) == nr and all(isinstance(r, list) and len(r) == nc for r in m)

    out = {}
    for k, v in t.items():
        if k == "row_order":
            out[k] = [v[i] for i in rp]
        elif k == "column_order":
            out[k] = [v[j] for j in cp]
        elif k in ROW_VECS:
            out[k] = [v[i] for i in rp]
        elif k in COL_VECS:
            out[k] = [v[j] for j in cp]
        elif k in ROW_POS:
            out[k] = [p for p in range(nr) if rp[p] in v]
        elif k in COL_POS:
            out[k] = [p for p in range(nc) if cp[p] in v]
        elif k in ("rows_scale", "columns_scale"):
            perm = rp if k == "rows_scale" else cp
            out[k] = None if v is None else {kk: (None if vv is None else [vv[i] for i in perm]) for kk, vv in v.items()}
        elif k in ("rows_margin_proportion",):
            out[k] = None if v is None else [v[i] for i in rp]
        elif k in ("columns_margin_proportion",):
            out[k] = None if v is None else [v[j] for j in cp]
        elif is_mat(v):
            out[k] = mat(v)
        elif isinstance(v, list) and k in ("rows_margin", "rows_base") and len(v) == nr:
            out[k] = [v[i] for i in rp]
        elif isinstance(v, list) and k in ("columns_margin", "columns_base") and len(v) == nc:
            out[k] = [v[j] for j in cp]
        elif isinstance(v, list) and k in ("table_margin", "table_base"):
            # 1-D along the non-array dimension: the caller knows which; lengths decide unless square
            out[k] = v if (rp == list(range(nr)) and cp == list(range(nc))) else {"skip": True}
        else:
            out[k] = v
    return out


def _cmp(findings, kind, locus, impl, model, detail):
    if isinstance(impl, dict) and "raises" in impl and not (isinstance(model, dict) and "raises" in model):
        # an output that raises under transforms which the model (and the property) says only re-index
        findings.append({"kind": "spec", "locus": locus + ".raises",
                         "detail": "%s impl=%r model=%s" % (detail, impl, sc._short(model))})
        return False
    if isinstance(model, dict) and model.get("skip"):
        return True
    return sc.compare(findings, kind, locus, impl, _lf(model), detail)


def _pick(seq, idxs):
    try:
        return [seq[i] for i in idxs]
    except (IndexError, TypeError):
        return {"raises": "adapter-index"}


def _label_like(findings, part, dim, axis, idxs, prefix, detail):
    """labels / codes / aliases / fills read the element the label-index names"""
    def one(locus, got, base):
        got = _strs(common.call_impl(got))
        exp = _strs(_pick(common.call_impl(base), idxs))
        if got != exp:
            findings.append({"kind": "model", "locus": locus,
                             "detail": "%s impl=%s expected=%s (positions %r of elements ++ subtotals)" % (
                                 detail, sc._short(got), sc._short(exp), idxs)})
    one("%s.%s_labels" % (prefix, axis), lambda: getattr(part, "%s_labels" % axis),
        lambda: list(dim.element_labels) + list(dim.subtotal_labels))
    one("%s.%s_codes" % (prefix, axis), lambda: getattr(part, "%s_codes" % axis),
        lambda: list(dim.element_ids) + list(dim.insertion_ids))
    one("%s.%s_aliases" % (prefix, axis), lambda: getattr(part, "%s_aliases" % axis),
        lambda: list(dim.element_aliases) + list(dim.subtotal_aliases))
    if axis == "row":
        one("%s.rows_dimension_fills" % prefix, lambda: part.rows_dimension_fills,
            lambda: [e.fill for e in dim.valid_elements] + [s.fill for s in dim.subtotals])


def _visible_spec(d, hide, empty):
    prune = (d or {}).get("prune") is True
    return [i for i in range(len(hide)) if not hide[i] and not (prune and empty[i])]



def _tiny_regime(case):
    from fractions import Fraction as _F
    ws = [_F(w) for w, _ in case.get("survey") or []]
    return bool(case.get("weighted")) and bool(ws) and max(ws) < _F(1, 2 ** 20)


def evaluate(case, louts, ctx):
    vars_, survey = sc.load(case)
    kinds = sc.kinds_of(vars_)
    ctx.count("pipe.kinds:" + "x".join(kinds))
    tr = case["transforms"]
    findings = []
    key = None
    for dn in ("rows_dimension", "columns_dimension"):
        o = (tr.get(dn) or {}).get("order")
        if o:
            ctx.count("pipe.order:%s" % o.get("type"))
    try:
        cube = _make_cube(case, tr)
        nparts_impl = len(cube.partitions)
    except Exception as e:  # noqa
        return [{"kind": "model", "locus": "pipeline.cube-construction", "detail": "%s: %s" % (type(e).__name__, e)}], None
    dims = _dims_of(vars_)
    ops = lean_ops(case)
    if len(dims) == 1:
        return _eval_strand(case, cube, dims[0], ops[0], louts[0], ctx, kinds, tr)
    (rv, rrole), (cv, crole) = dims
    rd, cd = tr.get("rows_dimension") or {}, tr.get("columns_dimension") or {}
    if nparts_impl != len(louts):
        findings.append({"kind": "model", "locus": "pipeline.npartitions", "detail": "%d vs %d" % (nparts_impl, len(louts))})
        return findings, None
    for k, lo in enumerate(louts):
        sl = cube.partitions[k]
        det = "k=%d" % k
        ro = common.call_impl(lambda: sl.row_order())
        co = common.call_impl(lambda: sl.column_order())
        if "raises" in lo:
            if not (isinstance(ro, dict) or isinstance(co, dict)):
                findings.append({"kind": "model", "locus": "pipeline.slice.raises", "detail": "model raises, impl %r %r" % (ro, co)})
            ctx.count("pipe.raises")
            continue
        if not lo["wf"] or not lo["blocks_equal"] or not lo["reindex_equal"]:
            raise common.HarnessFault("pipeline op side conditions failed (wf=%s blocks_equal=%s reindex_equal=%s) on %s" % (
                lo["wf"], lo["blocks_equal"], lo["reindex_equal"], sc._short(ops[k])))
        t = lo["t"]
        if not isinstance(ro, list) or not isinstance(co, list):
            findings.append({"kind": "model", "locus": "pipeline.slice.order-raises", "detail": "%s impl %r %r model %r %r" % (
                det, ro, co, t["row_order"], t["column_order"])})
            continue
        det = "k=%d row_order=%r column_order=%r" % (k, ro, co)
        # the model sorts exact rationals, the library floats: (near-)ties may be broken differently
        rp = cp = None
        if ro != t["row_order"]:
            rp = _tie_perm(ro, t["row_order"], lo.get("row_sort_keys"), rd.get("order"))
        if co != t["column_order"]:
            cp = _tie_perm(co, t["column_order"], lo.get("column_sort_keys"), cd.get("order"))
        if rp is not None or cp is not None:
            ctx.count("pipe.near_tie_reordered")
            t = _remap(t, rp, cp, len(t["row_order"]), len(t["column_order"]))
        ok_r = _cmp(findings, "model", "pipeline.slice.row_order", ro, t["row_order"], det)
        ok_c = _cmp(findings, "model", "pipeline.slice.column_order", co, t["column_order"], det)
        # property level (slice_order_nodup / slice_order_subset): never twice, only vectors of the stripped order
        for nm, o, o0 in (("row", ro, lo["strip"]["row_order"]), ("column", co, lo["strip"]["column_order"])):
            if len(set(o)) != len(o):
                findings.append({"kind": "spec", "locus": "pipeline.slice.%s_order.duplicate" % nm, "detail": "%s" % det})
            if not set(o) <= set(o0):
                findings.append({"kind": "spec", "locus": "pipeline.slice.%s_order.not-in-stripped-order" % nm,
                                 "detail": "%s stripped order %r" % (det, o0)})
        _cmp(findings, "model", "pipeline.slice.shape", common.call_impl(lambda: sl.shape), t["shape"], det)
        for nm in ("inserted_row_idxs", "inserted_column_idxs", "diff_row_idxs", "diff_column_idxs",
                   "derived_row_idxs", "derived_column_idxs"):
            _cmp(findings, "model", "pipeline.slice.%s" % nm, common.call_impl(lambda: getattr(sl, nm)), t[nm], det)
        for nm in MATS:
            if nm == "column_index" and _missing_array_item(vars_):
                ctx.count("excluded:column_index.missing-array-item")
                continue
            _cmp(findings, "model", "pipeline.slice.%s" % nm, common.call_impl(lambda: getattr(sl, nm)), t[nm], det)
        for nm in MARGS:
            _cmp(findings, "model", "pipeline.slice.%s" % nm, common.call_impl(lambda: getattr(sl, nm)), t[nm], det)
        have = set((case.get("measures") or {}).keys())
        for nm, need in NUMERIC_MATS.items():
            got = common.call_impl(lambda: getattr(sl, nm))
            if need in have:
                _cmp(findings, "model", "pipeline.slice.%s" % nm, got, t[nm], det)
            elif not (isinstance(got, dict) and got.get("raises") == "ValueError") or t[nm] is not None:
                findings.append({"kind": "model", "locus": "pipeline.slice.%s.absent-measure" % nm,
                                 "detail": "%s impl=%s model=%s" % (det, sc._short(got), sc._short(t[nm]))})
        for axis in ("rows", "columns"):
            sv = t["%s_scale" % axis]
            for lib_nm, fld in (("scale_mean", "mean"), ("scale_median", "median"), ("scale_mean_stddev", "stddev"),
                                ("scale_mean_stderr", "stderr")):
                got = common.call_impl(lambda: getattr(sl, "%s_%s" % (axis, lib_nm)))
                exp = None if sv is None else sv[fld]
                if lib_nm == "scale_mean_stderr" and _tiny_regime(case):
                    # all weights x 2^-40: std-err = (rounding-level std-dev ~1e-15 where the exact value is 0) / sqrt(margin ~1e-11)
                    # lifts float cancellation to ~1e-9 against the exact model - rounding, not a defect (DESIGN section 10)
                    ctx.count("skipped:scale_mean_stderr.tiny-weight-regime")
                    continue
                _cmp(findings, "model", "pipeline.slice.%s_%s" % (axis, lib_nm), got, exp, det)
            mp = t["%s_margin_proportion" % axis]
            if mp is not None:      # 1-D case only (the 2-D fallback across an array dimension is known finding F13)
                _cmp(findings, "model", "pipeline.slice.%s_margin_proportion" % axis,
                     common.call_impl(lambda: getattr(sl, "%s_margin_proportion" % axis)), mp, det)
        try:
            rdim, cdim = sl._dimensions
        except Exception as e:  # noqa
            rdim = cdim = None
        if rdim is not None:
            _label_like(findings, sl, rdim, "row", t["row_label_idxs"], "pipeline.slice", det)
            _label_like(findings, sl, cdim, "column", t["column_label_idxs"], "pipeline.slice", det)
            # adapter sanity: the labels the model sorted by are the library's
            for dim, ld, nm in ((rdim, ops[k]["rows"], "rows"), (cdim, ops[k]["cols"], "cols")):
                got = common.call_impl(lambda: list(dim.element_labels))
                if got != ld["labels"]:
                    o = ((rd if nm == "rows" else cd).get("order") or {})
                    if o.get("type") == "label":
                        findings.append({"kind": "model", "locus": "pipeline.adapter.labels",
                                         "detail": "%s labels impl %r adapter %r" % (nm, got, ld["labels"])})
        # ---- respondent level (property statements): base cells at the positions the REPORTED orders name ----
        spec = lo.get("spec")
        if spec:
            for nm in SPEC_MATS:
                m = common.call_impl(lambda: getattr(sl, nm))
                sm = common.model_to_float(spec[nm])
                if not (isinstance(m, list) and len(m) == len(ro) and all(isinstance(r, list) and len(r) == len(co) for r in m)):
                    if len(ro) and len(co):
                        findings.append({"kind": "spec", "locus": "pipeline.slice.%s.extent" % nm,
                                         "detail": "%s value %s" % (det, sc._short(m))})
                    continue
                bad = None
                for p, x in enumerate(ro):
                    for q, y in enumerate(co):
                        if x >= 0 and y >= 0 and not common.num_close(m[p][q], sm[x][y]):
                            bad = bad or (p, q, m[p][q], sm[x][y])
                if bad:
                    findings.append({"kind": "spec", "locus": "pipeline.slice.%s.base-cell-vs-respondents" % nm,
                                     "detail": "%s displayed cell (%d,%d) = %r but the respondents of element (%d,%d) give %r" % (
                                         det, bad[0], bad[1], bad[2], ro[bad[0]], co[bad[1]], bad[3])})
            # visibility: hidden iff asked, pruned iff no eligible respondent (unweighted)
            urow, ucol, utab = (common.model_to_float(spec[n]) for n in
                                ("row_unweighted_bases", "column_unweighted_bases", "table_unweighted_bases"))
            rk, ck = kinds[-2], kinds[-1]
            nr, nc = len(ops[k]["rows"]["elems"]), len(ops[k]["cols"]["elems"])
            if rk == "mr" and ck == "cat":
                rows_empty = [nc == 0 or utab[i][0] == 0 for i in range(nr)]
            elif rk == "mr" and ck != "mr":
                rows_empty = [sum(ucol[i]) == 0 for i in range(nr)]
            else:
                rows_empty = [sum(urow[i]) == 0 for i in range(nr)]
            if ck == "mr" and rk == "cat":
                cols_empty = [nr == 0 or utab[0][j] == 0 for j in range(nc)]
            elif ck == "mr" and rk != "mr":
                cols_empty = [sum(urow[i][j] for i in range(nr)) == 0 for j in range(nc)]
            else:
                cols_empty = [sum(ucol[i][j] for i in range(nr)) == 0 for j in range(nc)]
            exp_r = _visible_spec(rd, ops[k]["rows"]["hide"], rows_empty)
            exp_c = _visible_spec(cd, ops[k]["cols"]["hide"], cols_empty)
            sc.compare(findings, "spec", "pipeline.slice.row_order.visible-base", sorted(x for x in ro if x >= 0), exp_r,
                       "%s hide=%s prune=%s empty=%s" % (det, ops[k]["rows"]["hide"], rd.get("prune"), rows_empty))
            sc.compare(findings, "spec", "pipeline.slice.column_order.visible-base", sorted(x for x in co if x >= 0), exp_c,
                       "%s hide=%s prune=%s empty=%s" % (det, ops[k]["cols"]["hide"], cd.get("prune"), cols_empty))
            n_rsub = 0 if (cd.get("prune") is True and all(cols_empty)) else lo["n_row_subtotals"]
            n_csub = 0 if (rd.get("prune") is True and all(rows_empty)) else lo["n_col_subtotals"]
            sc.compare(findings, "spec", "pipeline.slice.row_order.subtotals-present", sorted(x for x in ro if x < 0),
                       list(range(-n_rsub, 0)), det)
            sc.compare(findings, "spec", "pipeline.slice.column_order.subtotals-present", sorted(x for x in co if x < 0),
                       list(range(-n_csub, 0)), det)
            ctx.count("pipe.pruned_rows", sum(1 for i in range(nr) if rd.get("prune") is True and rows_empty[i]))
            ctx.count("pipe.pruned_cols", sum(1 for j in range(nc) if cd.get("prune") is True and cols_empty[j]))
            ctx.count("pipe.subtotals_pruned", int(n_rsub != lo["n_row_subtotals"]) + int(n_csub != lo["n_col_subtotals"]))
        s0 = lo["strip"]
        if ok_r and ok_c and (t["row_order"] != s0["row_order"] or t["column_order"] != s0["column_order"]):
            key = ("x".join(kinds), repr(tr), tuple(ro), tuple(co))
    return findings, key


def _eval_strand(case, cube, dim, op, lo, ctx, kinds, tr):
    findings = []
    key = None
    v, role = dim
    rd = tr.get("rows_dimension") or {}
    st_ = cube.partitions[0]
    ro = common.call_impl(lambda: st_.row_order())
    if "raises" in lo:
        if not isinstance(ro, dict):
            findings.append({"kind": "model", "locus": "pipeline.strand.raises", "detail": "model raises, impl %r" % (ro,)})
        return findings, None
    if not lo["wf"] or not lo["blocks_equal"] or not lo["reindex_equal"]:
        raise common.HarnessFault("pipeline strand op side conditions failed (wf=%s blocks_equal=%s reindex_equal=%s) on %s" % (
            lo["wf"], lo["blocks_equal"], lo["reindex_equal"], sc._short(op)))
    t = lo["t"]
    if not isinstance(ro, list):
        findings.append({"kind": "model", "locus": "pipeline.strand.order-raises", "detail": "impl %r model %r" % (ro, t["row_order"])})
        return findings, None
    det = "row_order=%r" % (ro,)
    if ro != t["row_order"]:
        rp = _tie_perm(ro, t["row_order"], lo.get("row_sort_keys"), rd.get("order"))
        if rp is not None:
            ctx.count("pipe.near_tie_reordered")
            n = len(ro)
            pos_keys = ("inserted_row_idxs", "diff_row_idxs", "derived_row_idxs")
            t = {k2: ([p2 for p2 in range(n) if rp[p2] in v2] if k2 in pos_keys
                      else ([v2[i] for i in rp] if (isinstance(v2, list) and len(v2) == n and k2 != "shape") else v2))
                 for k2, v2 in t.items()}
    ok = _cmp(findings, "model", "pipeline.strand.row_order", ro, t["row_order"], det)
    if len(set(ro)) != len(ro):
        findings.append({"kind": "spec", "locus": "pipeline.strand.row_order.duplicate", "detail": det})
    if not set(ro) <= set(lo["strip"]["row_order"]):
        findings.append({"kind": "spec", "locus": "pipeline.strand.row_order.not-in-stripped-order",
                         "detail": "%s stripped order %r" % (det, lo["strip"]["row_order"])})
    _cmp(findings, "model", "pipeline.strand.shape", common.call_impl(lambda: st_.shape), t["shape"], det)
    for nm in ("inserted_row_idxs", "diff_row_idxs", "derived_row_idxs"):
        _cmp(findings, "model", "pipeline.strand.%s" % nm, common.call_impl(lambda: getattr(st_, nm)), t[nm], det)
    for nm in STRAND_VECS:
        _cmp(findings, "model", "pipeline.strand.%s" % nm, common.call_impl(lambda: getattr(st_, nm)), t[nm], det)
    have = set((case.get("measures") or {}).keys())
    for nm, need in STRAND_NUMERIC.items():
        got = common.call_impl(lambda: getattr(st_, nm))
        if need in have:
            _cmp(findings, "model", "pipeline.strand.%s" % nm, got, t[nm], det)
        elif not (isinstance(got, dict) and got.get("raises") == "ValueError") or t[nm] is not None:
            findings.append({"kind": "model", "locus": "pipeline.strand.%s.absent-measure" % nm,
                             "detail": "%s impl=%s model=%s" % (det, sc._short(got), sc._short(t[nm]))})
    for nm in ("scale_mean", "scale_median", "scale_std_dev", "scale_std_err"):
        if nm == "scale_std_err" and _tiny_regime(case):
            continue    # see the slice twin: float cancellation lifted by 1/sqrt(tiny margin)
        _cmp(findings, "model", "pipeline.strand.%s" % nm, common.call_impl(lambda: getattr(st_, nm)), t[nm], det)
    _cmp(findings, "model", "pipeline.strand.rows_base", common.call_impl(lambda: st_.rows_base), t["unweighted_counts"], det)
    _cmp(findings, "model", "pipeline.strand.rows_margin", common.call_impl(lambda: st_.rows_margin), t["counts"], det)
    try:
        rdim = st_._rows_dimension
    except Exception:  # noqa
        rdim = None
    if rdim is not None:
        _label_like(findings, st_, rdim, "row", t["row_label_idxs"], "pipeline.strand", det)
        got = common.call_impl(lambda: list(rdim.element_labels))
        if got != op["rows"]["labels"] and (rd.get("order") or {}).get("type") == "label":
            findings.append({"kind": "model", "locus": "pipeline.adapter.labels",
                             "detail": "labels impl %r adapter %r" % (got, op["rows"]["labels"])})
    spec = lo.get("spec")
    if spec:
        for nm in STRAND_SPEC:
            m = common.call_impl(lambda: getattr(st_, nm))
            sm = common.model_to_float(spec[nm])
            if not (isinstance(m, list) and len(m) == len(ro)):
                findings.append({"kind": "spec", "locus": "pipeline.strand.%s.extent" % nm, "detail": "%s value %s" % (det, sc._short(m))})
                continue
            for p, x in enumerate(ro):
                if x >= 0 and not common.num_close(m[p], sm[x]):
                    findings.append({"kind": "spec", "locus": "pipeline.strand.%s.base-cell-vs-respondents" % nm,
                                     "detail": "%s displayed row %d = %r but the respondents of element %d give %r" % (det, p, m[p], x, sm[x])})
                    break
        ub = common.model_to_float(spec["unweighted_bases"])
        uc = common.model_to_float(spec["unweighted_counts"])
        n = len(op["rows"]["elems"])
        empty = [(ub[i] == 0) if kinds == ["mr"] else (uc[i] == 0) for i in range(n)]
        exp = _visible_spec(rd, op["rows"]["hide"], empty)
        sc.compare(findings, "spec", "pipeline.strand.row_order.visible-base", sorted(x for x in ro if x >= 0), exp,
                   "%s hide=%s prune=%s empty=%s" % (det, op["rows"]["hide"], rd.get("prune"), empty))
        sc.compare(findings, "spec", "pipeline.strand.row_order.subtotals-present", sorted(x for x in ro if x < 0),
                   list(range(-lo["n_row_subtotals"], 0)), det)
    if ok and t["row_order"] != lo["strip"]["row_order"]:
        key = ("x".join(kinds), repr(tr), tuple(ro))
    return findings, key


def describe(case):
    d = sc.describe(case)
    d["transforms"] = case["transforms"]
    d["view_insertions"] = [v.get("view_insertions") for v in case["vars"]]
    return d


shrink_candidates = sc.shrink_candidates
