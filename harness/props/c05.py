"""C05 — display transforms only select and reorder; every output stays aligned.

For transforms t and t0 = strip(t) (order / fixed lists / hide / prune removed; insertions,
names, fills kept) EVERY public array property of the partition under t must equal the
property under t0 re-indexed by the reported display orders; scalars are unchanged; the order
never lists an element or subtotal twice; extents match `shape`.
"""
import copy
import common
import gen
from fractions import Fraction
from props import _slice_common as sc

PROPERTY = "C05"
LEAN_MODULE = "CrCube.Props.C05"
THEOREMS = [
    "CrCube.C05.matrix_reindexed",
    "CrCube.C05.vector_reindexed",
    "CrCube.C05.extent_matches",
    "CrCube.C05.aligned",
    "CrCube.C05.neg_index_is_insertion",
]
RULE = ("random 1-D / 2-D / 3-D designs over cat/cat_date/mr/text/datetime/ca (with mean/sum/stddev measures on some) x "
        "random surveys x transform dictionaries combining explicit / payload / label / marginal / opposing-element / "
        "opposing-insertion / univariate-measure orders, both directions, fixed top/bottom lists WITH repeats and stale "
        "ids, per-element hide flags, prune flags on both dimensions, insertions incl. differences; all lazyproperties "
        "of _Slice/_Strand (introspected) are compared under t and strip(t); non-trivial = the order under t differs "
        "from the order under strip(t); distinct = (kinds, transforms, orders)")
ASSUMPTIONS = ["strip(t) keeps insertions (with their own hide flag), names and fills; removes order, fixed, element hide, prune"]

MEASURE_KW = ["col_percent", "row_percent", "table_percent", "count_weighted", "count_unweighted", "col_base_unweighted",
              "row_base_weighted", "table_base_unweighted", "z_score", "p_value", "col_index", "col_std_err", "row_std_dev",
              "table_std_err", "population", "population_moe", "col_percent_moe", "mean", "sum", "stddev", "col_share_sum",
              "row_share_sum", "total_share_sum", "table_std_dev", "bogus_measure"]
MARGINAL_KW = ["unweighted_base", "weighted_base", "table_proportion", "scale_mean", "scale_mean_stddev",
               "scale_mean_stderr", "scale_median"]

# properties that ARE the order / depend on position by construction, handled specially or skipped
SKIP = {"row_order", "column_order", "shape", "is_empty", "inserted_row_idxs", "inserted_column_idxs", "diff_row_idxs",
        "diff_column_idxs", "derived_row_idxs", "derived_column_idxs", "pairwise_indices", "pairwise_indices_alt",
        "pairwise_means_indices", "pairwise_means_indices_alt", "pairwise_significance_tests", "min_base_size_mask",
        "payload_order", "has_scale_means", "selected_category_labels", "row_count", "column_count",
        # legacy PairwiseSignificance summaries: position-valued unions over the DISPLAYED rows (no renumbering rule
        # is stated for them); not compared
        "summary_pairwise_indices", "columns_scale_mean_pairwise_indices", "columns_scale_mean_pairwise_indices_alt"}
SKIP_PREFIX = ("_",)


def _lazy_names(cls):
    from cr.cube.util import lazyproperty
    out = []
    for n in dir(cls):
        if n.startswith(SKIP_PREFIX) or n in SKIP:
            continue
        a = getattr(cls, n, None)
        if isinstance(a, (lazyproperty, property)):
            out.append(n)
    return sorted(out)


def gen_order(rng, v, opp, dim_insertions, opp_insertions, strand=False):
    ids = sc.element_keys(v)
    kind = rng.choice(["none", "explicit", "payload", "label", "marginal", "opp_el", "opp_ins", "uni"] if not strand
                      else ["none", "explicit", "payload", "label", "uni", "uni"])
    if kind == "none":
        return None
    o = {}
    if kind == "explicit":
        l = list(ids) + [999]
        rng.shuffle(l)
        l = l[: rng.randint(0, len(l))]
        if l and rng.random() < 0.3:
            l.append(l[0])
        return {"type": "explicit", "element_ids": l}
    if kind == "payload":
        return {"type": "payload_order"}
    if kind == "label":
        o = {"type": "label"}
    elif kind == "marginal":
        o = {"type": "marginal", "marginal": rng.choice(MARGINAL_KW)}
    elif kind == "opp_el":
        oids = sc.element_keys(opp) if opp is not None else []
        o = {"type": "opposing_element", "element_id": rng.choice(oids + [998]) if oids else 998,
             "measure": rng.choice(MEASURE_KW)}
    elif kind == "opp_ins":
        iids = [i.get("id") for i in opp_insertions] + [77]
        o = {"type": "opposing_insertion", "insertion_id": rng.choice(iids), "measure": rng.choice(MEASURE_KW)}
    else:
        o = {"type": "univariate_measure", "measure": rng.choice(MEASURE_KW)}
    if rng.random() < 0.5:
        o["direction"] = rng.choice(["ascending", "descending"])
    if rng.random() < 0.5 and ids:
        fx = {}
        for side in ("top", "bottom"):
            if rng.random() < 0.6:
                l = [rng.choice(ids + [997]) for _ in range(rng.randint(1, 3))]
                fx[side] = l
        if fx:
            o["fixed"] = fx
    return o


def gen_dim(rng, v, opp, opp_ins, strand=False):
    d = {}
    ins = sc.gen_insertions(rng, v, allow_diff=True, allow_hide=True)
    if ins and rng.random() < 0.7:
        d["insertions"] = ins
    if rng.random() < 0.5:
        d["prune"] = True
    el = {}
    for kx in sc.element_keys(v):
        r = rng.random()
        if r < 0.2:
            el[str(kx)] = {"hide": True}
        elif r < 0.3:
            el[str(kx)] = {"name": "renamed %s" % kx, "fill": "#0%s" % (abs(hash(str(kx))) % 99999)}
    if el:
        d["elements"] = el
    o = gen_order(rng, v, opp, d.get("insertions", []), opp_ins, strand)
    if o is not None:
        d["order"] = o
    return d


def gen_case(rng):
    nd = rng.choice([1, 2, 2, 2, 2, 3])
    kinds = [rng.choice(["cat", "cat", "mr", "cat_date", "text", "datetime"]) for _ in range(nd)]
    if nd == 2 and rng.random() < 0.1:
        kinds = ["ca"]
    case = sc.gen_case(rng, kinds=kinds, max_n=4, derived_items=True)
    vars_, survey = sc.load(case)
    if kinds == ["ca"]:
        case["transforms"] = {}
        d = {}
        if rng.random() < 0.5:
            d["prune"] = True
        el = {str(k): {"hide": True} for k in sc.element_keys(vars_[0]) if rng.random() < 0.3}
        if el:
            d["elements"] = el
        case["transforms"] = {"rows_dimension": d}
    elif nd == 1:
        case["transforms"] = {"rows_dimension": gen_dim(rng, vars_[0], None, [], strand=True)}
    else:
        R, C = vars_[-2], vars_[-1]
        cd = gen_dim(rng, C, R, [])
        rd = gen_dim(rng, R, C, cd.get("insertions", []))
        if "order" in cd and cd["order"].get("type") == "opposing_insertion":
            cd["order"]["insertion_id"] = rng.choice([i.get("id") for i in rd.get("insertions", [])] + [78])
        if C.kind == "cat_date" and rng.random() < 0.6:
            # smoothing runs over ALL periods before anything is hidden, pruned or re-ordered: the smoothed outputs
            # re-index like every other measure
            cd["smoother"] = {"function": "one_sided_moving_avg", "window": rng.choice([1, 2, 2, 3])}
        case["transforms"] = {"rows_dimension": rd, "columns_dimension": cd}
    # F51 (not a finding: missing array items are not evidenced in payloads): the column index is undefined when an
    # array item is flagged missing, and so is a sort by it
    if any(v.is_array and any(it.get("missing") for it in v.items) for v in vars_[-2:]):
        for d in case["transforms"].values():
            o = d.get("order") if isinstance(d, dict) else None
            if isinstance(o, dict) and o.get("measure") == "col_index":
                o["measure"] = "col_percent"
    # numeric measures on some cases
    if rng.random() < 0.35:
        tot = 1
        for x in gen.raw_shape(vars_):
            tot *= x
        ms = {}
        for name in rng.sample(["mean", "sum", "stddev"], rng.randint(1, 2)):
            ms[name] = [gen.frac_str(Fraction(rng.randint(0, 40), rng.choice([1, 2, 4]))) if rng.random() < 0.9 else None
                        for _ in range(tot)]
        case["measures"] = ms
    case["population"] = rng.choice([0, 1000])
    if rng.random() < 0.3:
        case["pairwise"] = {"alpha": rng.choice([[0.05], [0.05, 0.2], [0.3]]), "only_larger": rng.random() < 0.5}
    return case


def gen_smooth_case(rng):
    """categorical-date columns with a smoother, an EMPTY wave that is not the last one, and hide / prune / order on the
    columns: the smoothed series is computed over all periods first (an empty wave poisons its windows), then re-indexed"""
    case = sc.gen_case(rng, kinds=[rng.choice(["cat", "cat", "mr"]), "cat_date"], max_n=6, n_resp=rng.randint(8, 40))
    vars_, survey = sc.load(case)
    C = vars_[-1]
    vpos = C.valid_cat_pos
    if len(vpos) >= 3:
        hole = rng.choice(vpos[:-1])
        others = [p for p in vpos if p != hole]
        survey = [(w, [a[0], [rng.choice(others)] if a[1] == [hole] else a[1]]) for w, a in survey]
        case["survey"] = gen.survey_to_json(survey)
    cd = gen_dim(rng, C, vars_[-2], [])
    cd["prune"] = rng.random() < 0.7
    cd["smoother"] = {"function": "one_sided_moving_avg", "window": rng.choice([2, 2, 3])}
    rd = gen_dim(rng, vars_[-2], C, cd.get("insertions", []))
    for d in (rd, cd):
        if isinstance(d.get("order"), dict) and d["order"].get("type") == "opposing_insertion":
            del d["order"]
    case["transforms"] = {"rows_dimension": rd, "columns_dimension": cd}
    case["population"] = 0
    return case


def generate(ctx):
    return [gen_case(ctx.rng) for _ in range(ctx.n(160, 2500))] + [gen_smooth_case(ctx.rng) for _ in range(ctx.n(20, 300))]


def lean_ops(case):
    return []


def strip(tr):
    out = {}
    for k, d in tr.items():
        if not isinstance(d, dict) or k not in ("rows_dimension", "columns_dimension"):
            out[k] = copy.deepcopy(d)
            continue
        nd = {}
        for kk, vv in d.items():
            if kk in ("order", "prune"):
                continue
            if kk == "elements":
                el = {}
                for eid, x in vv.items():
                    y = {a: b for a, b in x.items() if a != "hide"}
                    if y:
                        el[eid] = y
                if el:
                    nd["elements"] = el
                continue
            nd[kk] = copy.deepcopy(vv)
        out[k] = nd
    return out


def _cube(case, tr):
    from cr.cube.cube import Cube
    vars_, survey = sc.load(case)
    extra = {}
    for name, data in (case.get("measures") or {}).items():
        extra[name] = [{"?": -1} if x is None else gen.num(Fraction(x)) for x in data]
    resp = gen.cube_response(vars_, survey, case["weighted"], extra_measures=extra or None)
    t = copy.deepcopy(tr)
    if case.get("pairwise"):
        t["pairwise_indices"] = copy.deepcopy(case["pairwise"])
    return Cube(resp, transforms=t, population=case.get("population", 0))


SCALE_MARGINS = ("columns_scale_mean_margin", "rows_scale_mean_margin", "columns_scale_median_margin",
                 "rows_scale_median_margin")


def _asis_scale_margin(name, p_t, vars_, ro_t, co_t):
    """what the code computes today: the scalar is derived from the DISPLAYED vectors (hidden / pruned elements left
    out, inserted vectors present, first displayed opposing vector taken as the margin)."""
    import math
    import numpy as np
    try:
        ca = len(vars_) == 1 and vars_[0].kind == "ca"
        if name.startswith("columns_"):
            v = None if ca else vars_[-2]
            order = ro_t
            getm = lambda: np.array(p_t.row_weighted_bases, dtype=float)[:, 0]
        else:
            v = vars_[0] if ca else vars_[-1]
            order = co_t
            getm = lambda: np.array(p_t.column_weighted_bases, dtype=float)[0, :]
        if v is None or (v.is_array and not ca):
            return None
        vals = [c.get("numeric_value") for c in v.cats if not c["missing"]]
        nv = np.array([float("nan") if (i < 0 or vals[i] is None) else float(vals[i]) for i in order], dtype=float)
        if np.all(np.isnan(nv)):
            return None
        m = getm()
        if np.all(np.isnan(nv)):
            return None
        ok = ~np.isnan(nv)
        with np.errstate(all="ignore"):
            if "mean" in name:
                return common.impl_canon(np.nansum(nv * m) / np.sum(m[ok]))
            counts = np.nan_to_num(m[ok]).astype("int64")
            un = np.repeat(nv[ok], counts)
            return common.impl_canon(np.median(un)) if un.size else None
    except Exception as e:  # noqa
        return {"raises": type(e).__name__}


def _is_mat(x):
    return isinstance(x, list) and len(x) > 0 and all(isinstance(r, list) for r in x)


def evaluate(case, louts, ctx):
    from cr.cube.cubepart import _Slice, _Strand
    vars_, survey = sc.load(case)
    kinds = sc.kinds_of(vars_)
    ctx.count("kinds:" + "x".join(kinds))
    tr = case["transforms"]
    for d in tr.values():
        if isinstance(d, dict) and "order" in d:
            ctx.count("order:" + str(d["order"].get("type")))
    findings = []
    key = None
    c_t = _cube(case, tr)
    c_0 = _cube(case, strip(tr))
    nparts = sc.nparts(vars_) if len(kinds) >= 2 else 1
    for k in range(nparts):
        p_t, p_0 = c_t.partitions[k], c_0.partitions[k]
        is_slice = len(kinds) >= 2
        ro_t = common.call_impl(lambda: p_t.row_order())
        ro_0 = common.call_impl(lambda: p_0.row_order())
        if not isinstance(ro_t, list) or not isinstance(ro_0, list):
            findings.append({"kind": "spec", "locus": "order.raises", "detail": "row_order %r / %r" % (ro_t, ro_0)})
            continue
        if is_slice:
            co_t = common.call_impl(lambda: p_t.column_order())
            co_0 = common.call_impl(lambda: p_0.column_order())
            if not isinstance(co_t, list) or not isinstance(co_0, list):
                findings.append({"kind": "spec", "locus": "order.raises", "detail": "column_order %r / %r" % (co_t, co_0)})
                continue
        else:
            co_t, co_0 = [], []
        for nm, o, o0 in (("row", ro_t, ro_0), ("column", co_t, co_0)):
            if len(set(o)) != len(o):
                findings.append({"kind": "spec", "locus": "order.%s.duplicate" % nm, "detail": "order %r" % (o,)})
            if not set(o) <= set(o0):
                findings.append({"kind": "spec", "locus": "order.%s.not-subset" % nm, "detail": "%r vs untransformed %r" % (o, o0)})
        if findings:
            continue
        rmap = [ro_0.index(x) for x in ro_t]
        cmap = [co_0.index(x) for x in co_t]
        R_t, C_t, R_0, C_0 = len(ro_t), len(co_t), len(ro_0), len(co_0)
        shape = common.call_impl(lambda: p_t.shape)
        exp_shape = [R_t, C_t] if is_slice else [R_t]
        sc.compare(findings, "spec", "shape", shape, exp_shape, "k=%d" % k)
        ck = kinds[-1] if is_slice else None
        names = _lazy_names(_Slice if is_slice else _Strand)
        for name in names:
            v_t = common.call_impl(lambda: getattr(p_t, name))
            v_0 = common.call_impl(lambda: getattr(p_0, name))
            locus = "%s.%s" % ("slice" if is_slice else "strand", name)
            array_crossing = "margin_proportion" in name and is_slice and ("mr" in kinds[-2:] or "arr" in kinds[-2:])
            if array_crossing:
                locus = "slice.%s.array-crossing" % name
            if is_slice and name in SCALE_MARGINS and not common.deep_close(v_t, v_0)[0]:
                asis = _asis_scale_margin(name, p_t, vars_, ro_t, co_t)
                if common.deep_close(v_t, asis)[0] or (isinstance(v_t, dict) and (R_t == 0 or C_t == 0)):
                    locus = "slice.%s.computed-from-displayed-vectors" % name
                findings.append({"kind": "spec", "locus": locus,
                                 "detail": "k=%d scalar changes under display transforms: t=%s strip(t)=%s as-is model=%s row_order=%r col_order=%r" % (
                                     k, sc._short(v_t), sc._short(v_0), sc._short(asis), ro_t, co_t)})
                continue
            if isinstance(v_0, dict) and "raises" in v_0:
                if v_t != v_0:
                    findings.append({"kind": "spec", "locus": locus if array_crossing else locus + ".raises-differs",
                                     "detail": "under t: %s ; under strip(t): %s" % (sc._short(v_t), sc._short(v_0))})
                continue
            if isinstance(v_t, dict) and "raises" in v_t:
                findings.append({"kind": "spec", "locus": locus if array_crossing else locus + ".raises-under-transforms",
                                 "detail": "under t: %s ; under strip(t): %s" % (sc._short(v_t), sc._short(v_0))})
                continue
            exp = None
            if name == "residual_test_stats" and isinstance(v_0, list) and len(v_0) == 2:
                exp = [[[m[i][j] for j in cmap] for i in rmap] for m in v_0]
            elif is_slice and _is_mat(v_0) and len(v_0) == R_0 and all(len(r) == C_0 for r in v_0):
                exp = [[v_0[i][j] for j in cmap] for i in rmap]
            elif is_slice and isinstance(v_0, list) and R_0 == 0 and v_0 == []:
                exp = v_t if (v_t == [] or (_is_mat(v_t) and all(len(r) == 0 for r in v_t))) else []
            elif isinstance(v_0, list) and not _is_mat(v_0) and v_0 and not isinstance(v_0[0], list):
                n0 = len(v_0)
                orient = None
                if not is_slice:
                    orient = "row" if n0 == R_0 else None
                elif n0 == R_0 and n0 != C_0:
                    orient = "row"
                elif n0 == C_0 and n0 != R_0:
                    orient = "col"
                elif n0 == R_0 == C_0:
                    if name in ("table_base", "table_margin"):
                        orient = "col" if ck == "mr" else "row"
                    elif "column" in name:
                        orient = "col"
                    elif "row" in name:
                        orient = "row"
                if name in ("table_base_range", "table_margin_range", "dimension_types", "available_measures") or \
                        (name.endswith("_range")):
                    orient = None
                if orient == "row":
                    exp = [v_0[i] for i in rmap]
                elif orient == "col":
                    exp = [v_0[j] for j in cmap]
                else:
                    exp = v_0
            else:
                exp = v_0
            ok, where = common.deep_close(v_t, exp)
            if not ok:
                findings.append({"kind": "spec", "locus": locus,
                                 "detail": "k=%d under t%s | t=%s reindexed strip(t)=%s row_order=%r col_order=%r" % (
                                     k, where, sc._short(v_t), sc._short(exp), ro_t, co_t)})
        # the two renderings of an order name the same sequence (signed index <-> 'ins_<id>')
        for nm, order, dkey in (("row", ro_t, "rows_dimension"), ("column", co_t, "columns_dimension")):
            if not is_slice and nm == "column":
                continue
            valid_ins = [i for i in (tr.get(dkey, {}) or {}).get("insertions", []) if i.get("hide") is not True]
            bog = common.call_impl(lambda: getattr(p_t, "%s_order" % nm)(1))
            try:
                exp_b = [("ins_%d" % valid_ins[x + len(valid_ins)]["id"]) if x < 0 else x for x in order]
            except IndexError:
                exp_b = None
            if exp_b is not None:
                got_b = [int(x) if (isinstance(x, str) and x.lstrip("-").isdigit()) else x for x in bog] if isinstance(bog, list) else bog
                sc.compare(findings, "spec", "order.%s.bogus-ids-format" % nm, got_b, exp_b, "k=%d signed=%r" % (k, order))
        # position-valued outputs
        for nm, order in (("row", ro_t), ("column", co_t)):
            if not is_slice and nm == "column":
                continue
            got = common.call_impl(lambda: getattr(p_t, "inserted_%s_idxs" % nm))
            sc.compare(findings, "spec", "inserted_%s_idxs" % nm, got, [i for i, x in enumerate(order) if x < 0], "k=%d" % k)
            # derived (MR insertion) items keep their identity under re-ordering
            if is_slice:
                g0 = common.call_impl(lambda: getattr(p_0, "derived_%s_idxs" % nm))
                gt = common.call_impl(lambda: getattr(p_t, "derived_%s_idxs" % nm))
                o0_ = ro_0 if nm == "row" else co_0
                if isinstance(g0, list) and isinstance(gt, list):
                    der = {o0_[i] for i in g0}
                    sc.compare(findings, "spec", "derived_%s_idxs" % nm, gt, [i for i, x in enumerate(order) if x in der], "k=%d" % k)
                elif g0 != gt:
                    findings.append({"kind": "spec", "locus": "derived_%s_idxs.raises" % nm, "detail": "%r vs %r" % (gt, g0)})
            d0 = common.call_impl(lambda: getattr(p_0, "diff_%s_idxs" % nm))
            dt = common.call_impl(lambda: getattr(p_t, "diff_%s_idxs" % nm))
            o0 = ro_0 if nm == "row" else co_0
            if isinstance(d0, list) and isinstance(dt, list):
                diffs = {o0[i] for i in d0}
                sc.compare(findings, "spec", "diff_%s_idxs" % nm, dt, [i for i, x in enumerate(order) if x in diffs], "k=%d" % k)
        if is_slice and case.get("pairwise"):
            for name in ("pairwise_indices", "pairwise_indices_alt"):
                a = common.call_impl(lambda: getattr(p_t, name))
                b = common.call_impl(lambda: getattr(p_0, name))
                if isinstance(b, list) and _is_mat(b) and isinstance(a, list):
                    pos_t = {c0: j for j, c0 in enumerate(cmap)}
                    exp = [[sorted(pos_t[c] for c in b[i0][j0] if c in pos_t) for j0 in cmap] for i0 in rmap]
                    got = [[sorted(x) if isinstance(x, list) else x for x in row] for row in a] if _is_mat(a) else a
                    if R_t == 0 or C_t == 0:
                        continue
                    sc.compare(findings, "spec", "slice.%s.renumbered" % name, got, exp, "k=%d cols %r" % (k, co_t))
                elif a != b and not (a in (None, []) and b in (None, [])):
                    if not (isinstance(a, dict) and isinstance(b, dict)):
                        pass
            # legacy column-summary test: one tuple of column positions per displayed column; every pair's test depends on
            # the two columns' bases and the table margin only, so the tuples renumber like the matrix ones
            a = common.call_impl(lambda: p_t.summary_pairwise_indices)
            b = common.call_impl(lambda: p_0.summary_pairwise_indices)
            if isinstance(a, list) and isinstance(b, list) and len(b) == C_0 and len(a) == C_t and C_t > 0 and R_t > 0 \
                    and all(isinstance(x, list) for x in a + b) and kinds[-2] not in ("mr", "arr"):
                # (with array rows the columns base is a matrix and the legacy summary indexes ROWS: no column reading)
                pos_t = {c0: j for j, c0 in enumerate(cmap)}
                exp = [sorted(pos_t[c] for c in b[j0] if c in pos_t) for j0 in cmap]
                sc.compare(findings, "spec", "slice.summary_pairwise_indices.renumbered", [sorted(x) for x in a], exp,
                           "k=%d cols %r" % (k, co_t))
                ctx.count("summary_pairwise_compared")
        if is_slice:
            for name in ("row_mask", "column_mask", "table_mask"):
                a = common.call_impl(lambda: getattr(p_t.min_base_size_mask, name))
                b = common.call_impl(lambda: getattr(p_0.min_base_size_mask, name))
                if _is_mat(b) and len(b) == R_0:
                    sc.compare(findings, "spec", "slice.min_base_size_mask.%s" % name, a,
                               [[b[i][j] for j in cmap] for i in rmap], "k=%d" % k)
        if ro_t != ro_0 or co_t != co_0:
            key = ("x".join(kinds), repr(tr), tuple(ro_t), tuple(co_t))
    return findings, key


def describe(case):
    d = sc.describe(case)
    d["transforms"] = case["transforms"]
    d["measures"] = sorted((case.get("measures") or {}).keys())
    return d


shrink_candidates = sc.shrink_candidates
