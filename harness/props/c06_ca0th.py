"""C06 extension — the strands / slices of a CA-as-0th set UNDER ROWS TRANSFORMS are the sub-variable's own analysis.

`c06.py` (family ca0th) compares transform-free or hide / insertion / explicit-order strands; what decides which rows of
strand k SHOW (pruning), and in which order they show (sort by value, payload order), is computed from per-strand
vectors (`StripeMeasures.pruning_base`, the blocks of the sort measure) that can be taken from the whole array instead
of the strand's own sub-variable without any transform-free value changing.  This module therefore generates

  * categorical arrays whose sub-variables have DIFFERENT supports (a category nobody chose for item k but somebody
    chose for another item; a category only weight-0 respondents chose: weighted-empty, not empty; items with no
    respondent at all; missing categories / items in the middle),
  * every way a CA leads a partition set in 1-D strands: a multi-cube `CubeSet` [CA, CA x X, ...], `Cube(cube_idx=0)`,
    and a CA response flagged `is_single_col_cube`,
  * rows transforms drawn from the whole grammar: prune, hidden elements, renames, subtotals and differences (also
    over categories empty for one item only), explicit / payload / label order, sort by every stripe measure keyword
    with fixed top / bottom lists,
  * the order in which the strands and their properties are read (shuffled; `payload_order` / `row_count` first or last).

Oracles (all kind spec):
  1. the library's own UNIVARIATE analysis: strand k == `Cube(<1-D response of sub-variable k>, same rows transform)`
     on every public property of `_Strand` (identity attributes are checked against the item's name / alias instead);
     slice k of every CA x X cube == the 2-D analysis of (sub-variable k) x X with the same transforms;
  2. respondent level, no library involved: the base rows strand k shows are exactly the valid categories that are not
     hidden and (under prune) that at least one respondent - whatever the weight - chose FOR SUB-VARIABLE k, and the
     count shown on each of them is the weighted number of those respondents; same for the rows / columns of slice k
     when X is categorical.
"""
import copy
from fractions import Fraction

import gen
import common
from props import _slice_common as sc

PROPERTY = "C06"
LEAN_MODULE = "CrCube.Props.C06_Ca0thPrune"
THEOREMS = [
    "CrCube.C06.ca_as_0th_pruning_base",
    "CrCube.C06.ca_as_0th_pruning_base_respondents",
    "CrCube.C06.ca_as_0th_empties",
    "CrCube.C06.ca_as_0th_empties_iff_nobody",
    "CrCube.C06.array_pruning_base_counterexample",
]
RULE = ("ca0th-transforms: CA (1-4 items, 2-4 categories, item-wise supports, weight-0 respondents, missing items / "
        "categories) leading a CubeSet / Cube(cube_idx=0) / single-col cube; rows transform from {prune, hide, rename, "
        "subtotals + differences, explicit / payload / label / by-value order with fixed lists}; shuffled read order; "
        "non-trivial = >= 2 strands whose visible rows differ or a strand that prunes a row another strand shows; "
        "distinct = (mode, transform shape, visible rows of every strand)")
ASSUMPTIONS = ["Spec.cubeOf is the back end's tabulation (checked per case in C01)"]

RC_KINDS = ["cat", "cat", "mr", "cat_date"]
STRIPE_KW = ["base_unweighted", "base_weighted", "count_unweighted", "count_weighted", "percent", "percent_moe",
             "percent_stddev", "percent_stderr", "population", "population_moe", "mean", "sum", "share_sum", "bogus_measure"]

# the properties that ARE the decision which rows show (always compared; the vectors over the displayed rows follow them)
ROW_DECIDING = {"row_order", "payload_order", "row_count", "shape", "is_empty"}

SLICE_DECIDING = {"row_order", "column_order", "payload_order", "shape", "row_count", "column_count", "is_empty"}

# identity attributes: differ by construction between a strand of the array and the stand-alone variable
IDENT = {"dimension_types", "rows_dimension_type", "tab_alias", "tab_label", "table_name", "cube_index"}

SLICE_MEASURES = [
    "counts", "unweighted_counts", "row_weighted_bases", "column_weighted_bases", "table_weighted_bases",
    "row_unweighted_bases", "column_unweighted_bases", "table_unweighted_bases", "rows_margin", "columns_margin",
    "rows_base", "columns_base", "table_margin", "table_base", "table_base_range", "table_margin_range",
    "row_proportions", "column_proportions", "table_proportions", "rows_margin_proportion",
    "columns_margin_proportion", "row_std_err", "column_std_err", "table_std_err", "zscores", "pvals",
    "column_index", "columns_scale_mean", "rows_scale_mean", "columns_scale_median", "rows_scale_median",
    "shape", "row_labels", "column_labels", "is_empty", "row_order", "column_order", "payload_order",
    "inserted_row_idxs", "inserted_column_idxs", "row_count", "column_count",
]


# ---------------------------------------------------------------------------------------
# generation


def _gen_survey(rng, ca, xs, weighted):
    """item-wise supports: every sub-variable draws its answers from its OWN subset of the categories"""
    ncat = len(ca.cats)
    sup = []
    for _ in ca.items:
        r = rng.random()
        if r < 0.1:
            sup.append(None)                              # nobody answered this item at all
        elif r < 0.75 and ncat > 1:
            sup.append(rng.sample(range(ncat), rng.randint(1, ncat - 1)))
        else:
            sup.append(list(range(ncat)))
    # categories answered by weight-0 respondents only (weighted-empty is NOT empty)
    zero_only = [rng.randrange(ncat) if (weighted and rng.random() < 0.3) else None for _ in ca.items]
    miss = [i for i, c in enumerate(ca.cats) if c["missing"]]
    survey = []
    for _ in range(rng.choice([0, 1, 2, 3, 5, 8, 12, 20])):
        wt = rng.choice(gen.WEIGHTS) if weighted else Fraction(1)
        a = []
        for j, s in enumerate(sup):
            if s is None:
                a.append(rng.choice(miss) if miss else 0)
                continue
            pool = [c for c in s if c != zero_only[j]] or s
            a.append(rng.choice(pool))
        if any(s is None for s in sup) and not miss:
            # no missing category to park the silent item on: leave the item fully supported instead
            a = [rng.randrange(ncat) if s is None else x for s, x in zip(sup, a)]
        ans = [a] + [gen.gen_answer(rng, x) for x in xs]
        survey.append((wt, ans))
    for j, z in enumerate(zero_only):
        if z is not None and sup[j] is not None and survey:
            a = [rng.choice(s) if s else 0 for s in sup]
            a[j] = z
            survey.append((Fraction(0), [a] + [gen.gen_answer(rng, x) for x in xs]))
    rng.shuffle(survey)
    return survey


def _gen_order(rng, ids):
    kind = rng.choice(["none", "none", "explicit", "payload", "label", "uni", "uni"])
    if kind == "none":
        return None
    if kind == "explicit":
        l = list(ids) + [999]
        rng.shuffle(l)
        return {"type": "explicit", "element_ids": l[: rng.randint(0, len(l))]}
    if kind == "payload":
        return {"type": "payload_order"}
    o = {"type": "label"} if kind == "label" else {"type": "univariate_measure", "measure": rng.choice(STRIPE_KW)}
    if rng.random() < 0.5:
        o["direction"] = rng.choice(["ascending", "descending"])
    if rng.random() < 0.4 and ids:
        fx = {}
        for side in ("top", "bottom"):
            if rng.random() < 0.5:
                fx[side] = [rng.choice(ids + [997]) for _ in range(rng.randint(1, 2))]
        if fx:
            o["fixed"] = fx
    return o


def _gen_rows(rng, cv):
    ids = sc.valid_ids(cv)
    d = {}
    if rng.random() < 0.75:
        d["prune"] = True
    shape = rng.choice(["prune-only", "prune-only", "hide", "ins", "order", "all", "all"])
    if shape in ("hide", "all"):
        el = {}
        for i in ids:
            r = rng.random()
            if r < 0.25:
                el[str(i)] = {"hide": True}
            elif r < 0.35:
                el[str(i)] = {"name": "renamed %s" % i}
        if el:
            d["elements"] = el
    if shape in ("ins", "all"):
        ins = sc.gen_insertions(rng, cv, allow_diff=True, allow_hide=True)
        if ins:
            d["insertions"] = ins
    if shape in ("order", "all"):
        o = _gen_order(rng, ids)
        if o is not None:
            d["order"] = o
    return d


def gen_case(rng):
    ca = gen.gen_var(rng, "ca", "v0", n=rng.choice([1, 2, 2, 3, 3, 4]), ncat=rng.randint(2, 4), missing_items=True)
    if rng.random() < 0.3 and len(ca.items) >= 2 and not any(it.get("missing") for it in ca.items):
        ca.items[rng.randrange(len(ca.items))]["missing"] = True      # a missing item first / in the middle / last
    mode = rng.choice(["set", "set", "set", "set", "cube_idx0", "single_col"])
    xs = [gen.gen_var(rng, rng.choice(RC_KINDS), "v%d" % j, n=rng.randint(1, 3)) for j in range(1, rng.randint(1, 2) + 1)] if mode == "set" else []
    weighted = rng.random() < 0.55
    survey = _gen_survey(rng, ca, xs, weighted)
    cv = gen.Var("cat", ca.alias, cats=copy.deepcopy(ca.cats))
    rows = _gen_rows(rng, cv)
    cols = []
    for x in xs:
        c = {}
        if rng.random() < 0.5:
            c["prune"] = True
        if rng.random() < 0.25:
            ks = sc.element_keys(x)
            el = {str(k): {"hide": True} for k in ks if rng.random() < 0.3}
            if el and len(el) < len(ks):
                c["elements"] = el
        cols.append(c)
    return {"vars": [v.to_json() for v in [ca] + xs], "survey": gen.survey_to_json(survey), "weighted": weighted,
            "min_base": 0, "mode": mode, "rows": rows, "cols": cols,
            # the same rows transform may also be filed (differently) under the columns key of the CA cube: never used
            "decoy": _gen_rows(rng, cv) if rng.random() < 0.4 else None,
            "population": rng.choice([0, 1000, 12345]), "read_seed": rng.randrange(1 << 30)}


def generate(ctx):
    return [gen_case(ctx.rng) for _ in range(ctx.n(110, 1500))]


def lean_ops(case):
    return []


# ---------------------------------------------------------------------------------------
# evaluation


def _get(obj, name):
    def thunk():
        v = getattr(obj, name)
        return v() if callable(v) else v
    return common.call_impl(thunk)


def _strand_names():
    from cr.cube.cubepart import _Strand
    from cr.cube.util import lazyproperty
    out = [n for n in dir(_Strand) if not n.startswith("_") and isinstance(getattr(_Strand, n, None), (lazyproperty, property))]
    return sorted(out) + ["row_order"]


def _tag(rows):
    return "prune." if rows.get("prune") else ""


def _hidden_ids(d):
    return {k for k, v in (d.get("elements") or {}).items() if isinstance(v, dict) and v.get("hide")}


def _counts_item(ca, survey, kk, weighted):
    """(weighted, unweighted) number of respondents per VALID category of the sub-variable at raw position kk"""
    vp = ca.valid_cat_pos
    wc, uc = [Fraction(0)] * len(vp), [0] * len(vp)
    for wt, ans in survey:
        c = ans[0][kk]
        if c in vp:
            i = vp.index(c)
            wc[i] += wt if weighted else 1
            uc[i] += 1
    return wc, uc


def _respondent_level_strand(findings, case, ca, survey, k, kk, strand, rows):
    vp = ca.valid_cat_pos
    ids = [ca.cats[p]["id"] for p in vp]
    wc, uc = _counts_item(ca, survey, kk, case["weighted"])
    hid = _hidden_ids(rows)
    exp = [i for i in range(len(vp)) if str(ids[i]) not in hid and not (rows.get("prune") and uc[i] == 0)]
    order = _get(strand, "row_order")
    if not isinstance(order, list):
        return None
    base = [i for i in order if i >= 0]
    tag = _tag(rows)
    if sorted(base) != exp:
        findings.append({"kind": "spec", "locus": "ca0th.strand.%svisible-rows.respondent-level" % tag,
                         "detail": "sub-variable %d: shows category positions %r; respondents who answered THIS sub-variable "
                                   "(unweighted per valid category %r, hidden ids %r, prune=%r) give %r; rows transform %r"
                                   % (k, sorted(base), uc, sorted(hid), bool(rows.get("prune")), exp, rows)})
        return tuple(sorted(base))
    for name, vec in (("counts", wc), ("unweighted_counts", uc)):
        got = _get(strand, name)
        if not isinstance(got, list) or len(got) != len(order):
            continue
        g = [got[p] for p, i in enumerate(order) if i >= 0]
        e = [float(vec[i]) for i in order if i >= 0]
        ok, where = common.deep_close(g, e)
        if not ok:
            findings.append({"kind": "spec", "locus": "ca0th.strand.%s%s.respondent-level" % (tag, name),
                             "detail": "sub-variable %d%s: base rows %r show %r, respondents give %r" % (k, where, base, g, e)})
    return tuple(sorted(base))


def _respondent_level_slice(findings, case, ca, X, xj, survey, k, kk, sl, rows, cols):
    """visible base rows / columns of slice k of CA x X (X categorical): margins of the unweighted table of
    (sub-variable k) x X over valid categories"""
    if X.is_array:
        return
    vp, xp = ca.valid_cat_pos, X.valid_cat_pos
    tab = [[0] * len(xp) for _ in vp]
    for wt, ans in survey:
        c, x = ans[0][kk], ans[xj][0]
        if c in vp and x in xp:
            tab[vp.index(c)][xp.index(x)] += 1
    rid = [ca.cats[p]["id"] for p in vp]
    xk = sc.element_keys(X)
    rh, ch = _hidden_ids(rows), _hidden_ids(cols)
    exp_r = [i for i in range(len(vp)) if str(rid[i]) not in rh and not (rows.get("prune") and sum(tab[i]) == 0)]
    exp_c = [j for j in range(len(xp)) if str(xk[j]) not in ch and not (cols.get("prune") and sum(t[j] for t in tab) == 0)]
    for name, exp, tr in (("row_order", exp_r, rows), ("column_order", exp_c, cols)):
        order = _get(sl, name)
        if not isinstance(order, list):
            continue
        base = sorted(i for i in order if i >= 0)
        if base != exp:
            findings.append({"kind": "spec", "locus": "ca0th.slice.%svisible-%s.respondent-level" % (_tag(tr), name.split("_")[0] + "s"),
                             "detail": "sub-variable %d x %s: shows positions %r, the unweighted table of THIS sub-variable %r gives %r; "
                                       "transform %r" % (k, X.alias, base, tab, exp, tr)})


def evaluate(case, louts, ctx):
    import random
    from cr.cube.cube import Cube, CubeSet
    vars_, survey = sc.load(case)
    ca, xs = vars_[0], vars_[1:]
    w, pop, mode = case["weighted"], case["population"], case["mode"]
    rows, cols = case["rows"], case["cols"]
    ctx.count("ca0th-tr:" + mode)
    findings = []
    rrng = random.Random(case["read_seed"])
    r0 = gen.cube_response([ca], [(wt, [ans[0]]) for wt, ans in survey], w)
    t0 = {"rows_dimension": copy.deepcopy(rows)}
    if case.get("decoy") is not None:
        t0["columns_dimension"] = copy.deepcopy(case["decoy"])
    resps = [r0]
    ts = [t0]
    for j, X in enumerate(xs, start=1):
        resps.append(gen.cube_response([ca, X], [(wt, [ans[0], ans[j]]) for wt, ans in survey], w))
        ts.append({"rows_dimension": copy.deepcopy(rows), "columns_dimension": copy.deepcopy(cols[j - 1])})
    npart = len(ca.valid_item_pos)
    if mode == "set":
        cs = CubeSet(copy.deepcopy(resps), copy.deepcopy(ts), pop, 0)
        sets = common.call_impl(lambda: [len(s) for s in cs.partition_sets])
        get_set = lambda k: cs.partition_sets[k]        # noqa
    else:
        r = copy.deepcopy(r0)
        if mode == "single_col":
            r["result"]["is_single_col_cube"] = True
            cube = Cube(r, transforms=copy.deepcopy(t0), population=pop)
        else:
            cube = Cube(r, cube_idx=0, transforms=copy.deepcopy(t0), population=pop)
        sets = common.call_impl(lambda: [1 for _ in cube.partitions])
        get_set = lambda k: (cube.partitions[k],)       # noqa
    if sets != [len(resps) if mode == "set" else 1] * npart:
        return [{"kind": "spec", "locus": "ca0th.partition_sets.count",
                 "detail": "mode %s: sets %r, the array has %d valid sub-variables and the set %d cubes" % (mode, sets, npart, len(resps))}], None
    names = _strand_names()
    ks = list(range(npart))
    rrng.shuffle(ks)
    visible = {}
    for k in ks:
        pset = get_set(k)
        strand = pset[0]
        kk = ca.valid_item_pos[k]
        item = ca.items[kk]
        cv = gen.Var("cat", ca.alias, cats=copy.deepcopy(ca.cats))
        if type(strand).__name__ != "_Strand":
            findings.append({"kind": "spec", "locus": "ca0th.strand.class", "detail": "sub-variable %d is a %s" % (k, type(strand).__name__)})
            continue
        uni = Cube(gen.cube_response([cv], [(wt, [[ans[0][kk]]]) for wt, ans in survey], w),
                   transforms={"rows_dimension": copy.deepcopy(rows)}, population=pop).partitions[0]
        order = [n for n in names if n not in IDENT]
        rrng.shuffle(order)
        first = rrng.choice([None, "payload_order", "row_count", "row_labels", "is_empty", "table_proportions"])
        if first:
            order.remove(first)
            order.insert(0, first)
        tag = _tag(rows)
        lib_f = []
        for n in order:
            a, b = _get(strand, n), _get(uni, n)
            ok, where = common.deep_close(a, b)
            if not ok and n not in ROW_DECIDING and isinstance(a, list) and isinstance(b, list) \
                    and not common.deep_close(_get(strand, "row_order"), _get(uni, "row_order"))[0]:
                continue        # a vector over the displayed rows: follows from the differing row order, reported there
            if not ok:
                lib_f.append({"kind": "spec", "locus": "ca0th.strand.%s%s" % (tag, n),
                              "detail": "mode %s sub-variable %d (%s)%s: strand=%s univariate analysis=%s; rows transform %r"
                                        % (mode, k, item["alias"], where, sc._short(a), sc._short(b), rows)})
        # (read after the shuffled sequence; reported first: the respondent-level statement of what went wrong)
        visible[k] = _respondent_level_strand(findings, case, ca, survey, k, kk, strand, rows)
        findings.extend(lib_f)
        sc.compare(findings, "spec", "ca0th.strand.tab_label", _get(strand, "tab_label"), item["name"], "k=%d" % k)
        sc.compare(findings, "spec", "ca0th.strand.tab_alias", _get(strand, "tab_alias"), item["alias"], "k=%d" % k)
        sc.compare(findings, "spec", "ca0th.strand.table_name", _get(strand, "table_name"),
                   "%s: %s" % (ca.alias.upper(), item["name"]), "k=%d" % k)
        for j, X in enumerate(xs, start=1):
            sl = pset[j]
            c2 = Cube(gen.cube_response([cv, X], [(wt, [[ans[0][kk]], ans[j]]) for wt, ans in survey], w),
                      transforms=copy.deepcopy(ts[j]), population=pop).partitions[0]
            ms = list(SLICE_MEASURES)
            rrng.shuffle(ms)
            lib_f = []
            for n in ms:
                a, b = _get(sl, n), _get(c2, n)
                ok, where = common.deep_close(a, b)
                if not ok and n not in SLICE_DECIDING and isinstance(a, list) and isinstance(b, list) and not (
                        common.deep_close(_get(sl, "row_order"), _get(c2, "row_order"))[0]
                        and common.deep_close(_get(sl, "column_order"), _get(c2, "column_order"))[0]):
                    continue    # a matrix / margin over the displayed rows x columns: follows from the differing orders
                if not ok:
                    lib_f.append({"kind": "spec", "locus": "ca0th.slice.%s%s" % (_tag(rows) or _tag(cols[j - 1]), n),
                                  "detail": "sub-variable %d x %s%s: slice=%s 2-D analysis=%s; transforms %r"
                                            % (k, X.alias, where, sc._short(a), sc._short(b), ts[j])})
            _respondent_level_slice(findings, case, ca, X, j, survey, k, kk, sl, rows, cols[j - 1])
            findings.extend(lib_f)
    key = None
    vis = [visible.get(k) for k in range(npart)]
    if npart >= 2 and len(set(vis)) >= 2:
        ctx.count("ca0th-tr:strands-differ" + (":pruned" if rows.get("prune") else ""))
        key = (mode, tuple(sorted(rows)), (rows.get("order") or {}).get("type"), tuple(vis))
    return findings, key


def describe(case):
    d = sc.describe(case)
    d.update(mode=case["mode"], rows=case["rows"])
    return d


def shrink_candidates(case):
    for c in sc.shrink_candidates(case):
        yield c
    rows = case["rows"]
    for k in list(rows):
        if k != "prune":
            yield dict(case, rows={a: b for a, b in rows.items() if a != k})
    if case.get("decoy") is not None:
        yield dict(case, decoy=None)
