"""C08 extension: source-table tie for the sort-keyword tables (see _srctables.py).

Generated theorems (regenerated from the tree under test on every run, kernel-checked, axioms audited):
  matrix_sort_table   ∀ s, Collator.matrixMeasureProp s = (table in matrix/assembler.py).lookup s
  marginal_sort_table ∀ s, Collator.marginalProp s      = (table in matrix/assembler.py).lookup s
  stripe_sort_table   ∀ s, Collator.stripeMeasureProp s = (table in stripe/assembler.py).lookup s
  sort_keywords_are_measures / sortable_iff_listed / marginal_keywords_are_marginals
so `C08.keyword_tables` (every keyword sorts on the public measure or its monotone surrogate) is a statement
about the dictionary literals in the source, not about a hand copy of them."""
from props import _srctables

PROPERTY = "C08"
THEOREMS = []
RULE = ("source-table tie: one case; the three sort-keyword dictionaries and the MEASURE / MARGINAL enums are translated "
        "from the working tree into Lean literals and proved equal to the model's tables on every string")
TRUSTED_EXTRA = ["tools/srctables.py (ast translator of dict / enum literals; its output is proved equal to the model tables, "
                 "so a translator fault can only produce a false alarm or an `unextractable` count, not a missed difference in "
                 "a table it did extract)"]
NAMES = ["matrix_sort_table", "marginal_sort_table", "stripe_sort_table", "sort_keywords_are_measures",
         "sortable_iff_listed", "marginal_keywords_are_marginals"]
generate, lean_ops, evaluate, describe = _srctables.make_module(PROPERTY, NAMES, "sort keyword tables")
