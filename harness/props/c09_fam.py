"""C09 (families) — visibility where the pruning base or the prune flag is reached by a side door.

Three families the main module's generator does not reach; each is judged by the main module's oracle (`c09.judge` /
`c09.judge_strand`: hidden iff asked, pruned iff empty by the respondent-level UNWEIGHTED counts, subtotal rule), under loci
of its own:

``ca0``        a categorical array read CA-as-0th (`Cube(resp, cube_idx=0)` or the first cube of a multi-cube `CubeSet`): one
               strand per valid sub-variable, rows = categories.  Strand k must show a category exactly when it is not
               hidden and not (prune and NOBODY ANSWERED IT UNDER SUB-VARIABLE k) -- i.e. it is judged like the 1-D cube of
               sub-variable k alone (Lean `strand_spec` / `strand_api` on the survey recoded to item k; theorem
               `ca0_strand_pruning_base`).  Forced: a category empty under one sub-variable and populated under another,
               possibly only by weight-0 respondents; missing items / categories in the middle; hides, subtotals, orders.
``companions`` `prune: true` together with the OTHER keys a dimension transforms dict may carry (`smoother` in all its
               spellings on categorical-date and other dimensions, `name`, `description`, top-level `pairwise_indices`),
               on rows / columns of slices and on strands, with an element forced empty; optionally after a smoothed
               measure has been read.  The prune flag is the `prune` key alone.
``numeric``    cubes carrying a numeric measure (mean / sum / stddev / median) with `valid_count_unweighted` (and possibly
               `valid_count_weighted`), favouring multiple-response dimensions with an item answered but never selected.
               The unweighted counts of such a cube are its unweighted valid counts (the respondents with a valid value);
               where that reading and `result.counts` disagree on the emptiness of any vector the partition is NOT judged
               (weaker reading), so in most cases every respondent has a valid value.
"""
import copy
import warnings
from fractions import Fraction

import common
import gen
from props import _slice_common as sc
from props import c09 as main

PROPERTY = "C09"
LEAN_MODULE = "CrCube.Props.C09_Fam"
THEOREMS = [
    "CrCube.C09.ca0_strand_pruning_base",
    "CrCube.C09.ca0_strand_empty_iff",
    "CrCube.C09.ca0_strand_weight_free",
]
RULE = ("ca0: CA (+ a categorical second variable for the set form) surveys with a category forced empty under one "
        "sub-variable and populated under another x prune / hide / subtotals / explicit order, read through Cube(cube_idx=0) "
        "or CubeSet; companions: main C09 designs with a categorical-date (or other) dimension carrying prune + smoother / "
        "name / description and a forced empty element; numeric: main C09 designs with valid-count measures, MR favoured, an "
        "item answered-never-selected; non-trivial = something hidden or pruned and something visible; distinct = (family, "
        "kinds, transforms, order)")
ASSUMPTIONS = ["Spec.cubeOf is the back end's tabulation (checked per case in C01)",
               "numeric family: the unweighted counts of a cube with `valid_count_unweighted` are those valid counts; "
               "partitions where `result.counts` would decide emptiness differently are not judged"]

CAT_KINDS = ["cat", "cat", "cat_date", "cat_date", "datetime", "text", "mr"]


# ------------------------------------------------------------------------------------------------------------------
# generators


def _force_empty_element(rng, case, vi):
    """nobody answers one valid element of variable `vi` (non-array: respondents move to another category; MR: the item
    is answered by nobody). Returns True if done."""
    vars_, survey = sc.load(case)
    v = vars_[vi]
    if not survey:
        return False
    if v.is_array:
        if v.kind != "mr" or not v.valid_item_pos:
            return False
        k = rng.choice(v.valid_item_pos)
        miss = [i for i, c in enumerate(v.cats) if c["missing"]][0]
        sv = []
        for w, ans in survey:
            a = copy.deepcopy(ans)
            a[vi][k] = miss
            sv.append((w, a))
    else:
        if len(v.valid_cat_pos) < 2:
            return False
        p = rng.choice(v.valid_cat_pos)
        others = [q for q in range(len(v.cats)) if q != p]
        sv = []
        for w, ans in survey:
            a = copy.deepcopy(ans)
            if a[vi][0] == p:
                a[vi][0] = rng.choice(others)
            sv.append((w, a))
    case["survey"] = gen.survey_to_json(sv)
    return True


SMOOTHERS = [
    {"function": "one_sided_moving_avg", "window": 2},
    {"function": "one_sided_moving_avg", "window": 3},
    {"function": "one_sided_moving_avg", "window": 1},
    {"function": "one_sided_moving_avg", "window": 50},
    {"function": "one_sided_moving_avg"},
    {"window": 2},
    {"function": None, "window": None},
    {"function": "one_sided_moving_avg", "window": 2, "show": True},
]


def gen_companions(rng):
    nd = rng.choice([1, 1, 2, 2, 2, 2, 3])
    kinds = [rng.choice(CAT_KINDS) for _ in range(nd)]
    ax = rng.randrange(min(nd, 2))          # display axis that carries the companions: 0 rows, 1 columns
    vi = (nd - 2 + ax) if nd >= 2 else 0
    if rng.random() < 0.7:
        kinds[vi] = "cat_date"
    case = main.gen_case(rng, kinds=kinds, max_n=5)
    case.pop("wvalid_only", None)
    tr = case["transforms"]
    names = ["rows_dimension", "columns_dimension"]
    d = tr.setdefault(names[ax], {})
    if rng.random() < 0.9:
        d["prune"] = True
    comp = []
    if rng.random() < 0.8:
        d["smoother"] = copy.deepcopy(rng.choice(SMOOTHERS))
        comp.append("smoother")
    if rng.random() < 0.25:
        d["name"] = "Renamed"
        comp.append("name")
    if rng.random() < 0.25:
        d["description"] = "described"
        comp.append("description")
    if nd >= 2 and rng.random() < 0.3:
        # the smoother (or the prune flag) on the OTHER axis: neither may leak across
        o = tr.setdefault(names[1 - ax], {})
        if rng.random() < 0.5:
            o["smoother"] = copy.deepcopy(rng.choice(SMOOTHERS))
            comp.append("other-smoother")
        if rng.random() < 0.5:
            o["prune"] = rng.random() < 0.7
    if rng.random() < 0.2:
        tr["pairwise_indices"] = {"alpha": [0.05], "only_larger": rng.random() < 0.5}
        comp.append("pairwise")
    if rng.random() < 0.8:
        _force_empty_element(rng, case, vi)
    case["fam"] = "companions"
    case["companions"] = comp
    case["read_first"] = rng.choice([None, None, "smoothed_column_percentages", "smoothed_means", "smoothed_column_index",
                                     "column_percentages", "counts"])
    return case


MEASURES = ["mean", "mean", "sum", "stddev", "median"]


def gen_numeric(rng):
    nd = rng.choice([1, 2, 2, 2, 2, 3])
    kinds = [rng.choice(["cat", "cat", "mr", "mr", "mr", "cat_date", "text"]) for _ in range(nd)]
    if "mr" not in kinds and rng.random() < 0.7:
        kinds[rng.randrange(max(0, nd - 2), nd)] = "mr"
    case = main.gen_case(rng, kinds=kinds, max_n=4)
    case.pop("wvalid_only", None)
    vars_, survey = sc.load(case)
    tr = case["transforms"]
    names = ["rows_dimension", "columns_dimension"]
    dimvars = vars_[-2:] if nd >= 2 else [vars_[0]]
    off = len(vars_) - len(dimvars)
    for ax, v in enumerate(dimvars):
        if v.kind != "mr":
            continue
        if rng.random() < 0.8:
            tr.setdefault(names[ax], {})["prune"] = True
        if survey and v.valid_item_pos and rng.random() < 0.65:
            # an item that was answered but never selected (Selected -> Other), and maybe one answered by nobody
            k = rng.choice(v.valid_item_pos)
            sel = [i for i, c in enumerate(v.cats) if c.get("selected")][0]
            oth = [i for i, c in enumerate(v.cats) if not c.get("selected") and not c["missing"]][0]
            sv = []
            for w, ans in survey:
                a = copy.deepcopy(ans)
                if a[off + ax][k] == sel:
                    a[off + ax][k] = oth
                sv.append((w, a))
            survey = sv
    case["survey"] = gen.survey_to_json(survey)
    allv = rng.random() < 0.65
    case["fam"] = "numeric"
    case["numeric"] = {"measure": rng.choice(MEASURES),
                       "valid": [True if allv else rng.random() < 0.8 for _ in survey],
                       "wvalid": case["weighted"] and rng.random() < 0.5}
    case["read_first"] = rng.choice([None, None, "means", "counts"])
    return case


def gen_ca0(rng):
    case = sc.gen_case(rng, kinds=["ca", "cat"], max_n=4, derived_items=False)
    vars_, survey = sc.load(case)
    ca = vars_[0]
    vitems = ca.valid_item_pos
    vcats = ca.valid_cat_pos
    forced = None
    if survey and vitems and vcats and rng.random() < 0.75:
        # category c: nobody under item k; (if there is another item) somebody under item k2
        k = rng.choice(vitems)
        c = rng.choice(vcats)
        others_c = [q for q in range(len(ca.cats)) if q != c]
        sv = []
        for w, ans in survey:
            a = copy.deepcopy(ans)
            if a[0][k] == c:
                a[0][k] = rng.choice(others_c)
            sv.append((w, a))
        k2s = [j for j in vitems if j != k]
        if k2s:
            k2 = rng.choice(k2s)
            idx = rng.sample(range(len(sv)), rng.randint(1, min(3, len(sv))))
            zero = case["weighted"] and rng.random() < 0.4   # populated by weight-0 respondents only
            for i in idx:
                w, a = sv[i]
                a[0][k2] = c
                sv[i] = (Fraction(0) if zero else w, a)
            if zero:
                sv = [(Fraction(0) if a[0][k2] == c else w, a) for w, a in sv]
        survey = sv
        forced = [k, c]
        case["survey"] = gen.survey_to_json(survey)
    catv = gen.Var("cat", "tmp", cats=ca.cats)
    ids = sc.valid_ids(ca)
    tr = {}
    for name in ("rows_dimension", "columns_dimension"):
        d = {}
        if rng.random() < (0.8 if name == "rows_dimension" else 0.4):
            d["prune"] = True
        el = {}
        for cid in ids:
            r = rng.random()
            if r < 0.2:
                el[str(cid)] = {"hide": True}
            elif r < 0.25:
                el[str(cid)] = {"hide": False}
        if el:
            d["elements"] = el
        ins = sc.gen_insertions(rng, catv)
        if ins:
            d["insertions"] = ins
        if rng.random() < 0.25 and ids:
            l = list(ids)
            rng.shuffle(l)
            d["order"] = {"type": "explicit", "element_ids": l[: rng.randint(0, len(l))]}
        elif rng.random() < 0.15:
            d["order"] = rng.choice([{"type": "label"}, {"type": "payload_order"},
                                     {"type": "univariate_measure", "measure": "count_unweighted"}])
        if d or rng.random() < 0.5:
            tr[name] = d
    case["transforms"] = tr
    case["fam"] = "ca0"
    case["via"] = rng.choice(["cube", "cube", "set"])
    case["forced"] = forced
    case["read_first"] = rng.choice([None, None, "counts", "table_proportions"])
    return case


def generate(ctx):
    out = []
    for _ in range(ctx.n(70, 900)):
        out.append(gen_ca0(ctx.rng))
    for _ in range(ctx.n(110, 1200)):
        out.append(gen_companions(ctx.rng))
    for _ in range(ctx.n(110, 1200)):
        out.append(gen_numeric(ctx.rng))
    return out


# ------------------------------------------------------------------------------------------------------------------
# Lean ops


def _item_case(case, k):
    """the univariate case of sub-variable (raw position) k of the CA: a categorical variable with the CA's categories,
    everybody's answer = their answer to item k (Lean: `Survey.map (recodeItem k)` over `ca.itemVar`)"""
    vars_, survey = sc.load(case)
    ca = vars_[0]
    v1 = gen.Var("cat", ca.items[k]["alias"], cats=copy.deepcopy(ca.cats))
    sv = [(w, [[ans[0][k]]]) for w, ans in survey]
    return {"vars": [v1.to_json()], "survey": gen.survey_to_json(sv), "weighted": case["weighted"], "min_base": 0}


def _valid_case(case):
    """the case restricted to the respondents with a valid numeric value"""
    flags = case["numeric"]["valid"]
    return dict(case, survey=[r for r, f in zip(case["survey"], flags) if f])


def lean_ops(case):
    fam = case["fam"]
    if fam == "ca0":
        vars_, _ = sc.load(case)
        ops = []
        for k in vars_[0].valid_item_pos:
            ops.extend(sc.api_ops(_item_case(case, k)))
        return ops
    if fam == "numeric":
        ops = sc.api_ops(_valid_case(case))
        if not all(case["numeric"]["valid"]):
            ops = ops + sc.api_ops(case)
        return ops
    return sc.api_ops(case)


# ------------------------------------------------------------------------------------------------------------------
# evaluation


def _read_first(part, name):
    """touch a measure before the visibility outputs are read (fills the caches the order helpers share)"""
    if not name:
        return
    with warnings.catch_warnings():
        warnings.simplefilter("ignore")
        try:
            getattr(part, name)
        except Exception:
            pass


def _numeric_response(case):
    vars_, survey = sc.load(case)
    spec = case["numeric"]
    sv = [r for r, f in zip(survey, spec["valid"]) if f]
    vu = gen.tabulate(vars_, sv, False)
    data = [(float(3 * (i % 5) + 1.5) if x > 0 else {"?": -8}) for i, x in enumerate(vu)]
    extra = {spec["measure"]: data, "valid_count_unweighted": [gen.num(x) for x in vu]}
    if spec["wvalid"]:
        extra["valid_count_weighted"] = [gen.num(x) for x in gen.tabulate(vars_, sv, True)]
    return gen.cube_response(vars_, survey, case["weighted"], extra_measures=extra)


def evaluate(case, louts, ctx):
    fam = case["fam"]
    ctx.count("fam:" + fam)
    tr = case["transforms"]
    if fam == "companions":
        for c in case["companions"]:
            ctx.count("companion:" + c)
        cube = sc.make_cube(case, transforms=copy.deepcopy(tr))
        for p in cube.partitions:
            _read_first(p, case.get("read_first"))
        findings, key = main.judge(case, louts, ctx, cube, sfx="+companion-transforms")
        return findings, (("companions",) + key if key else None)
    if fam == "numeric":
        from cr.cube.cube import Cube
        kw = {"mask_size": case["min_base"]} if case.get("min_base") else {}
        cube = Cube(_numeric_response(case), transforms=copy.deepcopy(tr), **kw)
        for p in cube.partitions:
            _read_first(p, case.get("read_first"))
        vcase = _valid_case(case)
        n = len(louts)
        if all(case["numeric"]["valid"]):
            findings, key = main.judge(vcase, louts, ctx, cube, sfx="+valid-counts")
        else:
            ctx.count("numeric.partial-valid")
            findings, key = main.judge(vcase, louts[: n // 2], ctx, cube, sfx="+valid-counts", alt_louts=louts[n // 2:])
        return findings, (("numeric", case["numeric"]["measure"]) + key if key else None)
    return _evaluate_ca0(case, louts, ctx)


def _evaluate_ca0(case, louts, ctx):
    from cr.cube.cube import Cube, CubeSet
    vars_, survey = sc.load(case)
    ca = vars_[0]
    tr = case["transforms"]
    findings = []
    sv1 = [(w, ans[:1]) for w, ans in survey]
    resp1 = gen.cube_response([ca], sv1, case["weighted"])
    kw = {"mask_size": case["min_base"]} if case.get("min_base") else {}
    try:
        if case["via"] == "set":
            resp2 = gen.cube_response(vars_, survey, case["weighted"])
            cs = CubeSet([resp1, resp2], transforms=[copy.deepcopy(tr), copy.deepcopy(tr)], population=1000,
                         min_base=case.get("min_base", 0))
            strands = [ps[0] for ps in cs.partition_sets]
        else:
            strands = list(Cube(resp1, cube_idx=0, transforms=copy.deepcopy(tr), **kw).partitions)
    except Exception as e:  # noqa
        strands = {"raises": type(e).__name__}
    n_items = len(ca.valid_item_pos)
    if not isinstance(strands, list) or len(strands) != n_items or any(type(s).__name__ != "_Strand" for s in strands):
        findings.append({"kind": "spec", "locus": "ca-as-0th.partitions",
                         "detail": "expected %d strands (one per valid sub-variable), got %r" % (n_items, strands)})
        return findings, None
    keys = sc.valid_ids(ca)
    key = None
    for j, k in enumerate(ca.valid_item_pos):
        api, spec = louts[2 * j], louts[2 * j + 1]
        _read_first(strands[j], case.get("read_first"))
        kk = main.judge_strand(findings, ctx, strands[j], keys, ["cat"], api, spec, tr, sfx="+ca-as-0th",
                               where="via=%s sub-variable %d (raw %d) " % (case["via"], j, k))
        if kk is not None:
            key = ("ca0", case["via"]) + kk
    if case.get("forced"):
        ctx.count("ca0.forced-empty-under-one-subvariable")
    return findings, key


def describe(case):
    d = sc.describe(case)
    d["fam"] = case["fam"]
    d["transforms"] = case["transforms"]
    for k in ("via", "forced", "companions", "read_first"):
        if k in case:
            d[k] = case[k]
    if "numeric" in case:
        d["numeric"] = {"measure": case["numeric"]["measure"], "wvalid": case["numeric"]["wvalid"],
                        "all_valid": all(case["numeric"]["valid"])}
    return d


def shrink_candidates(case):
    sv = case["survey"]
    n = len(sv)
    flags = (case.get("numeric") or {}).get("valid")

    def sub(idx):
        c = dict(case, survey=[sv[i] for i in idx])
        if flags is not None:
            c["numeric"] = dict(case["numeric"], valid=[flags[i] for i in idx])
        return c
    if n > 1:
        yield sub(range(n // 2))
        yield sub(range(n // 2, n))
    for i in range(min(n, 25)):
        yield sub([j for j in range(n) if j != i])
