"""Helpers shared by props/c13.py and props/c14.py (pairwise tests, scale statistics).

A *design* here is a 2-D slice made from gen.Var objects:
   [cat, cat] | [mr, cat] | [cat, mr] | [mr, mr] | [ca]  (ca = CA_SUBVAR x CA_CAT of one variable)
or a 1-D strand [cat] / [mr].  Everything respondent-level is computed from the survey
(list of (weight Fraction, [answers per var])) -- independently of the library and of Lean.
"""
from fractions import Fraction as F
import gen


class Axis:
    """one apparent dimension of the slice"""

    def __init__(self, var, vidx, role):
        self.var = var
        self.vidx = vidx          # which answer of the respondent
        self.role = role          # 'cat' | 'mr' | 'arr' (CA subvars) | 'cacat' (CA categories)
        if role in ("cat", "cacat"):
            self.pos = list(var.valid_cat_pos)            # raw category positions of valid elements
            self.ids = [var.cats[p]["id"] for p in self.pos]
            self.labels = [var.cats[p]["name"] for p in self.pos]
            self.values = [var.cats[p].get("numeric_value") for p in self.pos]
        else:
            self.pos = list(range(len(var.items)))
            self.ids = [it["id"] for it in var.items]
            self.labels = [it["name"] for it in var.items]
            self.values = [None] * len(var.items)
        self.n = len(self.pos)

    @property
    def can_insert(self):
        return self.role in ("cat", "cacat")


def axes_of(vars_):
    if len(vars_) == 1 and vars_[0].kind == "ca":
        return [Axis(vars_[0], 0, "arr"), Axis(vars_[0], 0, "cacat")]
    out = []
    for k, v in enumerate(vars_):
        out.append(Axis(v, k, "mr" if v.kind == "mr" else "cat"))
    return out


def _sel(ax, ans, e):
    a = ans[ax.vidx]
    if ax.role == "cat":
        return a[0] == ax.pos[e]
    if ax.role == "mr":
        return a[e] == 0
    raise AssertionError


def _valid(ax, ans, e):
    a = ans[ax.vidx]
    if ax.role == "cat":
        return a[0] in ax.pos
    if ax.role == "mr":
        return a[e] in (0, 1)
    raise AssertionError


def membership(axes, ans, i, j):
    """(in cell, in row base of the cell, in column base of the cell) for respondent answers"""
    r, c = axes
    if r.role == "arr":       # CA: one variable, item i x category j
        a = ans[r.vidx][i]
        cell = a == c.pos[j]
        return cell, a in c.pos, cell
    cell = _sel(r, ans, i) and _sel(c, ans, j)
    rb = _sel(r, ans, i) and _valid(c, ans, j)
    cb = _valid(r, ans, i) and _sel(c, ans, j)
    return cell, rb, cb


def tabulate2(axes, survey, wfun):
    """counts, row_bases, col_bases matrices (Fractions) with weight function wfun(w)"""
    r, c = axes
    counts = [[F(0)] * c.n for _ in range(r.n)]
    rb = [[F(0)] * c.n for _ in range(r.n)]
    cb = [[F(0)] * c.n for _ in range(r.n)]
    for w, ans in survey:
        ww = wfun(w)
        for i in range(r.n):
            for j in range(c.n):
                a, b, d = membership(axes, ans, i, j)
                if a:
                    counts[i][j] += ww
                if b:
                    rb[i][j] += ww
                if d:
                    cb[i][j] += ww
    return counts, rb, cb


def transpose(m, ncols=None):
    if not m:
        return [[] for _ in range(ncols or 0)]
    return [list(x) for x in zip(*m)]


def fs(x):
    return gen.frac_str(x)


def fmat(m):
    return [[fs(x) for x in row] for row in m]


# ---------------------------------------------------------------------------------------
# transforms


def gen_insertions(rng, ax, max_n=3, allow_diff=True, p_any=0.7):
    """list of insertion dicts over valid ids of a categorical axis (names S0..)"""
    if not ax.can_insert or ax.n == 0 or rng.random() > p_any:
        return []
    out = []
    for k in range(rng.randint(1, max_n)):
        ids = list(ax.ids)
        npos = rng.randint(1, min(3, len(ids)))
        pos = rng.sample(ids, npos)
        neg = []
        if allow_diff and rng.random() < 0.25:
            rest = [x for x in ids if x not in pos]
            if rest:
                neg = rng.sample(rest, rng.randint(1, min(2, len(rest))))
        anchor = rng.choice(["top", "bottom"] + ids)
        d = {"function": "subtotal", "name": "S%d" % k, "anchor": anchor, "args": pos}
        if neg:
            d["kwargs"] = {"negative": neg}
        out.append(d)
    return out


def gen_dim_transforms(rng, ax, allow_diff=True, p_ins=0.7, p_order=0.4, p_hide=0.3, p_prune=0.25):
    t = {}
    ins = gen_insertions(rng, ax, allow_diff=allow_diff, p_any=p_ins)
    if ins:
        t["insertions"] = ins
    if ax.n and rng.random() < p_order:
        ids = list(ax.ids)
        rng.shuffle(ids)
        if rng.random() < 0.3:
            ids = ids[: rng.randint(1, len(ids))]
        t["order"] = {"type": "explicit", "element_ids": ids}
    if ax.n > 1 and rng.random() < p_hide:
        hide = rng.sample(ax.ids, rng.randint(1, min(2, ax.n - 1)))
        t["elements"] = {str(i): {"hide": True} for i in hide}
    if rng.random() < p_prune:
        t["prune"] = True
    return t


def subs_of(ax, dim_transforms):
    """[(name, addend idxs, subtrahend idxs)] as the library derives them"""
    out = []
    for d in (dim_transforms or {}).get("insertions", []):
        pos = d.get("kwargs", {}).get("positive") or d.get("args", [])
        neg = d.get("kwargs", {}).get("negative", [])
        add = [k for k, i in enumerate(ax.ids) if i in pos]
        sub = [k for k, i in enumerate(ax.ids) if i in neg]
        if not (set(pos + neg) & set(ax.ids)):
            continue
        out.append((d["name"], add, sub))
    return out


def signed_order(labels, ax, subs):
    """display labels -> signed indexes (base element idx, or idx - nsubs for subtotal k)"""
    base = {l: k for k, l in enumerate(ax.labels)}
    sub = {s[0]: k - len(subs) for k, s in enumerate(subs)}
    out = []
    for l in labels:
        if l in sub:
            out.append(sub[l])
        elif l in base:
            out.append(base[l])
        else:
            return None
    return out


def sout_float(m):
    """evaluate a Scale.SOut / Pairwise term JSON to float or None"""
    import numpy as np
    import common
    if isinstance(m, dict) and "sqrtdivsqrt" in m:
        a, b = (common.model_to_float(x) for x in m["sqrtdivsqrt"])
        with np.errstate(all="ignore"):
            return float(np.sqrt(np.float64(a)) / np.sqrt(np.float64(b)))
    return common.model_to_float(m)
