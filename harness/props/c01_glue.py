"""C01 extension — the glue between the raw cube-response JSON and the typed design.

The Lean model (Model/Glue.lean) runs on the RAW response the library gets: dimension-type detection, the
CA_SUBVAR -> MR_SUBVAR promotion, `Elements.from_typedef` (categories vs elements, `order`, `missing`), valid
element idxs, shapes, apparent dimensions, `Cube._cube_response` (dict / text / envelope), ndim, `_ca_as_0th`,
`_slice_idxs`, `CubePartition.factory`, and `decode` = the typed design (`List Var` + kinds) the rest of the
model consumes.  `renderDims` (Spec/GlueRender.lean) is the response-format specification; the round-trip
theorem `decode (render d) = d` is in Props/C01_Glue.lean.

Seams
  design   : a generated design -> (a) Lean `renderDims` of it IS the `result.dimensions` the generator hands to
             the library (else harness fault); (b) the LIBRARY's types / shapes / valid idxs / partitions on the raw
             response against the design (kind spec: a well-formed response mis-parsed breaks "missing categories
             never appear, wherever they sit"); (c) the Lean model on the same raw response against the library
             (kind model); (d) Lean `decode(raw)` against the typed design the harness generated.
  fuzz     : malformed / edge typedefs (ids [1,0,-1] without `selected`, `selected` with other ids, subreferences on a
             plain categorical, dates on some categories, enum subtypes, unknown classes, `order` with unknown /
             duplicate / string codes, `missing` absent / null / 0 / 1, alias collisions, elements without "value",
             missing or null references ...): `Dimensions.dimension_type`, `Dimensions.from_dicts`, per-dimension
             shape / valid idxs / missing flags / alias, `Dimensions.shape`, incl. WHICH exception escapes.
  cube     : cube-level edge cases (numeric-array measures metadata, unknown measure keys, cube_idx 0 / single-col
             flag with a leading CA, 0-D, bad argument types, broken JSON text).
"""
import copy
import json
from fractions import Fraction

import gen
import common

PROPERTY = "C01"
LEAN_MODULE = "CrCube.Props.C01_Glue"
THEOREMS = [
    "CrCube.C01.decode_render_dims",
    "CrCube.C01.decode_render",
    "CrCube.C01.decode_render_text",
    "CrCube.C01.decode_render_envelope",
    "CrCube.C01.decode_unwraps_envelope",
    "CrCube.C01.no_numeric_array_of_counts_only",
    "CrCube.C01.render_types",
    "CrCube.C01.render_dimension_types",
    "CrCube.C01.render_kinds",
    "CrCube.C01.designKinds_apparentKinds",
    "CrCube.C01.render_valid_idxs",
    "CrCube.C01.order_renumbers_by_new_position",
    "CrCube.C01.missing_flag_cases",
    "CrCube.C01.logical_iff",
    "CrCube.C01.dimension_type_cases",
    "CrCube.C01.dimension_type_unknown",
    "CrCube.C01.promotion_needs_alias_and_mrcat",
    "CrCube.C01.partition_class_cases",
    "CrCube.C01.ca_as_0th_cases",
    "CrCube.C01.nslices_cases",
    "CrCube.C01.render_nslices",
    "CrCube.C01.counts_faithful_from_response_2d",
    "CrCube.C01.strand_counts_faithful_from_response",
    "CrCube.C01.counts_faithful_from_response_3d",
    "CrCube.C01.libSliceCounts_counts",
    "CrCube.C01.missing_items_never_contribute",
    "CrCube.C01.decoded_ok",
]
RULE = ("glue: (design) random designs of 1-3 variables over cat/cat_date/logical/datetime/text/binned/mr/ca(+transposed), "
        "missing categories anywhere, missing items, `type.order` permutations, as dict / text / envelope; (fuzz) 1-4 random "
        "dimension dicts with malformed typedefs and colliding aliases; (cube) cube-level edge cases; non-trivial = the case "
        "has a missing element, an order permutation, an array or raises; distinct = (family, types / exceptions, shapes)")
ASSUMPTIONS = ["text parsing (json.loads) is a parameter of the model; the driver instantiates it with Lean's JSON parser",
               "list- or dict-valued ids / aliases are outside the model (Python == is modelled on None, bool, numbers, strings)"]
TRUSTED_EXTRA = ["the harness no longer translates a generated design into the typed model input by hand for C01: Lean's decode "
                 "of the raw response is compared with it on every glue case; dropping array items flagged missing is a theorem "
                 "for counts of 2-D CAT/MR cubes (C01.missing_items_never_contribute)"]

KINDS = ["cat", "cat", "cat_date", "logical", "datetime", "text", "binned", "mr", "mr", "ca", "ca"]


# ---------------------------------------------------------------------------------------
# helpers


def jcanon(x):
    """JSON-ish value -> canonical python (numbers as Fractions, {"__rat__": s} decoded)"""
    if isinstance(x, bool) or x is None or isinstance(x, str):
        return x
    if isinstance(x, (int, float)):
        return Fraction(x)
    if isinstance(x, Fraction):
        return x
    if isinstance(x, (list, tuple)):
        return [jcanon(y) for y in x]
    if isinstance(x, dict):
        if set(x) == {"__rat__"}:
            return Fraction(x["__rat__"])
        return {k: jcanon(v) for k, v in x.items()}
    return x


def split(d, known):
    """(known part, extras) of a dict"""
    return {k: d[k] for k in known if k in d}, {k: v for k, v in d.items() if k not in known}


def rcat_of(c):
    out = {"id": c["id"], "extra": {k: v for k, v in c.items() if k not in ("id", "missing", "selected", "date")}}
    if "missing" in c:
        out["missing"] = c["missing"]
    if c.get("selected") is True:
        out["selected"] = True
    elif "selected" in c:
        raise common.HarnessFault("rcat_of: selected must be True when present")
    if "date" in c:
        out["date"] = c["date"]
    return out


def missing_variant(dims, mode):
    """the same dimension dicts with `"missing": false` written as an absent key ("absent") or null ("null") —
    both legitimate spellings of a valid element (`bool(d.get("missing"))`)"""
    if mode == "bool":
        return dims
    dims = copy.deepcopy(dims)
    for d in dims:
        t = d["type"]
        for e in t.get("categories", []) + t.get("elements", []):
            if e.get("missing") is False:
                if mode == "absent":
                    del e["missing"]
                else:
                    e["missing"] = None
    return dims


def rvar_of(v, mode="bool"):
    """the render-specification input (Spec/GlueRender.lean `RVar`) for a generated variable, read back from the
    dimension dicts the generator produces (so that Lean's render of it can be compared with them)"""
    dims = missing_variant(v.dimension_dicts(), mode)
    kind = v.kind
    out = {"kind": kind, "alias": v.alias}
    if kind in ("cat", "cat_date", "logical"):
        (d,) = dims
        cat_dim = d
    elif kind in ("datetime", "text", "binned"):
        (d,) = dims
        cat_dim = None
    else:
        sub, cat_dim = (dims[1], dims[0]) if (kind == "ca" and v.ca_transposed) else (dims[0], dims[1])
        d = sub
        out["transposed"] = bool(kind == "ca" and v.ca_transposed)
    refs = d["references"]
    out["refs_extra"] = {k: x for k, x in refs.items() if k not in ("alias", "subreferences")}
    out["dim_extra"] = {k: x for k, x in d.items() if k not in ("type", "references")}
    if cat_dim is not None:
        t = cat_dim["type"]
        tex = {k: x for k, x in t.items() if k not in ("class", "categories", "order")}
        out["cat_type_extra" if v.is_array else "type_extra"] = tex
        # data order: `order` lists the ids in data order; the typedef lists them permuted
        if "order" in t:
            by_id = {c["id"]: c for c in t["categories"]}
            data = [by_id[i] for i in t["order"]]
            out["typedef_perm"] = [next(j for j, c in enumerate(data) if c is tc) for tc in t["categories"]]
        else:
            data = t["categories"]
        out["cats"] = [rcat_of(c) for c in data]
    if d["type"]["class"] == "enum":
        t = d["type"]
        out["subtype_extra"] = {k: x for k, x in t["subtype"].items() if k != "class"}
        if v.is_array:
            items = []
            for e in t["elements"]:
                it = {"id": e["id"], "refs": e["value"]["references"],
                      "value_extra": {k: x for k, x in e["value"].items() if k != "references"},
                      "extra": {k: x for k, x in e.items() if k not in ("id", "missing", "value")}}
                if "missing" in e:
                    it["missing"] = e["missing"]
                items.append(it)
            out["items"] = items
        else:
            out["type_extra"] = {k: x for k, x in t.items() if k not in ("class", "elements", "subtype")}
            els = []
            for e in t["elements"]:
                el = {"id": e["id"], "value": e["value"],
                      "extra": {k: x for k, x in e.items() if k not in ("id", "missing", "value")}}
                if "missing" in e:
                    el["missing"] = e["missing"]
                els.append(el)
            out["elems"] = els
    return out


def expected_types(v):
    k = v.kind
    if k == "mr":
        return ["MR_SUBVAR", "MR_CAT"]
    if k == "ca":
        return ["CA_CAT", "CA_SUBVAR"] if v.ca_transposed else ["CA_SUBVAR", "CA_CAT"]
    return [{"cat": "CAT", "cat_date": "CAT_DATE", "logical": "LOGICAL", "datetime": "DATETIME", "text": "TEXT",
             "binned": "BINNED_NUMERIC"}[k]]


def expected_axes(v):
    """(shape, valid idxs) per all-dimension of a variable, payload order"""
    cats = (len(v.cats), v.valid_cat_pos)
    if not v.is_array:
        return [cats]
    items = (len(v.items), v.valid_item_pos)
    return [cats, items] if (v.kind == "ca" and v.ca_transposed) else [items, cats]


# ---------------------------------------------------------------------------------------
# generators


def gen_design_case(rng):
    nv = rng.choice([1, 1, 2, 2, 3])
    kinds = [rng.choice(KINDS) for _ in range(nv)]
    vars_ = []
    for i, k in enumerate(kinds):
        v = gen.gen_var(rng, k, "v%d" % i, n=rng.randint(1, 4), missing_items=True)
        if k == "ca" and rng.random() < 0.4:
            v.ca_transposed = True
        if k == "ca" and rng.random() < 0.25 and len(v.cats) >= 2:
            perm = list(range(len(v.cats)))
            rng.shuffle(perm)
            v.typedef_perm = None  # arrays: gen.dimension_dicts does not permute array categories
        if k in ("cat", "cat_date") and rng.random() < 0.35 and v.typedef_perm is None:
            perm = list(range(len(v.cats)))
            rng.shuffle(perm)
            v.typedef_perm = perm
        vars_.append(v)
    survey = gen.gen_survey(rng, vars_, n_resp=rng.randint(0, 6), weighted=False)
    return {"family": "design", "vars": [v.to_json() for v in vars_], "survey": gen.survey_to_json(survey),
            "form": rng.choice(["dict", "dict", "text", "envelope", "text_envelope"]),
            "missing_mode": rng.choice(["bool", "bool", "absent", "null"]),
            "cube_idx": rng.choice([None, None, 0, 1])}


ID_PATTERNS = ["distinct", "distinct", "logical", "logical", "logical_perm", "dups", "bool1", "strs"]


def fuzz_cats(rng):
    n = rng.randint(0, 4)
    pat = rng.choice(ID_PATTERNS)
    if pat in ("logical", "logical_perm", "bool1"):
        ids = [1, 0, -1]
        if pat == "logical_perm":
            rng.shuffle(ids)
        if pat == "bool1":
            ids = [True, 0, -1]
        if rng.random() < 0.15:
            ids = ids + [2]
        if rng.random() < 0.1:
            ids = ids[:2]
    elif pat == "dups":
        ids = [rng.randint(0, 2) for _ in range(n)]
    elif pat == "strs":
        ids = [str(i) for i in rng.sample(range(6), n)]
    else:
        ids = rng.sample(range(-1, 7), n)
    cats = []
    sel_mode = rng.choice(["none", "none", "first", "random", "falsy", "truthy_other"])
    for i, cid in enumerate(ids):
        c = {"id": cid, "name": "c%s" % i}
        m = rng.choice(["absent", "null", False, False, True, True, 0, 1, "", "yes"])
        if m != "absent":
            c["missing"] = None if m == "null" else m
        if sel_mode == "first" and i == 0:
            c["selected"] = True
        elif sel_mode == "random" and rng.random() < 0.4:
            c["selected"] = True
        elif sel_mode == "falsy" and rng.random() < 0.6:
            c["selected"] = rng.choice([False, 0, None, ""])
        elif sel_mode == "truthy_other" and rng.random() < 0.5:
            c["selected"] = rng.choice([1, "yes", True])
        cats.append(c)
    dmode = rng.choice(["none", "none", "some", "all", "null"])
    for i, c in enumerate(cats):
        if dmode == "all" or (dmode == "some" and rng.random() < 0.4) or (dmode == "some" and i == len(cats) - 1 and rng.random() < 0.5):
            c["date"] = "2020-0%d" % (i + 1)
        elif dmode == "null" and rng.random() < 0.5:
            c["date"] = None
    if rng.random() < 0.04 and cats:
        cats[rng.randrange(len(cats))] = rng.choice(["notadict", 7, None, ["id"]])
    return cats


def fuzz_order(rng, defs):
    ids = [d["id"] for d in defs if isinstance(d, dict) and "id" in d]
    mode = rng.choice(["absent", "absent", "absent", "null", "perm", "perm", "unknown", "dups", "subset", "empty", "strs"])
    if mode == "absent":
        return "absent"
    if mode == "null":
        return None
    if mode == "empty":
        return []
    o = list(ids)
    rng.shuffle(o)
    if mode == "unknown":
        o.insert(rng.randint(0, len(o)), 99)
        if rng.random() < 0.5:
            o.insert(rng.randint(0, len(o)), None)
    elif mode == "dups" and o:
        o.insert(rng.randint(0, len(o)), rng.choice(o))
    elif mode == "subset" and o:
        o = o[: rng.randint(0, len(o))]
    elif mode == "strs":
        o = [str(x) if rng.random() < 0.5 else x for x in o]
    return o


def fuzz_refs(rng, aliases, array=False, n=2):
    r = rng.random()
    if r < 0.04:
        return "absent"
    if r < 0.07:
        return None
    refs = {"name": "N"}
    a = rng.choice(aliases)
    if a is not None:
        refs["alias"] = a
    s = rng.random()
    if array or s < 0.2:
        sm = rng.choice(["list", "list", "list", "empty", "absent"]) if array else rng.choice(["list", "empty", "null"])
        if sm == "list":
            refs["subreferences"] = [{"alias": "s%d" % i, "name": "S%d" % i} for i in range(max(1, n))]
        elif sm == "empty":
            refs["subreferences"] = []
        elif sm == "null":
            refs["subreferences"] = None
    if rng.random() < 0.1:
        refs["format"] = rng.choice([{"data": "%Y"}, {}, None, {"data": None}])
    return refs


def fuzz_dim(rng, aliases):
    cls = rng.choice(["categorical"] * 6 + ["enum"] * 6)
    if rng.random() < 0.04:
        cls = rng.choice(["numeric", "absent"])
    d = {"derived": True}
    if cls == "absent":
        d["type"] = rng.choice([{}, {"categories": []}])
        refs = fuzz_refs(rng, aliases)
        if refs != "absent":
            d["references"] = refs
        if rng.random() < 0.3:
            del d["type"]
        return d
    if cls == "numeric":
        d["type"] = {"class": "numeric"}
        d["references"] = {"alias": "z"}
        return d
    if cls == "categorical":
        cats = fuzz_cats(rng)
        t = {"class": "categorical", "ordinal": False, "categories": cats}
        if rng.random() < 0.04:
            del t["categories"]
        o = fuzz_order(rng, cats)
        if o != "absent":
            t["order"] = o
        d["type"] = t
        refs = fuzz_refs(rng, aliases, array=rng.random() < 0.45)
        if refs != "absent":
            d["references"] = refs
        return d
    # enum
    sub = rng.choice(["variable"] * 5 + ["datetime", "datetime", "numeric", "text", "text", "num_arr"])
    if rng.random() < 0.05:
        sub = rng.choice(["categorical", "foo", "absent"])
    n = rng.randint(0, 4)
    ids = rng.sample(range(0, 8), n)
    els = []
    vmode = rng.choice(["all", "all", "all", "some_missing_value", "nondict"])
    for i, eid in enumerate(ids):
        e = {"id": eid}
        m = rng.choice(["absent", "null", False, False, True, 0, 1])
        if m != "absent":
            e["missing"] = None if m == "null" else m
        if sub in ("variable", "num_arr"):
            val = {"id": "00%d" % eid, "derived": False, "references": {"alias": "it%d" % eid, "name": "I%d" % eid}}
            if rng.random() < 0.1:
                del val["references"]["alias"]
            if rng.random() < 0.05:
                del val["references"]
        elif sub == "datetime":
            val = "2020-0%d" % (i + 1) if not e.get("missing") or rng.random() < 0.5 else {"?": -1}
        else:
            val = rng.choice(["t%d" % i, i, {"?": -1}, [i, i + 1]])
        if vmode == "some_missing_value" and rng.random() < 0.4:
            pass
        elif vmode == "nondict" and sub == "variable" and rng.random() < 0.3:
            e["value"] = "x%d" % i
        else:
            e["value"] = val
        els.append(e)
    t = {"class": "enum", "elements": els}
    if sub != "absent":
        t["subtype"] = {"class": sub}
        if sub == "datetime" and rng.random() < 0.6:
            t["subtype"]["resolution"] = "Y"
    o = fuzz_order(rng, els) if rng.random() < 0.3 else "absent"
    if o != "absent":
        t["order"] = o
    if rng.random() < 0.03:
        del t["elements"]
    d["type"] = t
    refs = fuzz_refs(rng, aliases, array=sub in ("variable", "num_arr") and rng.random() < 0.8, n=n)
    if refs != "absent":
        d["references"] = refs
    return d


def gen_fuzz_case(rng):
    aliases = rng.choice([["a", "a", "b"], ["a", "b", "c"], ["a", "a", None], [None, None, "a"], ["a"]])
    n = rng.choice([1, 2, 2, 3, 3, 4])
    dims = [fuzz_dim(rng, aliases) for _ in range(n)]
    if rng.random() < 0.5:
        # force the promotion neighbourhood: an enum/variable dimension and a logical categorical with subreferences
        a = rng.choice(["a", "a", "b", None])
        b = a if rng.random() < 0.6 else rng.choice(["a", "b", None])
        els = [{"id": i + 1, "value": {"id": "000%d" % i, "references": {"alias": "s%d" % i}}} for i in range(rng.randint(1, 3))]
        if rng.random() < 0.2:
            del els[rng.randrange(len(els))]["value"]
        sv = {"type": {"class": "enum", "elements": els, "subtype": {"class": "variable"}}, "references": {"name": "same"}}
        if a is not None:
            sv["references"]["alias"] = a
        cats = copy.deepcopy(gen.MR_CATS)
        mode = rng.choice(["mr", "mr", "mr", "no_selected", "other_ids", "no_subrefs"])
        if mode == "no_selected":
            for c in cats:
                c.pop("selected", None)
        if mode == "other_ids":
            cats[2]["id"] = 2
        cd = {"type": {"class": "categorical", "categories": cats}, "references": {"name": "same"}}
        if b is not None:
            cd["references"]["alias"] = b
        if mode != "no_subrefs":
            cd["references"]["subreferences"] = [{"alias": "s0"}]
        pair = [sv, cd]
        if rng.random() < 0.3:
            pair = [cd, sv]
        pos = rng.randint(0, len(dims))
        dims = dims[:pos] + pair + dims[pos:]
        dims = dims[:5]
    return {"family": "fuzz", "dicts": dims}


def gen_cube_case(rng):
    mode = rng.choice(["numarr", "numarr", "unknown_measure", "ca0th", "ca0th", "single_col", "zero_d", "bad_arg", "bad_text",
                       "value_null", "no_result", "numarr_short_subrefs"])
    case = {"family": "cube", "mode": mode, "cube_idx": rng.choice([None, 0, 0, 1])}
    if mode in ("numarr", "numarr_short_subrefs", "unknown_measure", "zero_d"):
        nv = 0 if mode == "zero_d" else rng.choice([0, 1, 1, 2])
        vars_ = [gen.gen_var(rng, rng.choice(["cat", "mr", "text", "cat_date"]), "v%d" % i, n=rng.randint(1, 3)) for i in range(nv)]
        resp = gen.cube_response(vars_, [], False)
        nsub = rng.randint(1, 3)
        md = {"derived": True, "references": {"alias": "na", "name": "Num arr",
                                              "subreferences": [{"alias": "n%d" % i, "name": "N%d" % i} for i in range(nsub)]},
              "type": {"class": "numeric", "subvariables": ["S%d" % i for i in range(nsub)]}}
        if mode == "numarr_short_subrefs":
            md["references"]["subreferences"] = md["references"]["subreferences"][: nsub - 1] if rng.random() < 0.7 else []
        if rng.random() < 0.2:
            del md["references"]["subreferences"]
        if mode == "zero_d" and rng.random() < 0.6:
            md["type"].pop("subvariables")
        names = rng.sample(["mean", "sum", "stddev", "median", "valid_count_unweighted"], rng.randint(1, 2))
        for nm in names:
            resp["result"]["measures"][nm] = {"data": [], "metadata": copy.deepcopy(md), "n_missing": 0}
        if mode == "unknown_measure":
            resp["result"]["measures"]["foo"] = {"data": []}
        case["arg"] = resp
    elif mode in ("ca0th", "single_col"):
        lead = rng.choice(["ca", "ca", "ca", "cat", "mr"])
        vars_ = [gen.gen_var(rng, lead, "v0", n=rng.randint(1, 3), missing_items=True)]
        if rng.random() < 0.5:
            vars_.append(gen.gen_var(rng, rng.choice(["cat", "mr"]), "v1", n=rng.randint(1, 3)))
        if lead == "ca" and rng.random() < 0.3:
            vars_[0].ca_transposed = True
        resp = gen.cube_response(vars_, [], False)
        if mode == "single_col":
            resp["result"]["is_single_col_cube"] = rng.choice([True, True, 1, 0, False, None, "yes"])
        case["arg"] = resp
    elif mode == "bad_arg":
        case["arg"] = rng.choice([None, 3, [1, 2], True, ["result"]])
    elif mode == "bad_text":
        case["arg"] = rng.choice(["{", "", "[1, 2]", "null", "3", '{"result": {"dimensions": []}}', '"str"'])
    elif mode == "value_null":
        case["arg"] = {"value": rng.choice([None, 3, {"result": {"dimensions": [], "counts": [1]}}])}
    else:
        case["arg"] = rng.choice([{}, {"result": {}}, {"result": {"dimensions": None}}, {"result": {"dimensions": {}}},
                                  {"result": None}])
    return case


def generate(ctx):
    rng = ctx.rng
    out = []
    for _ in range(ctx.n(110, 1500)):
        out.append(gen_design_case(rng))
    for _ in range(ctx.n(260, 4000)):
        out.append(gen_fuzz_case(rng))
    for _ in range(ctx.n(80, 800)):
        out.append(gen_cube_case(rng))
    return out


# ---------------------------------------------------------------------------------------
# lean ops


def _load(case):
    vars_ = [gen.Var.from_json(d) for d in case["vars"]]
    survey = gen.survey_from_json(case["survey"])
    return vars_, survey


def _arg_of(resp, form):
    if form == "dict":
        return resp
    if form == "text":
        return json.dumps(resp)
    if form == "envelope":
        return {"value": resp}
    return json.dumps({"value": resp})


def _design_resp(case):
    vars_, survey = _load(case)
    resp = gen.cube_response(vars_, survey, False)
    resp["result"]["dimensions"] = missing_variant(resp["result"]["dimensions"], case.get("missing_mode", "bool"))
    return vars_, resp


def lean_ops(case):
    fam = case["family"]
    if fam == "design":
        vars_, resp = _design_resp(case)
        return [{"op": "glue_render", "vars": [rvar_of(v, case.get("missing_mode", "bool")) for v in vars_]},
                {"op": "glue_cube", "arg": _arg_of(resp, case["form"]), "cube_idx": case["cube_idx"]}]
    if fam == "fuzz":
        return [{"op": "glue_dims", "dicts": case["dicts"]}]
    return [{"op": "glue_cube", "arg": case["arg"], "cube_idx": case["cube_idx"]}]


NUMERIC = ["mean", "median", "stddev", "sum", "valid_count_unweighted", "valid_count_weighted"]


# ---------------------------------------------------------------------------------------
# evaluation


def _impl(fn):
    return common.call_impl(fn)


def _cmp(findings, kind, locus, impl, expected, what=""):
    if jcanon(impl) != jcanon(expected):
        findings.append({"kind": kind, "locus": locus, "detail": "%s impl=%s expected=%s" % (what, _short(impl), _short(expected))})
        return False
    return True


def _short(x):
    s = repr(x)
    return s if len(s) < 300 else s[:300] + "..."


def _lib_cube_view(arg, cube_idx):
    """what the library says about a raw response argument"""
    from cr.cube.cube import Cube

    def mk():
        return Cube(copy.deepcopy(arg), cube_idx=cube_idx)

    out = {}
    out["dimension_types"] = _impl(lambda: [t.name for t in mk().dimension_types])
    out["all_types"] = _impl(lambda: [d.dimension_type.name for d in mk()._all_dimensions])
    out["ndim"] = _impl(lambda: mk().ndim)
    out["shape"] = _impl(lambda: list(mk()._all_dimensions.shape))
    out["valid_idxs"] = _impl(lambda: [list(d.valid_elements.element_idxs) for d in mk()._all_dimensions])
    out["ca_as_0th"] = _impl(lambda: bool(mk()._ca_as_0th))
    out["partitions"] = _impl(lambda: [{"cls": type(p).__name__, "k": getattr(p, "_slice_idx", 0) if type(p).__name__ != "_Nub" else 0}
                                       for p in mk().partitions])
    out["is_single_filter_col_cube"] = _impl(lambda: bool(mk().is_single_filter_col_cube))
    out["n_responses"] = _impl(lambda: mk().n_responses)
    return out


def _strand_k(p):
    return p._slice_idx


def evaluate(case, louts, ctx):
    fam = case["family"]
    ctx.count("glue:" + fam)
    if fam == "design":
        return _eval_design(case, louts, ctx)
    if fam == "fuzz":
        return _eval_fuzz(case, louts, ctx)
    return _eval_cube(case, louts, ctx)


def _eval_design(case, louts, ctx):
    vars_, resp = _design_resp(case)
    render, lcube = louts
    findings = []
    # (a) the response-format specification IS what the generator sends
    if jcanon(render["dims"]) != jcanon(resp["result"]["dimensions"]):
        raise common.HarnessFault("Lean renderDims != generator's result.dimensions for %s" % json.dumps(case["vars"])[:400])
    if render["well_formed"] is not True:
        raise common.HarnessFault("generated design is not well-formed for the round-trip theorem: %s" % json.dumps(case["vars"])[:400])
    arg = _arg_of(resp, case["form"])
    lib = _lib_cube_view(arg, case["cube_idx"])
    # (b) library vs the design
    exp_types = sum((expected_types(v) for v in vars_), [])
    axes = sum((expected_axes(v) for v in vars_), [])
    _cmp(findings, "spec", "glue.all_dimension_types", lib["all_types"], exp_types, "from_dicts types")
    _cmp(findings, "spec", "glue.dimension_types", lib["dimension_types"], [t for t in exp_types if t != "MR_CAT"], "cube.dimension_types")
    _cmp(findings, "spec", "glue.shape", lib["shape"], [a[0] for a in axes], "Dimensions.shape")
    _cmp(findings, "spec", "glue.valid_idxs", lib["valid_idxs"], [a[1] for a in axes], "valid element idxs")
    nd = len([t for t in exp_types if t != "MR_CAT"])
    _cmp(findings, "spec", "glue.ndim", lib["ndim"], nd, "ndim")
    ca0 = bool(case["cube_idx"] == 0 and exp_types and exp_types[0] == "CA_SUBVAR")
    _cmp(findings, "spec", "glue.ca_as_0th", lib["ca_as_0th"], ca0, "_ca_as_0th")
    if nd == 0:
        exp_parts = [{"cls": "_Nub", "k": 0}]
    else:
        n = 1 if (nd < 3 and not ca0) else len(axes[0][1])
        cls = "_Strand" if (nd == 1 or ca0) else "_Slice"
        exp_parts = [{"cls": cls, "k": k} for k in range(n)]
    _cmp(findings, "spec", "glue.partitions", lib["partitions"], exp_parts, "partition classes / slice idxs")
    # (c) Lean model vs library, on the raw response
    for k in ("dimension_types", "all_types", "ndim", "shape", "valid_idxs", "ca_as_0th", "partitions",
              "is_single_filter_col_cube", "n_responses"):
        _cmp(findings, "model", "seam.glue_cube.%s" % k, lib[k], lcube[k], k)
    # (d) Lean decode of the raw response vs the typed design the harness generated
    design = gen.design_lean(vars_)
    got = lcube["decode"]
    if isinstance(got, list):
        stripped = [{k: t[k] for k in ("kind", "n", "catMissing", "isMR", "transposed")} for t in got]
        _cmp(findings, "model", "seam.glue_decode.design", stripped, design, "decode(raw) vs generated design")
        _cmp(findings, "model", "seam.glue_decode.item_pos", [t["itemPos"] for t in got],
             [v.valid_item_pos if v.is_array else [] for v in vars_], "valid item positions")
    else:
        findings.append({"kind": "model", "locus": "seam.glue_decode.design", "detail": "decode raised %r" % (got,)})
    _cmp(findings, "model", "seam.glue_decode.kinds", lcube["kinds"], sum((v.apparent_kinds() for v in vars_), []), "kinds")
    _cmp(findings, "model", "seam.glue_render.design", render["design"], got, "spec design vs decode (round trip)")
    nontrivial = (any(v.is_array for v in vars_) or any(True in v.cat_missing for v in vars_)
                  or any(v.typedef_perm for v in vars_))
    key = ("design", tuple(exp_types), tuple(tuple(a[1]) for a in axes), case["form"]) if nontrivial else None
    return findings, key


def _lib_dims_view(dicts):
    from cr.cube.dimension import Dimensions
    out = {}
    out["types_each"] = [_impl(lambda d=d: Dimensions.dimension_type(copy.deepcopy(d)).name) for d in dicts]

    def mk():
        return Dimensions.from_dicts(copy.deepcopy(dicts))

    out["from_dicts"] = _impl(lambda: [d.dimension_type.name for d in mk()])
    if isinstance(out["from_dicts"], list):
        dims_out = []
        for i in range(len(dicts)):
            dims_out.append({
                "type": out["from_dicts"][i],
                "shape": _impl(lambda i=i: mk()[i].shape),
                "valid_idxs": _impl(lambda i=i: list(mk()[i].valid_elements.element_idxs)),
                "missing": _impl(lambda i=i: [bool(e.missing) for e in mk()[i].all_elements]),
                "alias": _impl(lambda i=i: mk()[i].alias),
            })
        out["dims"] = dims_out
        out["shape"] = _impl(lambda: list(mk().shape))
        out["apparent"] = _impl(lambda: [d.dimension_type.name for d in mk().apparent_dimensions])
    else:
        out["dims"] = out["shape"] = out["apparent"] = out["from_dicts"]
    return out


def _eval_fuzz(case, louts, ctx):
    (lo,) = louts
    lib = _lib_dims_view(case["dicts"])
    findings = []
    for k in ("types_each", "from_dicts", "shape", "apparent"):
        _cmp(findings, "model", "seam.glue_dims.%s" % k, lib[k], lo[k], k)
    if isinstance(lib["dims"], list) and isinstance(lo["dims"], list):
        for i, (a, b) in enumerate(zip(lib["dims"], lo["dims"])):
            for k in ("type", "shape", "valid_idxs", "missing", "alias"):
                _cmp(findings, "model", "seam.glue_dims.dim.%s" % k, a[k], b[k], "dimension %d %s" % (i, k))
    else:
        _cmp(findings, "model", "seam.glue_dims.dims", lib["dims"], lo["dims"], "dims")
    for t in lib["types_each"]:
        ctx.count("fuzz_type:%s" % (t if isinstance(t, str) else t.get("raises")))
    key = ("fuzz", json.dumps(lib["from_dicts"]), json.dumps(lib["shape"]), json.dumps(lib["types_each"]))
    return findings, key


def _eval_cube(case, louts, ctx):
    (lo,) = louts
    lib = _lib_cube_view(case["arg"], case["cube_idx"])
    findings = []
    for k in ("dimension_types", "all_types", "ndim", "shape", "valid_idxs", "ca_as_0th", "partitions",
              "is_single_filter_col_cube", "n_responses"):
        _cmp(findings, "model", "seam.glue_cube.%s" % k, lib[k], lo[k], "%s (%s)" % (k, case["mode"]))
    ctx.count("cube_mode:" + case["mode"])
    key = ("cube", case["mode"], json.dumps(lib["dimension_types"]), json.dumps(lib["partitions"]))
    return findings, key


def describe(case):
    fam = case["family"]
    if fam == "design":
        return {"family": fam, "kinds": [d["kind"] for d in case["vars"]], "form": case["form"], "cube_idx": case["cube_idx"],
                "missing_flags": [[c["missing"] for c in d["cats"]] for d in case["vars"]],
                "typedef_perm": [d.get("typedef_perm") for d in case["vars"]]}
    if fam == "fuzz":
        return {"family": fam, "classes": [d.get("type", {}).get("class") if isinstance(d.get("type"), dict) else None for d in case["dicts"]],
                "n": len(case["dicts"])}
    return {"family": fam, "mode": case["mode"], "cube_idx": case["cube_idx"]}


def shrink_candidates(case):
    if case["family"] == "fuzz":
        ds = case["dicts"]
        for i in range(len(ds)):
            if len(ds) > 1:
                yield dict(case, dicts=ds[:i] + ds[i + 1:])
    elif case["family"] == "design":
        if case["survey"]:
            yield dict(case, survey=[])
        vs = case["vars"]
        for i in range(len(vs)):
            if len(vs) > 1:
                sv = [[w, a[:i] + a[i + 1:]] for w, a in case["survey"]]
                yield dict(case, vars=vs[:i] + vs[i + 1:], survey=sv)
