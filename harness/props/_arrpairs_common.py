"""Shared pieces of the C01/C02 extension modules `c01_arrpairs` / `c02_arrpairs`: the remaining dimension-type
pairings of `_BaseCubeCounts.factory` (MR x ARR, ARR x ARR) and the cube layouts in which the two axes of a
categorical array (CA) straddle another variable.

layouts (Lean: Props/C01_ArrPairs.lean, Props/C02_ArrPairs.lean, Model/SliceArrPairs.lean, Driver/ArrPairs.lean)
    s1     vars = [A, X]  payload categories(A) x X x items(A); partition k = valid category k of A
                          slice X x ARR: _MrXArrCubeCounts (X MR; fixture ca-cat-x-mr-x-ca-subvar-hs.json) / _CatXArrCubeCounts
    s2     vars = [A, X]  payload items(A) x X x categories(A); partition k = valid item k of A
                          slice X x CAT: _MrXCatCubeCounts / _CatXCatCubeCounts
    fused  vars = [M], q  q "fused" MR variables of one design (fixture scorecard.json): payload items x selection x
                          variables, ONE slice MR x ARR (_MrXArrCubeCounts)
    aa     two array-items axes with arbitrary payload numbers (no back-end layout produces it - C01.arrXarr_unreachable;
                          the library accepts it): ONE slice ARR x ARR (_ArrXArrCubeCounts), model seam only

Renderings compared (as in _arr_common): library public API and `_BaseCubeCounts` seam objects; Lean SPEC (`ap_spec`,
finding kind "spec"); Lean MODEL (`ap_model`, kind "model"); a plain-Python respondent-level oracle must agree with
the Lean spec and the Python tabulator with the Lean contract `cubeOfS1/S2/Fused` (else harness fault).
"""
import copy
import itertools
from fractions import Fraction

import gen
import common
from props import _arr_common as ac

LAYOUTS = ["s1", "s1", "s1", "s1", "s2", "s2", "fused", "fused", "fused", "aa"]
XTR_ATTRS = ac.XTR_ATTRS
CLS = ac.CLS


# ---------------------------------------------------------------------------------------
# generation


def gen_mr(rng, alias):
    v = gen.gen_var(rng, "mr", alias, n=rng.choice([1, 2, 2, 3, 3, 4]), missing_items=True)
    if len(v.items) >= 2 and rng.random() < 0.25:
        for it in v.items:
            it.pop("missing", None)
        v.items[0]["missing"] = True
    return v


def gen_partner(rng, alias):
    # MR twice as often as in _arr_common: MR x ARR is the pairing this module exists for
    if rng.random() < 0.6:
        return gen_mr(rng, alias)
    return ac.gen_partner(rng, alias)


def gen_case(rng, mod):
    layout = rng.choice(LAYOUTS)
    weighted = rng.random() < 0.65
    n_resp = rng.choice([0, 1, 2, 5, 12, 25, 40])
    if layout in ("s1", "s2"):
        vars_ = [ac.gen_ca(rng, "a"), gen_partner(rng, "x")]
        survey = gen.gen_survey(rng, vars_, n_resp=n_resp, weighted=weighted, tiny=True)
        return {"_mod": mod, "layout": layout, "vars": [v.to_json() for v in vars_],
                "survey": gen.survey_to_json(survey), "weighted": weighted}
    if layout == "fused":
        M = gen_mr(rng, "m")
        q = rng.choice([1, 2, 2, 3, 4])
        survey = gen.gen_survey(rng, [M] * q, n_resp=n_resp, weighted=weighted, tiny=True)
        return {"_mod": mod, "layout": layout, "vars": [M.to_json()], "q": q,
                "survey": gen.survey_to_json(survey), "weighted": weighted}
    nr, nc = rng.choice([1, 2, 3, 4]), rng.choice([1, 2, 3, 4])
    hi = rng.choice([1, 3, 6])
    data = [rng.randint(0, hi) for _ in range(nr * nc)]
    if rng.random() < 0.5:
        i = rng.randrange(nr)
        for j in range(nc):
            data[i * nc + j] = 0
    if rng.random() < 0.5:
        j = rng.randrange(nc)
        for i in range(nr):
            data[i * nc + j] = 0
    wdata = [gen.frac_str(x * rng.choice(gen.WEIGHTS)) for x in data] if weighted else [str(x) for x in data]
    rmiss = [nr >= 2 and rng.random() < 0.25 for _ in range(nr)]
    cmiss = [nc >= 2 and rng.random() < 0.25 for _ in range(nc)]
    if all(rmiss):
        rmiss[-1] = False
    if all(cmiss):
        cmiss[0] = False
    return {"_mod": mod, "layout": "aa", "nr": nr, "nc": nc, "data": data, "wdata": wdata, "rmissing": rmiss,
            "cmissing": cmiss, "weighted": weighted}


def load(case):
    vars_ = [gen.Var.from_json(d) for d in case["vars"]]
    if case["layout"] == "fused":
        vars_ = vars_ * case["q"]
    return vars_, gen.survey_from_json(case["survey"])


def ext(v):
    return ac.ext(v)


def nparts(case, vars_):
    if case["layout"] == "s1":
        return len(vars_[0].valid_cat_pos)
    if case["layout"] == "s2":
        return len(vars_[0].valid_item_pos)
    return 1


def dk(v):
    return "mr" if v.kind == "mr" else "cat"


def slice_kinds(case, vars_):
    return {"s1": lambda: (dk(vars_[1]), "arr"), "s2": lambda: (dk(vars_[1]), "cat"),
            "fused": lambda: ("mr", "arr"), "aa": lambda: ("arr", "arr")}[case["layout"]]()


def tag(case, vars_):
    if case["layout"] in ("s1", "s2"):
        return "%s.%s" % (case["layout"], dk(vars_[1]))
    return case["layout"]


# ---------------------------------------------------------------------------------------
# payloads (the Python twin of Lean `cubeOfS1` / `cubeOfS2` / `cubeOfFused`)


def permute(flat, shape, perm):
    """flat row-major data of `np.transpose(a, perm)` (new axis p = old axis perm[p]); exact, no numpy"""
    strides = [1] * len(shape)
    for a in range(len(shape) - 2, -1, -1):
        strides[a] = strides[a + 1] * shape[a + 1]
    nshape = [shape[p] for p in perm]
    out = []
    for ix in itertools.product(*[range(n) for n in nshape]):
        out.append(flat[sum(ix[p] * strides[perm[p]] for p in range(len(perm)))])
    return nshape, out


def _perm(layout, nx):
    # [A, X] tabulates as (items, categories, X...)
    return [1] + list(range(2, 2 + nx)) + [0] if layout == "s1" else [0] + list(range(2, 2 + nx)) + [1]


def payload(case, vars_, survey, weighted, valid_items_only):
    """(shape, flat Fractions) in payload order"""
    layout = case["layout"]
    if valid_items_only:
        vars_, survey = gen.drop_missing_items(vars_, survey)
    if layout in ("s1", "s2"):
        base = gen.tabulate(vars_, survey, weighted)
        return permute(base, gen.raw_shape(vars_), _perm(layout, len(vars_[1].raw_shape)))
    if layout == "fused":
        M, q = vars_[0], len(vars_)
        ni, nc = len(M.items), len(M.cats)
        out = []
        for i in range(ni):
            for c in range(nc):
                for j in range(q):
                    out.append(sum(((w if weighted else Fraction(1)) for w, ans in survey if ans[j][i] == c), Fraction(0)))
        return [ni, nc, q], out
    raise common.HarnessFault("no respondent-level payload for layout %r" % layout)


def _count_measure(wdata, weighted):
    return {"data": wdata, "n_missing": 0,
            "metadata": {"derived": True, "references": {},
                         "type": {"class": "numeric", "integer": not weighted, "missing_reasons": {"No Data": -1},
                                  "missing_rules": {}}}}


def response(case):
    """the REAL cube response of the case"""
    layout = case["layout"]
    if layout == "aa":
        els_r = [{"id": i + 1, "missing": bool(m), "value": {"derived": False, "id": "%04d" % (i + 1),
                                                             "references": {"alias": "r%d" % i, "name": "R%d" % i}}}
                 for i, m in enumerate(case["rmissing"])]
        els_c = [dict({"id": j, "name": "V%d" % j}, **({"missing": True} if m else {}))
                 for j, m in enumerate(case["cmissing"])]
        refs = {"alias": "aa", "name": "AA", "description": "two array axes"}
        dims = [{"derived": True, "references": dict(refs, subreferences=[e["value"]["references"] for e in els_r]),
                 "type": {"class": "enum", "elements": els_r, "subtype": {"class": "variable"}}},
                {"derived": True, "references": copy.deepcopy(refs),
                 "type": {"class": "enum", "elements": els_c, "subtype": {"class": "variable"}}}]
        wdata = [gen.num(Fraction(x)) for x in case["wdata"]]
        return {"query": {}, "result": {"counts": list(case["data"]), "dimensions": dims, "element": "crunch:cube",
                                        "measures": {"count": _count_measure(wdata, case["weighted"])},
                                        "missing": 0, "n": sum(case["data"])}}
    vars_, survey = load(case)
    if layout == "fused":
        M, q = vars_[0], len(vars_)
        sub_dim, cat_dim = M.dimension_dicts()
        var_dim = {"derived": True, "references": copy.deepcopy(sub_dim["references"]),
                   "type": {"class": "enum", "elements": [{"id": j, "name": "MR%d" % j} for j in range(q)],
                            "subtype": {"class": "variable"}}}
        dims = [sub_dim, cat_dim, var_dim]
    else:
        A, X = vars_
        sub_dim, cat_dim = A.dimension_dicts()
        dims = ([cat_dim] + X.dimension_dicts() + [sub_dim]) if layout == "s1" else ([sub_dim] + X.dimension_dicts() + [cat_dim])
    _, ucounts = payload(case, vars_, survey, False, False)
    _, wcounts = payload(case, vars_, survey, case["weighted"], False)
    return {"query": {}, "result": {"counts": [gen.num(x) for x in ucounts], "dimensions": dims,
                                    "element": "crunch:cube",
                                    "measures": {"count": _count_measure([gen.num(x) for x in wcounts], case["weighted"])},
                                    "missing": 0, "n": len(survey)}}


# ---------------------------------------------------------------------------------------
# the two real fixtures that evidence the layouts (replayed on every run: library vs Lean model on the REAL payload)

FIXTURES = [("ca-cat-x-mr-x-ca-subvar-hs.json", "s1"), ("scorecard.json", "fused")]


def fixture_cases(mod):
    """cases {"layout": "fixture", "as": s1|fused, "response": <the fixture>}; a fixture that is absent or does not have
    the expected dimension layout is skipped (counted by the caller)"""
    import json
    import os
    out = []
    for name, as_ in FIXTURES:
        path = os.path.join(common.REPO, "tests", "fixtures", name)
        if not os.path.exists(path):
            continue
        resp = json.load(open(path))
        resp = resp.get("value", resp)
        dims = resp["result"]["dimensions"]
        cls = [(d["type"]["class"], d["type"].get("subtype", {}).get("class")) for d in dims]
        want = {"s1": [("categorical", None), ("enum", "variable"), ("categorical", None), ("enum", "variable")],
                "fused": [("enum", "variable"), ("categorical", None), ("enum", "variable")]}[as_]
        if cls != want or any(e.get("missing") for d in dims for e in d["type"].get("elements", [])):
            continue
        out.append({"_mod": mod, "layout": "fixture", "as": as_, "name": name, "response": resp})
    return out


def _fixture_design(case):
    dims = case["response"]["result"]["dimensions"]
    sizes = [len(d["type"].get("categories", d["type"].get("elements"))) for d in dims]
    miss = lambda d: [bool(c.get("missing")) for c in d["type"]["categories"]]
    if case["as"] == "s1":
        A = {"kind": "arr", "n": sizes[3], "catMissing": miss(dims[0]), "isMR": False}
        X = {"kind": "arr", "n": sizes[1], "catMissing": miss(dims[2]), "isMR": True}
        return [A, X], sizes, {}, len([m for m in miss(dims[0]) if not m])
    M = {"kind": "arr", "n": sizes[0], "catMissing": miss(dims[1]), "isMR": True}
    return [M], sizes, {"q": sizes[2]}, 1


def fixture_ops(case):
    lv, shape, extra, np_ = _fixture_design(case)
    res = case["response"]["result"]
    wdata = [gen.frac_str(Fraction(x)) for x in res["measures"]["count"]["data"]]
    udata = [gen.frac_str(Fraction(x)) for x in res["counts"]]
    ops = []
    for k in range(np_):
        for data in (wdata, udata):
            ops.append(dict({"op": "ap_model", "layout": case["as"], "vars": lv, "shape": shape, "data": data, "k": k}, **extra))
    return ops


def fixture_evaluate(case, louts, bases_2d, check_margins):
    """library on the REAL fixture vs the Lean model on the fixture's payload (kind model: the contract's layout claim)"""
    from cr.cube.cube import Cube
    lv, shape, extra, np_ = _fixture_design(case)
    findings = []
    tg = "fixture." + case["as"]
    cube = Cube(copy.deepcopy(case["response"]))
    got = common.call_impl(lambda: len(cube.partitions))
    if got != np_ or any("error" in m for m in louts) or louts[0]["npartitions"] != np_:
        findings.append({"kind": "model", "locus": "arrpairs.%s.npartitions" % tg,
                         "detail": "library %r, model %r, expected %r" % (got, louts[0].get("npartitions"), np_)})
        return findings
    for k, p in enumerate(cube.partitions):
        mw, mu = louts[2 * k]["xtr"], louts[2 * k + 1]["xtr"]
        b = {}
        for name, skey, wtd in bases_2d:
            b[name] = common.model_to_float((mw if wtd else mu)[skey])
            compare(findings, "model", "arrpairs.%s.%s" % (tg, skey if wtd else "u" + skey),
                    common.call_impl(lambda: getattr(p, name)), b[name], "%s partition %d" % (case["name"], k))
        compare(findings, "model", "arrpairs.%s.counts" % tg, common.call_impl(lambda: p.counts),
                common.model_to_float(mw["counts"]), "%s partition %d" % (case["name"], k))
        compare(findings, "model", "arrpairs.%s.unweighted_counts" % tg, common.call_impl(lambda: p.unweighted_counts),
                common.model_to_float(mu["counts"]), "%s partition %d" % (case["name"], k))
        check_margins(findings, "model", tg, p, "mr", "arr", b, "%s partition %d" % (case["name"], k))
        wobj, uobj = ac.seam_objects(cube, k)
        for obj, which, m in ((wobj, "weighted", mw), (uobj, "unweighted", mu)):
            if type(obj).__name__ != CLS[("mr", "arr")]:
                findings.append({"kind": "model", "locus": "arrpairs.%s.seam.extractor_class" % tg,
                                 "detail": "%s, expected %s" % (type(obj).__name__, CLS[("mr", "arr")])})
                continue
            compare_xtr(findings, tg, obj, m, k, which)
    return findings


# ---------------------------------------------------------------------------------------
# Lean ops


def lean_ops(case):
    layout = case["layout"]
    if layout == "fixture":
        return fixture_ops(case)
    if layout == "aa":
        rv = [i for i, m in enumerate(case["rmissing"]) if not m]
        cv = [j for j, m in enumerate(case["cmissing"]) if not m]
        base = {"op": "ap_model", "layout": "aa", "shape": [case["nr"], case["nc"]], "rv": rv, "cv": cv, "k": 0}
        return [dict(base, data=list(case["wdata"])), dict(base, data=[str(x) for x in case["data"]])]
    vars_, survey = load(case)
    dv = vars_[:1] if layout == "fused" else vars_
    lv = [v.lean() for v in dv]
    ls = gen.survey_lean(vars_, survey)
    extra = {"q": case["q"]} if layout == "fused" else {}
    shape, wd = payload(case, vars_, survey, case["weighted"], True)
    _, ud = payload(case, vars_, survey, False, True)
    wdata, udata = [gen.frac_str(x) for x in wd], [gen.frac_str(x) for x in ud]
    ops = [dict({"op": "ap_cubeof", "layout": layout, "vars": lv, "survey": ls}, **extra)]
    for k in range(nparts(case, vars_)):
        ops.append(dict({"op": "ap_spec", "layout": layout, "vars": lv, "survey": ls, "k": k}, **extra))
        ops.append(dict({"op": "ap_model", "layout": layout, "vars": lv, "shape": shape, "data": wdata, "k": k}, **extra))
        ops.append(dict({"op": "ap_model", "layout": layout, "vars": lv, "shape": shape, "data": udata, "k": k}, **extra))
    return ops


# ---------------------------------------------------------------------------------------
# the property text in plain Python (respondent level)


def py_spec(case, vars_, survey, k, weighted):
    def total(pred):
        return sum(((w if weighted else Fraction(1)) for w, ans in survey if pred(ans)), Fraction(0))
    layout = case["layout"]
    if layout == "s1":
        A, X = vars_
        nr, nc = ext(X), len(A.valid_item_pos)
        cnt = lambda i, j: (lambda an: ac._member(X, an[1], i) and ac._ca_is(A, an[0], j, k))
        col = lambda i, j: (lambda an: ac._valid(X, an[1], i) and ac._ca_is(A, an[0], j, k))
        row, tab = cnt, col
    elif layout == "s2":
        A, X = vars_
        nr, nc = ext(X), len(A.valid_cat_pos)
        cnt = lambda i, j: (lambda an: ac._member(X, an[1], i) and ac._ca_is(A, an[0], k, j))
        row = lambda i, j: (lambda an: ac._member(X, an[1], i) and ac._ca_valid(A, an[0], k))
        col = lambda i, j: (lambda an: ac._valid(X, an[1], i) and ac._ca_is(A, an[0], k, j))
        tab = lambda i, j: (lambda an: ac._valid(X, an[1], i) and ac._ca_valid(A, an[0], k))
    elif layout == "fused":
        M = vars_[0]
        nr, nc = ext(M), len(vars_)
        cnt = lambda i, j: (lambda an: ac._member(M, an[j], i))
        col = lambda i, j: (lambda an: ac._valid(M, an[j], i))
        row, tab = cnt, col
    else:
        raise common.HarnessFault("unknown layout %r" % layout)
    mk = lambda f: [[total(f(i, j)) for j in range(nc)] for i in range(nr)]
    return {"counts": mk(cnt), "row_bases": mk(row), "column_bases": mk(col), "table_bases": mk(tab)}


def check_oracles(case, vars_, survey, louts):
    """tabulator == Lean contract in payload order; Python reading == Lean spec"""
    shape, w = payload(case, vars_, survey, True, True)
    _, u = payload(case, vars_, survey, False, True)
    if "error" in louts[0]:
        raise common.HarnessFault("ap_cubeof: %s" % louts[0]["error"])
    if (louts[0].get("weighted") != [gen.frac_str(x) for x in w] or louts[0].get("unweighted") != [gen.frac_str(x) for x in u]
            or louts[0].get("shape") != shape):
        raise common.HarnessFault("python tabulator != Lean cubeOfS1/S2/Fused on %r" % (case,))
    for k in range(nparts(case, vars_)):
        sp = louts[1 + 3 * k]
        if "error" in sp:
            raise common.HarnessFault("ap_spec: %s" % sp["error"])
        for wtd, pre in ((True, ""), (False, "u")):
            py = py_spec(case, vars_, survey, k, wtd)
            for name, val in py.items():
                if ac._fr(sp[pre + name]) != val:
                    raise common.HarnessFault("python reading != Lean spec: %s%s partition %d layout %s: %r vs %r on %r"
                                              % (pre, name, k, case["layout"], val, sp[pre + name], case))


# ---------------------------------------------------------------------------------------
# library


def make_cube(case):
    from cr.cube.cube import Cube
    return Cube(response(case))


def partitions_or_finding(case, cube, vars_, findings):
    tg = tag(case, vars_)
    want = nparts(case, vars_)
    got = common.call_impl(lambda: len(cube.partitions))
    if got != want:
        findings.append({"kind": "spec", "locus": "arrpairs.%s.npartitions" % tg, "detail": "%r != %r" % (got, want)})
        return None
    kinds = [type(p).__name__ for p in cube.partitions]
    if any(kd != "_Slice" for kd in kinds):
        findings.append({"kind": "spec", "locus": "arrpairs.%s.partition_class" % tg, "detail": "%r, expected _Slice" % (kinds,)})
        return None
    return cube.partitions


def compare(findings, kind, locus, impl, expected, detail):
    return ac.compare(findings, kind, locus, impl, expected, detail)


def compare_xtr(findings, tg, obj, want, k, which):
    for a in XTR_ATTRS:
        g = common.call_impl(lambda: getattr(obj, a))
        w = common.model_to_float(want.get(a))
        if a.endswith("mask") and isinstance(g, list) and isinstance(w, list):
            g, w = [bool(x) for x in g], [bool(x) for x in w]
        compare(findings, "model", "arrpairs.%s.seam.%s" % (tg, a), g, w, "partition %d %s extractor" % (k, which))


def shrink_candidates(case):
    if case["layout"] == "fixture":
        return
    if case["layout"] == "aa":
        d = case["data"]
        for i, x in enumerate(d):
            if x:
                yield dict(case, data=d[:i] + [0] + d[i + 1:], wdata=case["wdata"][:i] + ["0"] + case["wdata"][i + 1:])
        return
    for c in ac.shrink_candidates(case):
        yield c


def describe(case):
    if case["layout"] == "fixture":
        return {"layout": "fixture", "name": case["name"], "as": case["as"]}
    if case["layout"] == "aa":
        return {"layout": "aa", "shape": [case["nr"], case["nc"]], "rmissing": case["rmissing"],
                "cmissing": case["cmissing"], "weighted": case["weighted"]}
    vars_, survey = load(case)
    return {"layout": case["layout"], "kinds": [v.kind for v in vars_], "q": case.get("q"),
            "n_respondents": len(survey), "weighted": case["weighted"],
            "missing_flags": [v.cat_missing for v in vars_],
            "missing_items": [[bool(it.get("missing")) for it in v.items] for v in vars_],
            "first_respondents": case["survey"][:3]}
