"""C11 extension — subtotal / difference cells under a common scale of the weights.

The variance of a proportion is a function of RATIOS of weighted counts: multiplying every weight by a common factor
f > 0 leaves the variance and the standard deviation where they are and divides the squared standard error / MoE by f.
Weights normalised to a tiny total (a sub-sample of a population-scaled file, weights summing to 1 or to 1e-6) and
weights with long binary fractions are ordinary inputs; an absolute guard on a weighted count (`np.round(N, 6)`,
`np.isclose(N, 0)`, `N < 1e-9`, integer casts) distorts the three-term formula on them while every test fixture
(counts of the order of 1..1e4 with short fractions) goes through unchanged.

Family: ALWAYS weighted, ALWAYS at least one subtotal / difference insertion on a cat / cat_date dimension with >= 2
valid categories; strands (2/3) and slices (1/3); every weight of the survey times f = m x 2^-k with
k in {-20..60} (weighted N from ~1e7 down to ~1e-17) and m in {1, 3, 5, 1365/4096, 1 + 2^-20, 1 + 2^-30} - all dyadic,
at most ~45 significant bits in any count, so binary64 sums are exact and the exact Lean model applies.

Judged by the base module's oracles: every displayed cell (x 3 directions for slices) x the statistics against the Lean
respondent-level SPEC (kind "spec") and the Lean MODEL of the three-term formula (kind "model").
"""
from fractions import Fraction

import gen
from props import c11 as base
from props import stats_util as su

PROPERTY = "C11"
LEAN_MODULE = "CrCube.Props.C11_Scale"
THEOREMS = [
    "CrCube.C11.proportion_scale",
    "CrCube.C11.variance_scale",
    "CrCube.C11.stderr_radicand_scale",
]
RULE = ("weighted strands (2/3) and slices (1/3) over cat / cat_date (+ mr / text on the other dimension) with 1-3 "
        "subtotal / difference insertions, all weights times a common dyadic factor m x 2^-k (k in -20..60, m with up "
        "to 30 fractional bits); every displayed cell x statistics vs the respondent-level spec; non-trivial and "
        "distinct as in c11.py (+ the factor)")
ASSUMPTIONS = []
TRUSTED_EXTRA = []
EXHAUSTIVE = False

EXPONENTS = [-20, -10, -3, 0, 3, 7, 10, 13, 15, 17, 18, 19, 20, 21, 22, 24, 27, 30, 34, 40, 50, 60]
MANTISSAS = [Fraction(1), Fraction(1), Fraction(3), Fraction(5), Fraction(1365, 4096), Fraction(1365, 4096),
             1 + Fraction(1, 2 ** 20), 1 + Fraction(1, 2 ** 30)]


def gen_case(rng):
    strand = rng.random() < 0.67
    for _ in range(20):
        if strand:
            case = base.gen_case(rng, shape="strand", kinds=[rng.choice(["cat", "cat", "cat_date"])], weighted=True,
                                 n_resps=(5, 10, 20, 40), n_valid=(2, 5), p_ins=1.0, regimes=False, p_scale=0.0)
        else:
            kinds = rng.choice([["cat", "cat"], ["cat", "mr"], ["mr", "cat"], ["cat_date", "cat"], ["cat", "cat_date"],
                                ["text", "cat"], ["cat", "cat"]])
            case = base.gen_case(rng, shape="2d", kinds=kinds, weighted=True, n_resps=(5, 10, 20, 40), n_valid=(2, 4),
                                 p_ins=1.0, regimes=False, p_scale=0.0)
        if case["row_ins"] or case["col_ins"]:
            break
    if strand and rng.random() < 0.4:
        # a third insertion: strands with several subtotals and differences side by side
        vars_, _ = su.load_case(case)
        case["row_ins"] = case["row_ins"] + su.gen_insertions(rng, vars_[0], 1, p_diff=0.5)
        for i, d in enumerate(case["row_ins"]):
            d["name"] = "ins%d" % i
    f = rng.choice(MANTISSAS) / Fraction(2) ** rng.choice(EXPONENTS)
    vars_, survey = su.load_case(case)
    case["survey"] = gen.survey_to_json([(w * f, a) for w, a in survey])
    case["wfactor"] = gen.frac_str(f)
    case["_mod"] = "c11_wscale"
    return case


def generate(ctx):
    return [gen_case(ctx.rng) for _ in range(ctx.n(60, 3000))]


lean_ops = base.lean_ops


def _band(f):
    x = float(f)
    for name, lo in (("N>=1e3", 1e3), ("N~1", 1e-2), ("N~1e-4", 1e-5), ("N~1e-6", 1e-7), ("N~1e-9", 1e-11)):
        if x >= lo:
            return name
    return "N<1e-11"


def evaluate(case, louts, ctx):
    f = Fraction(case["wfactor"])
    ctx.count("wscale:%s:%s" % ("strand" if len(case["vars"]) == 1 else "slice", _band(f)))
    odd = f.numerator
    while odd % 2 == 0:
        odd //= 2
    ctx.count("wscale_mantissa:%s" % ("power-of-two" if odd == 1 else "long-fraction" if odd > 64 else "small-odd"))
    findings, key = base.evaluate(case, louts, ctx)
    for fd in findings:
        fd["locus"] = "wscale." + fd["locus"]
    if key is not None:
        key = ("wscale", case["wfactor"]) + tuple(key)
    return findings, key


def describe(case):
    return base.describe(case)


def shrink_candidates(case):
    for c in base.shrink_candidates(case):
        if c.get("weighted"):
            yield c
