"""C02 extension — the nine matrix count extractors at their own seam.

The library's `_BaseCubeCounts` subclasses (MR/ARR/CAT x MR/ARR/CAT) are instantiated DIRECTLY on a random raw
count tensor of the shape the factory would hand them, every attribute they expose is read (in a random order,
each twice), and the result is compared with the Lean model `MatCounts.factory` (op `xtr`) — the object the C02
theorems talk about.  Cube JSON cannot produce some of the pairings cheaply (MR x ARR needs a CA variable whose
two dimensions straddle an MR), this seam check covers all nine on every run.
"""
import numpy as np

from common import ensure_repo_on_path, model_to_float, deep_close, impl_canon

PROPERTY = "C02"
LEAN_MODULE = "CrCube.Props.C02"
THEOREMS = []
RULE = ("seam: each of the 9 extractor classes on random raw tensors (counts 0-6, zero rows/columns/planes), "
        "attributes read in a random order; distinct = (class, shape, data)")
ASSUMPTIONS = []

ATTRS = ["counts", "row_bases", "column_bases", "table_bases", "rows_base", "columns_base", "rows_table_base",
         "columns_table_base", "table_base", "rows_pruning_mask", "columns_pruning_mask"]
KINDS = ["mr", "arr", "cat"]
CLS = {("mr", "mr"): "_MrXMrCubeCounts", ("mr", "arr"): "_MrXArrCubeCounts", ("mr", "cat"): "_MrXCatCubeCounts",
       ("arr", "mr"): "_ArrXMrCubeCounts", ("arr", "arr"): "_ArrXArrCubeCounts", ("arr", "cat"): "_ArrXCatCubeCounts",
       ("cat", "mr"): "_CatXMrCubeCounts", ("cat", "arr"): "_CatXArrCubeCounts", ("cat", "cat"): "_CatXCatCubeCounts"}


def generate(ctx):
    rng = ctx.rng
    out = []
    for _ in range(ctx.n(90, 1800)):
        rk, ck = rng.choice(KINDS), rng.choice(KINDS)
        nr, nc = rng.choice([1, 2, 2, 3, 4]), rng.choice([1, 2, 3, 3, 4])
        shape = [nr] + ([3] if rk == "mr" else []) + [nc] + ([3] if ck == "mr" else [])
        n = int(np.prod(shape))
        hi = rng.choice([1, 3, 6, 6])
        data = [rng.randint(0, hi) for _ in range(n)]
        arr = np.array(data).reshape(shape)
        # --- empty rows / columns / MR planes so that masks and zero bases occur
        if rng.random() < 0.5:
            idx = [slice(None)] * len(shape)
            idx[0] = rng.randrange(nr)
            arr[tuple(idx)] = 0
        if rng.random() < 0.5:
            idx = [slice(None)] * len(shape)
            idx[2 if rk == "mr" else 1] = rng.randrange(nc)
            arr[tuple(idx)] = 0
        if rng.random() < 0.3 and "mr" in (rk, ck):
            idx = [slice(None)] * len(shape)
            idx[1 if rk == "mr" else len(shape) - 1] = rng.randrange(3)
            arr[tuple(idx)] = 0
        order = ATTRS[:]
        rng.shuffle(order)
        out.append({"_mod": "c02_xtr", "rk": rk, "ck": ck, "shape": shape,
                    "data": [int(x) for x in arr.reshape(-1)], "order": order})
    return out


def lean_ops(case):
    return [{"op": "xtr", "rk": case["rk"], "ck": case["ck"], "shape": case["shape"], "data": case["data"]}]


def evaluate(case, louts, ctx):
    ensure_repo_on_path()
    from cr.cube.matrix import cubemeasure as cm

    findings = []
    want = model_to_float(louts[0])
    klass = getattr(cm, CLS[(case["rk"], case["ck"])])
    raw = np.array(case["data"], dtype=float).reshape(case["shape"])
    obj = klass(None, raw, False)
    got = {}
    for a in case["order"]:
        try:
            got[a] = impl_canon(getattr(obj, a))
        except Exception as e:  # noqa
            got[a] = "raised:%s" % type(e).__name__
    for a in case["order"]:  # second read: the cached value must be the same
        try:
            again = impl_canon(getattr(obj, a))
        except Exception as e:  # noqa
            again = "raised:%s" % type(e).__name__
        if not deep_close(again, got[a])[0]:
            findings.append({"kind": "spec", "locus": "xtr.%sx%s.%s.reread" % (case["rk"], case["ck"], a),
                             "detail": "first read %r, second read %r" % (got[a], again)})
    for a in ATTRS:
        w = want.get(a)
        g = got[a]
        if isinstance(w, list) and isinstance(g, list) and a.endswith("mask"):
            w = [bool(x) for x in w]
            g = [bool(x) for x in g]
        if not deep_close(g, w)[0]:
            findings.append({"kind": "model", "locus": "xtr.%sx%s.%s" % (case["rk"], case["ck"], a),
                             "detail": "library %r, model %r (read order %s)" % (g, w, case["order"])})
    ctx.count("xtr.%sx%s" % (case["rk"], case["ck"]))
    key = ("xtr", case["rk"], case["ck"], tuple(case["shape"]), tuple(case["data"]))
    return findings, (key if sum(case["data"]) > 0 else None)


def describe(case):
    return {"family": "xtr", "rk": case["rk"], "ck": case["ck"], "shape": case["shape"]}


def shrink_candidates(case):
    d = case["data"]
    for i, x in enumerate(d):
        if x:
            c = dict(case)
            c["data"] = d[:i] + [0] + d[i + 1:]
            yield c
