"""C02 — bases and margins count exactly the respondents eligible for the denominator."""
import common
from props import _slice_common as sc

PROPERTY = "C02"
LEAN_MODULE = "CrCube.Props.C02"
THEOREMS = [
    "CrCube.C02.rowBase_spec_2d",
    "CrCube.C02.colBase_spec_2d",
    "CrCube.C02.tableBase_spec_2d",
    "CrCube.C02.rowBase_spec_3d",
    "CrCube.C02.colBase_spec_3d",
    "CrCube.C02.tableBase_spec_3d",
    "CrCube.C02.unweighted_counts_respondents",
    "CrCube.C02.margins_collapse",
    "CrCube.C02.rowsMargin_cases",
    "CrCube.C02.columnsMargin_cases",
    "CrCube.C02.minBaseMask_iff",
    "CrCube.C02.mask_fin",
    "CrCube.C02.strand_bases_spec",
    "CrCube.C02.ca_bases_spec",
    "CrCube.C02.table_range_spec",
]
RULE = ("random designs (1-3 variables over cat/cat_date/datetime/text/binned/mr/ca, missing categories anywhere, "
        "per-item missingness) x random surveys x min-base sizes; every base / margin / range / mask output of every "
        "partition is compared with the respondent-level spec (2-D bases) and the model (margins, ranges, masks); "
        "non-trivial = the unweighted table bases of some partition take >= 2 distinct values or the design is CATxCAT "
        "with >= 2 distinct row bases; distinct = (kinds, raw unweighted counts)")
ASSUMPTIONS = ["Spec.cubeOf is the back end's tabulation (checked per case in C01)"]

SLICE_2D = [("row_weighted_bases", "row_bases", True), ("column_weighted_bases", "column_bases", True),
            ("table_weighted_bases", "table_bases", True), ("row_unweighted_bases", "urow_bases", False),
            ("column_unweighted_bases", "ucolumn_bases", False), ("table_unweighted_bases", "utable_bases", False)]
SLICE_MARG = ["rows_margin", "columns_margin", "rows_base", "columns_base", "table_margin", "table_base",
              "table_base_range", "table_margin_range"]


def generate(ctx):
    rng = ctx.rng
    cases = [sc.gen_case(rng, min_base_choices=(0, 1, 2, 3, 5, 8, 10, 15, 20, 30)) for _ in range(ctx.n(150, 3000))]
    # square tables over an array dimension with a threshold that the per-item bases straddle (mask orientation)
    for _ in range(ctx.n(40, 600)):
        n = rng.randint(2, 3)
        kinds = rng.choice([["cat", "mr"], ["mr", "cat"], ["mr", "mr"], ["cat", "mr"]])
        c = sc.gen_case(rng, kinds=kinds, max_n=n, missing_items=False)
        vs = [sc.gen.Var.from_json(d) for d in c["vars"]]
        # force the same number of valid elements on both dimensions
        def ext(v):
            return len(v.items) if v.is_array else len(v.valid_cat_pos)
        if ext(vs[0]) != ext(vs[1]):
            continue
        c["min_base"] = rng.randint(1, max(2, len(c["survey"])))
        cases.append(c)
    return cases


def lean_ops(case):
    return sc.api_ops(case)


def evaluate(case, louts, ctx):
    vars_, survey = sc.load(case)
    kinds = sc.kinds_of(vars_)
    ctx.count("kinds:" + "x".join(kinds))
    findings = []
    cube = sc.make_cube(case)
    key = None
    if len(kinds) >= 2:
        np_ = sc.nparts(vars_)
        parts = common.call_impl(lambda: len(cube.partitions))
        if parts != np_:
            return [{"kind": "spec", "locus": "npartitions", "detail": "%r != %r" % (parts, np_)}], None
        for k in range(np_):
            api, spec = louts[2 * k], louts[2 * k + 1]
            sl = cube.partitions[k]
            for name, skey, wtd in SLICE_2D:
                impl = common.call_impl(lambda: getattr(sl, name))
                sname = skey if (wtd and case["weighted"]) or not wtd else "u" + skey
                sc.compare(findings, "spec", "slice.%s" % name, impl, common.model_to_float(spec[sname]), "partition %d" % k)
                sc.compare(findings, "model", "seam.slice_api.%s" % name, impl, common.model_to_float(api[name]), "partition %d" % k)
            for name in SLICE_MARG:
                impl = common.call_impl(lambda: getattr(sl, name))
                # margins are *collapsed forms* of the per-cell bases: the model value is derived from the same
                # extractor whose 2-D bases were compared with the respondent-level spec above
                sc.compare(findings, "spec", "slice.%s" % name, impl, common.model_to_float(api[name]), "partition %d" % k)
            mask = sl.min_base_size_mask
            for name in ("row_mask", "column_mask", "table_mask"):
                impl = common.call_impl(lambda: getattr(mask, name))
                sc.compare(findings, "spec", "slice.min_base_size_mask.%s" % name, impl, api[name], "partition %d size %s" % (k, case.get("min_base")))
            tb = common.model_to_float(spec["utable_bases"])
            vals = {x for row in tb for x in row}
            if len(vals) >= 2 or len({tuple(r) for r in common.model_to_float(spec["urow_bases"])}) >= 2:
                key = ("x".join(kinds), tuple(case["survey"][i][1][0][0] for i in range(min(6, len(case["survey"])))), len(case["survey"]))
            ctx.count("zero_base_partitions", int(any(x == 0 for x in vals)))
    else:
        api, spec = louts[0], louts[1]
        st = cube.partitions[0]
        w = case["weighted"]
        exp = {"weighted_bases": spec["bases"] if w else spec["ubases"], "unweighted_bases": spec["ubases"]}
        for name in ("weighted_bases", "unweighted_bases"):
            impl = common.call_impl(lambda: getattr(st, name))
            sc.compare(findings, "spec", "strand.%s" % name, impl, common.model_to_float(exp[name]))
            sc.compare(findings, "model", "seam.strand_api.%s" % name, impl, common.model_to_float(api[name]))
        for name in ("table_base_range", "table_margin_range"):
            impl = common.call_impl(lambda: getattr(st, name))
            sc.compare(findings, "spec", "strand.%s" % name, impl, common.model_to_float(api[name]))
        ub = common.model_to_float(spec["ubases"])
        if len(ub) >= 2 and any(x > 0 for x in ub):
            key = ("x".join(kinds), tuple(ub), len(case["survey"]))
    return findings, key


describe = sc.describe
shrink_candidates = sc.shrink_candidates
