"""C09 (metadata) — "explicitly hidden" and "the insertion itself is flagged hidden".

kind "spec": (1) with pruning off on a dimension, the base elements present in the reported order are EXACTLY the valid
elements whose transforms entry does not say `hide: true` (the JSON bool; 1, "true", "", None, False do not hide) -- the
entry being found under any spelling of the element (`MetaSpec.entryFor` through the Lean driver for array dimensions, int
or decimal-string id on categorical ones); `Dimension.hidden_idxs` is that set; (2) deleting the insertion dicts flagged
`hide: true` from the transforms / the variable view changes no order, label, code, alias or fill.
kind "model": as in c05_meta (dimension lists and assembled outputs vs `CrCube.Meta`).
"""
import copy

import common
from props import _meta_common as mc
from props import _slice_common as sc

PROPERTY = "C09"
LEAN_MODULE = "CrCube.Props.C09_Meta"
THEOREMS = [
    "CrCube.C09.hidden_idxs_exact",
    "CrCube.C09.hidden_insertion_dropped",
    "CrCube.C09.insertion_hide_flag",
    "CrCube.C09.reported_subtotals_not_hidden",
]
RULE = ("the c05_meta generator (hide values True / False / None / '' / 1 / 'true' under every key spelling, hidden / "
        "half-hidden insertions at transform and view level, MR hidden-insertion copies, all order types, prune); "
        "non-trivial = at least one element entry or insertion carries a hide key; distinct = (kinds, transforms)")
ASSUMPTIONS = ["visibility by pruning (emptiness) is the main C09 module's; here pruning is only switched on and off"]


def generate(ctx):
    return [mc.gen_case(ctx.rng) for _ in range(ctx.n(60, 1500))]


lean_ops = mc.lean_ops


def without_hidden_insertions(case, flagged=True):
    """(case', changed): flagged=True: every insertion dict flagged `hide: true` DELETED on non-array dimensions;
    flagged=False: every insertion hide flag that is not the bool true (1, "true", None, False) REMOVED from its dict"""
    c2 = copy.deepcopy(case)
    if not flagged:
        changed = False
        pd, _ = mc.part_dims(case)
        for key, raw, v, axis in pd:
            if axis == "items":
                continue
            lists = [c2["transforms"].get(key, {}).get("insertions") or []]
            lists += [d.get("view_insertions") or [] for d in c2["vars"] if d["alias"] == v.alias]
            for l in lists:
                for i in l:
                    if isinstance(i, dict) and "hide" in i and i["hide"] is not True:
                        del i["hide"]
                        changed = True
        return c2, changed
    tr = c2["transforms"]
    pd, _ = mc.part_dims(case)
    changed = False
    for key, raw, v, axis in pd:
        if axis == "items":
            continue
        td = tr.get(key, {})
        if "insertions" in td:
            kept = [i for i in td["insertions"] if not (isinstance(i, dict) and i.get("hide") is True)]
            changed |= len(kept) != len(td["insertions"])
            td["insertions"] = kept
        else:
            for d in c2["vars"]:
                if d["alias"] == v.alias and d.get("view_insertions"):
                    kept = [i for i in d["view_insertions"] if not (isinstance(i, dict) and i.get("hide") is True)]
                    changed |= len(kept) != len(d["view_insertions"])
                    d["view_insertions"] = kept
    return c2, changed


def evaluate(case, louts, ctx):
    findings = []
    vars_, _ = sc.load(case)
    kinds = sc.kinds_of(vars_)
    tr = case["transforms"]
    cube_t = mc.model_check(case, louts, findings, ctx)
    pd, _ = mc.part_dims(case)
    has_hide = False
    for k, p in enumerate(cube_t.partitions):
        axes, _ = mc.observe_part(p)
        for j, (key, raw, v, axis) in enumerate(pd):
            td = tr.get(key, {})
            has_hide |= any("hide" in x for _, x in (td.get("elements") or []))
            has_hide |= any(isinstance(i, dict) and "hide" in i for i in (td.get("insertions") or []))
            s = mc.spec_dim(case, key, raw, v, axis, louts[j])
            if s is None or any(h is None for h in s["hidden"]):
                ctx.count("meta.hidden.spec-silent")
                continue
            want = [i for i, h in enumerate(s["hidden"]) if h]
            # MR: a transform-level copy of a view insertion with a truthy hide flag hides that item as well (unless the
            # item has an entry of its own): part of "explicitly hidden"
            if axis == "items" and v.kind == "mr":
                hid_names = [i.get("name") for i in (td.get("insertions") or []) if isinstance(i, dict) and i.get("hide", False)]
                valid_items = [it for it in v.items if not it.get("missing")]
                m_spec = louts[j].get("spec") or {}
                for pos, it in enumerate(valid_items):
                    if it["subvar_id"] in hid_names and pos not in want and not _has_entry(td, it, v):
                        want.append(pos)
                want.sort()
            od = mc.observe_dim(p._dimensions[j])
            if od["hidden_idxs"] != want:
                findings.append({"kind": "spec", "locus": "meta.hidden_idxs.exact",
                                 "detail": "k=%d %s hidden_idxs %r, statement %r" % (k, key, od["hidden_idxs"], want)})
            o = axes[j]["order"]
            if isinstance(o, list) and not td.get("prune"):
                vis = sorted(i for i in o if i >= 0)
                exp = [i for i in range(len(s["hidden"])) if i not in want]
                if vis != exp:
                    findings.append({"kind": "spec", "locus": "meta.visible.iff-not-hidden",
                                     "detail": "k=%d %s order %r, not hidden %r" % (k, key, o, exp)})
    c2, changed = without_hidden_insertions(case)
    if changed:
        ctx.count("meta.hidden-insertions-deleted")
        cube_2 = mc.make_cube(c2, c2["transforms"])
        for k, (p, q) in enumerate(zip(cube_t.partitions, cube_2.partitions)):
            a1, s1 = mc.observe_part(p)
            a2, s2 = mc.observe_part(q)
            for j, (x, y) in enumerate(zip(a1, a2)):
                for f in x:
                    if not mc.close(x[f], y[f]):
                        findings.append({"kind": "spec", "locus": "meta.hidden-insertion.%s" % f,
                                         "detail": "k=%d axis %d: with the hidden insertions %s, without %s" % (
                                             k, j, mc.short(x[f]), mc.short(y[f]))})
    c3, changed3 = without_hidden_insertions(case, flagged=False)
    if changed3:
        ctx.count("meta.non-true-insertion-hide-removed")
        cube_3 = mc.make_cube(c3, c3["transforms"])
        for k, (p, q) in enumerate(zip(cube_t.partitions, cube_3.partitions)):
            a1, _ = mc.observe_part(p)
            a3, _ = mc.observe_part(q)
            for j, (x, y) in enumerate(zip(a1, a3)):
                for f in x:
                    if not mc.close(x[f], y[f]):
                        findings.append({"kind": "spec", "locus": "meta.insertion-hide-not-true.%s" % f,
                                         "detail": "k=%d axis %d: with a non-true hide flag %s, without the flag %s" % (
                                             k, j, mc.short(x[f]), mc.short(y[f]))})
    key = ("x".join(kinds), repr(tr)) if has_hide else None
    return findings, key


def _has_entry(td, it, v):
    """the item has an element-transforms entry of its own (any spelling, or its zero-based position): such an entry
    replaces the insertion copy wholesale (`{**hidden_xforms, **all_xforms}`), so the statement is taken to be silent
    on whether the copy's hide flag survives (weaker reading)"""
    spell = [it["alias"], it["subvar_id"], it["id"], str(it["id"])]
    eids = [i["id"] for i in v.items]
    for k, _ in (td.get("elements") or []):
        if any(type(k) is type(s) and k == s for s in spell):
            return True
        try:
            n = int(k)
        except (TypeError, ValueError):
            continue
        if n not in eids and 0 <= n < len(v.items) and v.items[n] is it:
            return True
    return False


describe = mc.describe
shrink_candidates = mc.shrink_candidates
