"""C20 — smoothing is a trailing moving average over categorical-date periods.

Seams
  direct : `_SingleSidedMovingAvgSmoother.smooth` / `Smoother.factory` on explicit arrays, EXHAUSTIVE over
           (n <= 8) x (window in {absent, null, -1, 0..10}) x (cat-date / not) with every NaN pattern of the
           1-D series, plus 2-D arrays of 0..3 rows  -> Lean Model (`smooth1/smooth2`) and Spec (`smoothed`).
  api    : generated surveys -> REAL cube responses -> `Cube(resp, transforms={"columns_dimension": {"smoother": …}})`
           `_Slice.smoothed_column_proportions / _percentages / smoothed_column_index / smoothed_means /
           smoothed_columns_scale_mean`, `_Strand.smoothed_means`, against
             (a) the Lean Spec fed with EXACT unsmoothed values computed from the respondents, and
             (b) a float trailing mean of the library's OWN unsmoothed measure (the relation C20 states).
"""
from fractions import Fraction
import itertools
import math
import types

import gen
import common

PROPERTY = "C20"
LEAN_MODULE = "CrCube.Props.C20"
THEOREMS = [
    "CrCube.C20.pad_conv_eq_series",
    "CrCube.C20.canSmooth_iff",
    "CrCube.C20.smooth_eq_spec",
    "CrCube.C20.smooth_spec",
    "CrCube.C20.smooth_length",
    "CrCube.C20.smooth_guards",
    "CrCube.C20.smooth2_eq_spec",
    "CrCube.C20.smooth2_guards",
    "CrCube.C20.default_window",
    "CrCube.C20.factory_spec",
    "CrCube.C20.smoothed_column_proportions",
    "CrCube.C20.smoothed_nan_subtotals",
    "CrCube.C20.smoothed_means_strand",
    "CrCube.C20.smoothed_percentages",
    "CrCube.C20.smoothed_scale_mean",
    "CrCube.C20.smoothed_scale_mean_spec",
    "CrCube.C20.smoothed_scale_mean_subcols_partial",
    "CrCube.C20.smoothed_scale_mean_subcols_counterexample",
]
RULE = ("direct: every (n<=8, window in {absent,null,-1,0..10}, cat-date?) pair, 1-D series under EVERY NaN pattern "
        "and 2-D arrays with 0..3 rows (quick tier is exhaustive over that grid); api: random designs "
        "(rows cat/mr/text/cat_date with row subtotals incl. differences, numeric values, optional table dimension) x "
        "(columns cat_date or not) x window (valid, invalid, absent) x surveys / mean payloads with NaN; "
        "non-trivial = smoothing applied and >=2 distinct finite smoothed values; distinct = (seam, n, w, shape) key")
ASSUMPTIONS = [
    "window is an int or absent/null; values are float64 (exact rationals in the model, compared at rel 1e-9)",
    "column subtotals on the smoothed (categorical-date) dimension are outside C20's quantifier ('with row subtotals'); "
    "they are exercised and counted under smoothed_scale_mean.column-subtotals as an observation only",
]
EXHAUSTIVE = True

NAN = float("nan")
WINDOWS = ["absent", None, -1] + list(range(0, 11))
VALUES = [Fraction(0), Fraction(1), Fraction(1, 2), Fraction(3), Fraction(-2), Fraction(5, 4), Fraction(7),
          Fraction(1, 8), Fraction(10), Fraction(-1, 4)]


# ---------------------------------------------------------------------------------------
# generation


def _vs(x):
    """value -> wire string"""
    if x is None:
        return "nan"
    if isinstance(x, str):
        return x
    return gen.frac_str(x)


def gen_direct(rng, n, w, cat_date, big=False):
    vals = [rng.choice(VALUES) for _ in range(n)]
    if rng.random() < 0.15:
        vals = [Fraction(0)] * n       # a non-empty all-zero series is still smoothed (NaN padding)
    series = []
    if cat_date and not big:
        for mask in itertools.product([0, 1], repeat=n):
            series.append(["nan" if m else _vs(v) for m, v in zip(mask, vals)])
    else:
        series.append([_vs(v) for v in vals])
        series.append(["nan" if rng.random() < 0.3 else _vs(rng.choice(VALUES)) for _ in range(n)])
    # an infinity now and then
    if n:
        s = [_vs(rng.choice(VALUES)) for _ in range(n)]
        s[rng.randrange(n)] = rng.choice(["inf", "-inf"])
        if n > 2 and rng.random() < 0.5:
            s[rng.randrange(n)] = rng.choice(["inf", "-inf"])
        series.append(s)
    mats = []
    for nrows in (0, 1, 2, 3):
        mats.append([["0"] * n for _ in range(rng.randint(1, 2))])     # all-zero 2-D block
        mats.append([["nan" if rng.random() < 0.2 else _vs(rng.choice(VALUES)) for _ in range(n)]
                     for _ in range(nrows)])
    func = rng.choice(["absent", None, "", "one_sided_moving_avg", "one_sided_moving_avg"])
    return {"t": "direct", "n": n, "w": w, "cat_date": cat_date, "function": func, "series": series, "mats": mats}


def _subtotals(rng, var, allow_diff=True):
    ids = [c["id"] for c in var.cats if not c["missing"]]
    out = []
    for k in range(rng.choice([0, 1, 1, 2])):
        pos = rng.sample(ids, rng.randint(1, min(3, len(ids))))
        rest = [i for i in ids if i not in pos]
        neg = []
        if allow_diff and rest and rng.random() < 0.4:
            neg = rng.sample(rest, rng.randint(1, min(2, len(rest))))
        anchor = rng.choice(["top", "bottom"] + ids)
        out.append({"function": "subtotal", "name": "S%d" % k, "anchor": anchor, "args": pos,
                    "kwargs": {"negative": neg} if neg else {}})
    return out


def _wave_subtotals(rng, var):
    """row insertions on a categorical-date dimension: a multi-term wave difference (several addends and/or several
    subtrahends), optionally a single-term one and a plain multi-addend subtotal"""
    ids = [c["id"] for c in var.cats if not c["missing"]]
    out = []

    def ins(pos, neg):
        out.append({"function": "subtotal", "name": "W%d" % len(out), "anchor": rng.choice(["top", "bottom"] + ids),
                    "args": pos, "kwargs": {"negative": neg} if neg else {}})
    kinds = ["multi"] + [k for k in ("single", "plain", "multi") if rng.random() < 0.5]
    rng.shuffle(kinds)
    for kind in kinds:
        perm = rng.sample(ids, len(ids))
        if kind == "multi":
            na = rng.choice([1, 2, 2]) if len(ids) >= 3 else 1
            nn = 2 if (na == 1 or (len(ids) >= 4 and rng.random() < 0.4)) else 1
            nn = min(nn, len(ids) - na)
            if na == 1 and nn < 2:
                na, nn = 2, 1
            ins(perm[:na], perm[na:na + nn])
        elif kind == "single":
            ins(perm[:1], perm[1:2])
        else:
            ins(perm[:rng.randint(2, len(ids))], [])
    return out


def gen_api(rng):
    shape = rng.choice(["2d", "2d", "2d", "2d", "3d", "means2d", "means1d", "notdate", "badfunc", "wavediff"])
    col_kind = "cat_date"
    row_kind = rng.choice(["cat", "cat", "cat", "mr", "text", "cat_date"])
    wavediff = shape == "wavediff"
    if wavediff:
        # CAT_DATE x CAT_DATE with wave-difference ROW subtotals (single- and multi-term) and plain multi-addend ones:
        # a multi-term wave difference has NaN column proportions, so its smoothed row is NaN too
        shape, row_kind = "2d", "cat_date"
    if shape == "notdate":
        col_kind = rng.choice(["cat", "text", "datetime"])
    ncols = rng.randint(3, 7) if wavediff else rng.randint(1, 7)
    vars_ = []
    if shape == "3d":
        vars_.append(gen.gen_var(rng, "cat", "t", n=rng.randint(1, 3)))
    if shape == "means1d":
        vars_.append(gen.gen_var(rng, rng.choice(["cat_date", "cat_date", "cat_date", "cat"]), "c", n=ncols))
    else:
        if shape == "means2d":
            row_kind = "cat"
        vars_.append(gen.gen_var(rng, row_kind, "r", n=rng.randint(3, 6) if wavediff else rng.randint(1, 4),
                                 numeric=rng.choice(["some", "all", "some", "none"]), min_valid=3 if wavediff else 1))
        vars_.append(gen.gen_var(rng, col_kind, "c", n=ncols))
    weighted = rng.random() < 0.6
    survey = gen.gen_survey(rng, vars_, weighted=weighted, n_resp=rng.randint(0, 60))
    w = rng.choice(["absent", None, 0, 1, 2, 2, 2, 3, 3, 4, 5, ncols, ncols + 1, -1])
    if wavediff:
        w = rng.choice([2, 2, 3, "absent"])
    smoother = {}
    if w != "absent":
        smoother["window"] = w
    f = rng.choice(["absent", "one_sided_moving_avg", "one_sided_moving_avg", None, ""])
    if shape == "badfunc":
        f = rng.choice(["two_sided", "mean", "ONE_SIDED_MOVING_AVG"])
    if f != "absent":
        smoother["function"] = f
    smoother_given = rng.random() < 0.9 or shape == "badfunc"
    case = {"t": "api", "shape": shape, "vars": [v.to_json() for v in vars_],
            "survey": gen.survey_to_json(survey), "weighted": weighted,
            "smoother": smoother if smoother_given else "absent",
            "row_subtotals": [], "col_subtotals": [], "means": None}
    if shape in ("2d", "3d", "notdate", "badfunc") and row_kind in ("cat", "cat_date") and rng.random() < 0.6:
        case["row_subtotals"] = _subtotals(rng, vars_[-2])
    if wavediff:
        case["row_subtotals"] = _wave_subtotals(rng, vars_[-2])
    if shape in ("2d",) and rng.random() < 0.15:
        case["col_subtotals"] = _subtotals(rng, vars_[-1], allow_diff=False)
    if shape in ("2d", "3d", "means2d") and rng.random() < 0.2:
        ids = [c["id"] for c in vars_[-1].cats if not c["missing"]]
        rng.shuffle(ids)
        case["col_order"] = ids
    if shape in ("means2d", "means1d"):
        size = 1
        for s in gen.raw_shape(vars_):
            size *= s
        case["means"] = [None if rng.random() < 0.15 else _vs(rng.choice(VALUES)) for _ in range(size)]
    return case


def generate(ctx):
    rng = ctx.rng
    cases = []
    for n in range(0, 9):
        for w in WINDOWS:
            for cd in (True, False):
                cases.append(gen_direct(rng, n, w, cd))
    ctx.count("exhaustive_done")
    for _ in range(ctx.n(0, 2000)):
        n = rng.randint(9, 40)
        w = rng.choice(["absent", None, rng.randint(-2, n + 3), rng.randint(2, n), n, n + 1])
        cases.append(gen_direct(rng, n, w, rng.random() < 0.85, big=True))
    for _ in range(ctx.n(500, 15000)):
        cases.append(gen_api(rng))
    return cases


# ---------------------------------------------------------------------------------------
# lean ops


def _smoother_json(case_smoother):
    d = {}
    if isinstance(case_smoother, dict):
        for k in ("function", "window"):
            if k in case_smoother and case_smoother[k] is not None:
                d[k] = case_smoother[k]
    return d


def _direct_dict(case):
    d = {}
    if case["w"] != "absent":
        d["window"] = case["w"]
    if case["function"] != "absent":
        d["function"] = case["function"]
    return d


def _load(case):
    vars_ = [gen.Var.from_json(d) for d in case["vars"]]
    survey = gen.survey_from_json(case["survey"])
    return vars_, survey


def _div(a, b):
    """exact a/b with numpy's 0/0 = nan (wire value)"""
    if b == 0:
        if a == 0:
            return None
        return "inf" if a > 0 else "-inf"
    return Fraction(a) / Fraction(b)


class Table:
    """exact respondent-level quantities of one partition (rows var x cols var, valid elements only)"""

    def __init__(self, vars_, survey, weighted, k):
        if len(vars_) == 3:
            t = vars_[0]
            tpos = t.valid_cat_pos[k]
            survey = [(w, a[1:]) for w, a in survey if a[0][0] == tpos]
            vars_ = vars_[1:]
        self.rv, self.cv = vars_
        self.survey = [(w if weighted else Fraction(1), a) for w, a in survey]
        self.rows = list(range(len(self.rv.items))) if self.rv.kind == "mr" else self.rv.valid_cat_pos
        self.cols = self.cv.valid_cat_pos

    def in_row(self, a, i):
        if self.rv.kind == "mr":
            return a[0][i] == 0
        return a[0][0] == i

    def row_valid(self, a, i):
        if self.rv.kind == "mr":
            return a[0][i] in (0, 1)
        return a[0][0] in self.rows

    def count(self, i, j):
        return sum((w for w, a in self.survey if self.in_row(a, i) and a[1][0] == j), Fraction(0))

    def col_base(self, i, j):
        return sum((w for w, a in self.survey if self.row_valid(a, i) and a[1][0] == j), Fraction(0))

    def row_margin(self, i):
        """unconditional row share (baseline of the column index): over ALL respondents with a valid row
        answer, whatever (even missing) their column answer"""
        num = sum((w for w, a in self.survey if self.in_row(a, i)), Fraction(0))
        den = sum((w for w, a in self.survey if self.row_valid(a, i)), Fraction(0))
        return _div(num, den)


def _sub_rows(case, tab):
    """exact column proportions of the row subtotals: count difference over the column base; on CATEGORICAL-DATE rows
    a wave difference with more than one addend or more than one subtrahend is NaN (C04's wave-difference rule)"""
    out = []
    rv = tab.rv
    id2pos = {c["id"]: p for p, c in enumerate(rv.cats)}
    for st in case["row_subtotals"]:
        add = [id2pos[i] for i in st["args"]]
        neg = [id2pos[i] for i in st.get("kwargs", {}).get("negative", [])]
        if rv.kind == "cat_date" and neg and (len(neg) > 1 or len(add) > 1):
            out.append([None for _ in tab.cols])
            continue
        row = []
        for j in tab.cols:
            num = sum(tab.count(i, j) for i in add) - sum(tab.count(i, j) for i in neg)
            row.append(_div(num, tab.col_base(tab.rows[0], j)))
        out.append(row)
    return out


def _nparts(vars_):
    return len(vars_[0].valid_cat_pos) if len(vars_) == 3 else 1


def _means_arrays(case, vars_):
    """unsmoothed means restricted to valid elements: 2-D list (or 1-D for a strand)"""
    data = case["means"]
    shape = gen.raw_shape(vars_)
    if len(vars_) == 1:
        return [data[p] for p in vars_[0].valid_cat_pos]
    nc = shape[1]
    return [[data[i * nc + j] for j in vars_[1].valid_cat_pos] for i in vars_[0].valid_cat_pos]


def _numeric_values(rv):
    if rv.kind == "mr":
        return [None for _ in rv.items]
    if rv.kind not in ("cat", "cat_date"):
        return [None for _ in rv.valid_cat_pos]
    return [rv.cats[p].get("numeric_value") for p in rv.valid_cat_pos]


def lean_ops(case):
    if case["t"] == "direct":
        return [{"op": "smooth", "smoother": _smoother_json(_direct_dict(case)), "cat_date": case["cat_date"],
                 "series": case["series"], "mats": case["mats"]}]
    vars_, survey = _load(case)
    sm = _smoother_json(case["smoother"])
    ops = []
    shape = case["shape"]
    if shape == "means1d":
        ops.append({"op": "smoothed_measures", "smoother": sm, "cat_date": vars_[0].kind == "cat_date",
                    "colprops": {"base": [], "sub_cols": [], "sub_rows": [], "inter": []}, "body": [],
                    "nr": 0, "nc": 0, "values": [], "strand": [_vs(x) for x in _means_arrays(case, vars_)]})
        return ops
    cd = vars_[-1].kind == "cat_date"
    for k in range(_nparts(vars_)):
        tab = Table(vars_, survey, case["weighted"], k)
        base = [[_vs(_div(tab.count(i, j), tab.col_base(i, j))) for j in tab.cols] for i in tab.rows]
        subr = [[_vs(x) for x in row] for row in _sub_rows(case, tab)]
        if shape == "means2d":
            body = [[_vs(x) for x in row] for row in _means_arrays(case, vars_)]
        else:
            # column index = 100 * column proportion / unconditional row share
            body = []
            for i in tab.rows:
                m = tab.row_margin(i)
                row = []
                for j in tab.cols:
                    p = _div(tab.count(i, j), tab.col_base(i, j))
                    row.append(_vs(_idx(p, m)))
                body.append(row)
        ops.append({"op": "smoothed_measures", "smoother": sm, "cat_date": cd,
                    "colprops": {"base": base, "sub_cols": [[] for _ in base], "sub_rows": subr,
                                 "inter": [[] for _ in subr]},
                    "body": body, "nr": len(subr), "nc": 0,
                    "values": [_vs(x) for x in _numeric_values(tab.rv)], "strand": []})
    return ops


def _idx(p, m):
    """100 * (p / m) under numpy semantics, on wire values (Fraction | None=nan | 'inf' | '-inf')"""
    if p is None or m is None:
        return None
    if isinstance(p, str) or isinstance(m, str):
        return None  # cannot occur: shares are within [0, 1]
    if m == 0:
        if p == 0:
            return None
        return "inf" if p > 0 else "-inf"
    return 100 * p / m


# ---------------------------------------------------------------------------------------
# evaluation


def _np(rows):
    import numpy as np
    return np.array([[common.model_to_float(x) for x in r] for r in rows], dtype=np.float64)


def trailing(vals, w):
    """the property statement on floats: NaN for t < w-1, else mean of vals[t-w+1..t]"""
    out = []
    for t in range(len(vals)):
        if t < w - 1:
            out.append(NAN)
        else:
            s = 0.0
            for x in vals[t - w + 1:t + 1]:
                s = s + x
            out.append(s / w)
    return out


def window_of(given):
    if given == "absent" or given is None or given == 0:
        return 2
    return given


def expected_series(vals, cat_date, given_w):
    w = window_of(given_w)
    if cat_date and 2 <= w <= len(vals):
        return trailing(vals, w), True
    return list(vals), False


def _cmp(findings, kind, locus, impl, want, note):
    ok, where = common.deep_close(impl, want)
    if not ok:
        findings.append({"kind": kind, "locus": locus, "detail": "%s: impl%s (impl=%r want=%r)" % (note, where, impl, want)})
    return ok


def eval_direct(case, louts, ctx):
    import numpy as np
    from cr.cube.smoothing import Smoother, _SingleSidedMovingAvgSmoother
    from cr.cube.enums import DIMENSION_TYPE as DT
    out = louts[0]
    findings = []
    d = _direct_dict(case)
    dt = DT.CAT_DATE if case["cat_date"] else DT.CAT
    dim = types.SimpleNamespace(smoothing_dict=d, dimension_type=dt)
    if "raises" in out:
        raise common.HarnessFault("direct case with a valid function raised in the model: %r" % out)
    sm = common.call_impl(lambda: Smoother.factory(dim))
    if isinstance(sm, dict) and "raises" in sm:
        findings.append({"kind": "spec", "locus": "factory.raises", "detail": "factory raised %r on %r" % (sm, d)})
        return findings, None
    n, gw = case["n"], case["w"]
    key = None
    for name, arrs, mod, spec in (("1d", case["series"], out["series"], out["spec"]["series"]),
                                  ("2d", case["mats"], out["mats"], out["spec"]["mats"])):
        for a, m, s in zip(arrs, mod, spec):
            if name == "1d":
                x = np.array([common.model_to_float(v) for v in a], dtype=np.float64)
            else:
                x = np.array([[common.model_to_float(v) for v in r] for r in a], dtype=np.float64).reshape(len(a), n)
            for smoother, via in ((Smoother.factory(dim), "factory"),
                                  (_SingleSidedMovingAvgSmoother(d, dt), "class")):
                impl = common.call_impl(lambda: smoother.smooth(x.copy()))
                if name == "2d" and len(a) == 0:
                    impl = [] if impl == [] or impl == [[]] else impl
                # independent python statement
                if name == "1d":
                    want, applied = expected_series(x.tolist(), case["cat_date"], gw)
                else:
                    rows = [expected_series(r, case["cat_date"], gw) for r in x.tolist()]
                    want, applied = [r[0] for r in rows], any(r[1] for r in rows)
                sf = common.model_to_float(s)
                ok, where = common.deep_close(want, sf)
                if not ok:
                    raise common.HarnessFault("python statement != Lean spec%s on %r" % (where, case))
                locus = "smoother.%s.%s" % (name, "values" if applied else "guard")
                _cmp(findings, "spec", locus, impl, sf, "n=%d w=%r cat_date=%r via %s input=%r" % (n, gw, case["cat_date"], via, a))
                _cmp(findings, "model", "seam.smooth.%s" % name, impl, common.model_to_float(m),
                     "n=%d w=%r via %s input=%r" % (n, gw, via, a))
                if applied:
                    key = ("direct", n, window_of(gw), case["cat_date"])
    ctx.count("direct:%s" % ("applied" if key else "guarded"))
    if key is None:
        key = ("direct-guard", n, str(gw), case["cat_date"])
    return findings, key


def _transforms(case, vars_):
    tr = {}
    dimkey = "rows_dimension" if len(vars_) == 1 else "columns_dimension"
    if case["smoother"] != "absent":
        tr[dimkey] = {"smoother": case["smoother"]}
    if case["col_subtotals"]:
        tr.setdefault("columns_dimension", {})["insertions"] = case["col_subtotals"]
    if case.get("col_order"):
        tr.setdefault("columns_dimension", {})["order"] = {"type": "explicit", "element_ids": case["col_order"]}
    if case["row_subtotals"]:
        tr.setdefault("rows_dimension", {})["insertions"] = case["row_subtotals"]
    return tr


def _display(base, subs, order):
    allrows = list(base) + list(subs)
    n = len(allrows)
    return [allrows[i if i >= 0 else n + i] for i in order]


def eval_api(case, louts, ctx):
    import numpy as np
    from cr.cube.cube import Cube
    vars_, survey = _load(case)
    findings = []
    shape = case["shape"]
    means = None
    if case["means"] is not None:
        means = [({"?": -8} if x is None else common.model_to_float(x)) for x in case["means"]]
    resp = gen.cube_response(vars_, survey, case["weighted"],
                             extra_measures={"mean": means} if means is not None else None)
    cube = Cube(resp, transforms=_transforms(case, vars_))
    sm = case["smoother"] if isinstance(case["smoother"], dict) else {}
    gw = sm.get("window", "absent")
    w = window_of(gw)
    func = sm.get("function") or "one_sided_moving_avg"
    expect_raise = func != "one_sided_moving_avg"
    ctx.count("api:" + shape)
    if shape == "2d" and vars_[0].kind == "cat_date" and vars_[-1].kind == "cat_date" and any(
            st.get("kwargs", {}).get("negative") and (len(st["kwargs"]["negative"]) > 1 or len(st["args"]) > 1)
            for st in case["row_subtotals"]):
        ctx.count("api:catdate-x-catdate multi-term wave difference row")
    key = None

    def check_raise(name, thunk, out):
        impl = common.call_impl(thunk)
        if not (isinstance(impl, dict) and impl.get("raises") == "NotImplementedError"):
            findings.append({"kind": "spec", "locus": "factory.not-implemented",
                             "detail": "%s with function %r: expected NotImplementedError, got %r" % (name, func, impl)})
        if "raises" not in out:
            raise common.HarnessFault("model did not raise for function %r" % func)

    if shape == "means1d":
        st = cube.partitions[0]
        out = louts[0]
        cd = vars_[0].kind == "cat_date"
        if expect_raise:
            check_raise("strand.smoothed_means", lambda: st.smoothed_means, out)
            return findings, ("api-raise", "1d")
        impl = common.call_impl(lambda: st.smoothed_means)
        spec = common.model_to_float(out["spec"]["strand"])
        own = common.call_impl(lambda: st.means)
        want_rel, applied = expected_series(own, cd, gw)
        _cmp(findings, "spec", "strand.smoothed_means" + ("" if applied else ".guard"), impl, spec, "w=%r cat_date=%r" % (gw, cd))
        _cmp(findings, "spec", "strand.smoothed_means.relation", impl, want_rel, "w=%r vs own means %r" % (gw, own))
        _cmp(findings, "model", "seam.strand.smoothed_means", impl, common.model_to_float(out["strand"]), "w=%r" % (gw,))
        if applied and len({x for x in impl if isinstance(x, float) and math.isfinite(x)}) >= 2:
            key = ("api", "means1d", len(own), w)
        return findings, key

    cd = vars_[-1].kind == "cat_date"
    nparts = _nparts(vars_)
    parts = cube.partitions
    if len(parts) != nparts:
        raise common.HarnessFault("partition count %d != %d" % (len(parts), nparts))
    for k in range(nparts):
        sl = parts[k]
        out = louts[k]
        tab = Table(vars_, survey, case["weighted"], k)
        ncols = len(tab.cols)
        if expect_raise:
            nms = ["smoothed_column_proportions", "smoothed_column_index", "smoothed_column_percentages"]
            if not all(v is None for v in _numeric_values(tab.rv)):
                nms.append("smoothed_columns_scale_mean")
            for nm in nms:
                check_raise(nm, lambda nm=nm: getattr(sl, nm), out)
            key = ("api-raise", "2d")
            continue
        applied = cd and 2 <= w <= ncols
        tag = "" if applied else ".guard"
        row_order = common.call_impl(lambda: sl.row_order())
        col_order = common.call_impl(lambda: sl.column_order())
        nsubc = len(case["col_subtotals"])
        if not isinstance(col_order, list) or sorted(c for c in col_order if c >= 0) != list(range(ncols)):
            raise common.HarnessFault("unexpected column order %r" % (col_order,))
        # display position of each PERIOD (payload order): all expectations below are in payload order
        col_sel = [col_order.index(t) for t in range(ncols)]
        if col_sel != list(range(ncols)):
            ctx.count("api:columns-reordered")

        def pay(m):
            """display matrix -> body columns in payload (period) order"""
            if isinstance(m, list) and (not m or isinstance(m[0], list)):
                return [[r[c] for c in col_sel] for r in m]
            return m
        spec = out["spec"]

        def rel2d(own):
            return [expected_series(r, cd, gw)[0] for r in own]

        if shape == "means2d":
            impl = pay(common.call_impl(lambda: sl.smoothed_means))
            own = pay(common.call_impl(lambda: sl.means))
            want = _display(common.model_to_float(spec["body"]), [], row_order)
            _cmp(findings, "spec", "slice.smoothed_means" + tag, impl, want, "w=%r" % (gw,))
            _cmp(findings, "spec", "slice.smoothed_means.relation", impl, rel2d(own), "w=%r vs own means" % (gw,))
            mb = out["body"]
            _cmp(findings, "model", "seam.slice.smoothed_means", impl,
                 _display(common.model_to_float(mb["base"]), common.model_to_float(mb["sub_rows"]), row_order), "w=%r" % (gw,))
            if applied and _distinct(impl) >= 2:
                key = ("api", "means2d", ncols, w, len(impl))
            continue

        # ---- column proportions / percentages
        impl_p = common.call_impl(lambda: sl.smoothed_column_proportions)
        impl_pc = pay(common.call_impl(lambda: sl.smoothed_column_percentages))
        own_p = pay(common.call_impl(lambda: sl.column_proportions))
        if nsubc:
            # observation stream: inserted columns on the smoothed dimension (outside the quantifier)
            ctx.count("observed:column-subtotals")
            impl_ssm = common.call_impl(lambda: sl.smoothed_columns_scale_mean)
            if isinstance(impl_ssm, list) and isinstance(impl_p, list):
                ins_cols = [i for i, c in enumerate(col_order) if c < 0]
                vals = _numeric_values(tab.rv)
                want_ins = [_scale_mean(vals, [impl_p[r][c] for r, ro in enumerate(row_order) if ro >= 0],
                                        [ro for ro in row_order if ro >= 0]) for c in ins_cols]
                ok, _ = common.deep_close([impl_ssm[c] for c in ins_cols], want_ins)
                if not ok:
                    ctx.count("observed:smoothed_scale_mean.column-subtotals differs from scale mean of smoothed proportions")
        # the body columns must obey the statement (inserted columns are dropped by `pay`)
        impl_p = pay(impl_p)
        scp = spec["colprops"]
        want_p = _display(common.model_to_float(scp["base"]), common.model_to_float(scp["sub_rows"]), row_order)
        _cmp(findings, "spec", "slice.smoothed_column_proportions" + tag, impl_p, want_p, "w=%r part=%d" % (gw, k))
        _cmp(findings, "spec", "slice.smoothed_column_proportions.relation", impl_p, rel2d(own_p) if isinstance(own_p, list) else own_p,
             "w=%r part=%d vs own column_proportions" % (gw, k))
        _cmp(findings, "spec", "slice.smoothed_column_percentages" + tag, impl_pc,
             [[100 * x for x in r] for r in want_p], "w=%r part=%d" % (gw, k))
        mcp = out["colprops"]
        _cmp(findings, "model", "seam.slice.smoothed_column_proportions", impl_p,
             _display(common.model_to_float(mcp["base"]), common.model_to_float(mcp["sub_rows"]), row_order), "w=%r" % (gw,))

        # ---- column index (body smoothed, subtotal rows NaN)
        impl_i = pay(common.call_impl(lambda: sl.smoothed_column_index))
        own_i = pay(common.call_impl(lambda: sl.column_index))
        nanrows = [[NAN] * ncols for _ in case["row_subtotals"]]
        want_i = _display(common.model_to_float(spec["body"]), nanrows, row_order)
        _cmp(findings, "spec", "slice.smoothed_column_index" + tag, impl_i, want_i, "w=%r part=%d" % (gw, k))
        _cmp(findings, "spec", "slice.smoothed_column_index.relation", impl_i, rel2d(own_i) if isinstance(own_i, list) else own_i,
             "w=%r part=%d vs own column_index" % (gw, k))
        mb = out["body"]
        _cmp(findings, "model", "seam.slice.smoothed_column_index", impl_i,
             _display(common.model_to_float(mb["base"]), common.model_to_float(mb["sub_rows"]), row_order), "w=%r" % (gw,))

        # ---- scale mean of the smoothed proportions
        impl_s = common.call_impl(lambda: sl.smoothed_columns_scale_mean)
        vals = _numeric_values(tab.rv)
        if all(v is None for v in vals):
            if impl_s is not None:
                findings.append({"kind": "spec", "locus": "slice.smoothed_columns_scale_mean.undefined",
                                 "detail": "no numeric values on rows, got %r" % (impl_s,)})
        else:
            if isinstance(impl_s, list):
                impl_s = [impl_s[c] for c in col_sel]
            want_s = common.model_to_float(spec["scale_mean"])
            _cmp(findings, "spec", "slice.smoothed_columns_scale_mean" + tag, impl_s, want_s, "w=%r part=%d" % (gw, k))
            if isinstance(impl_p, list):
                body_rows = [(r, ro) for r, ro in enumerate(row_order) if ro >= 0]
                rel = [_scale_mean(vals, [impl_p[r][c] for r, _ in body_rows], [ro for _, ro in body_rows])
                       for c in range(ncols)]
                _cmp(findings, "spec", "slice.smoothed_columns_scale_mean.relation", impl_s, rel,
                     "w=%r part=%d vs scale mean of own smoothed proportions" % (gw, k))
            _cmp(findings, "model", "seam.slice.smoothed_columns_scale_mean", impl_s,
                 common.model_to_float(out["scale_mean"]), "w=%r" % (gw,))
        if applied and isinstance(impl_p, list) and _distinct(impl_p) >= 2:
            key = ("api", shape, tab.rv.kind, ncols, w, len(case["row_subtotals"]))
        if not cd:
            ctx.count("api:not-cat-date")
        elif not applied:
            ctx.count("api:invalid-window")
    return findings, key


def _scale_mean(vals, props, row_idx):
    """sum(v*p)/sum(p) over rows with a numeric value; `props[k]` belongs to base row `row_idx[k]`"""
    num = 0.0
    den = 0.0
    for p, ri in zip(props, row_idx):
        v = vals[ri]
        if v is None:
            continue
        num += v * p
        den += p
    if den == 0:
        return NAN if (num == 0 or math.isnan(num)) else math.copysign(float("inf"), num)
    return num / den


def _distinct(m):
    s = set()
    for r in m:
        for x in r:
            if isinstance(x, float) and math.isfinite(x):
                s.add(round(x, 9))
    return len(s)


def evaluate(case, louts, ctx):
    if case["t"] == "direct":
        return eval_direct(case, louts, ctx)
    return eval_api(case, louts, ctx)


def describe(case):
    if case["t"] == "direct":
        return {"t": "direct", "n": case["n"], "w": case["w"], "cat_date": case["cat_date"],
                "n_series": len(case["series"]), "first": case["series"][:2]}
    return {"t": "api", "shape": case["shape"], "kinds": [v["kind"] for v in case["vars"]],
            "smoother": case["smoother"], "n_respondents": len(case["survey"]),
            "row_subtotals": case["row_subtotals"], "col_subtotals": case["col_subtotals"],
            "col_order": case.get("col_order")}


def shrink_candidates(case):
    if case["t"] == "direct":
        for i in range(len(case["series"])):
            yield dict(case, series=[case["series"][i]], mats=[])
        for i in range(len(case["mats"])):
            yield dict(case, series=[], mats=[case["mats"][i]])
        return
    sv = case["survey"]
    n = len(sv)
    if n > 1:
        yield dict(case, survey=sv[: n // 2])
        yield dict(case, survey=sv[n // 2:])
    for i in range(min(n, 20)):
        yield dict(case, survey=sv[:i] + sv[i + 1:])
    for i in range(len(case["row_subtotals"])):
        yield dict(case, row_subtotals=case["row_subtotals"][:i] + case["row_subtotals"][i + 1:])
    if case["col_subtotals"]:
        yield dict(case, col_subtotals=[])
    if case.get("col_order"):
        yield dict(case, col_order=None)
