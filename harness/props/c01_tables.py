"""C01 extension: source-table tie for dimension types, array types, response measures and the extractor
dispatch (see _srctables.py).  Generated theorems: dimension_types_named / dimension_types_all (Glue.DT is the
DIMENSION_TYPE member list), array_types (DT.isArray = ARRAY_TYPES), cube_measures (accepted response measures in
declaration order), numeric_measures, counts_dispatch ((rows kind, cols kind) -> the class named for that pair)."""
from props import _srctables

PROPERTY = "C01"
THEOREMS = []
RULE = ("source-table tie: one case; DIMENSION_TYPE, ARRAY_TYPES, CUBE_MEASURE, NUMERIC_CUBE_MEASURES and the "
        "_BaseCubeCounts dispatch dictionary are translated from the working tree and proved equal to the model's tables")
TRUSTED_EXTRA = ["tools/srctables.py (ast translator of dict / enum literals)"]
NAMES = ["dimension_types_named", "dimension_types_all", "array_types", "cube_measures", "numeric_measures",
         "counts_dispatch"]
generate, lean_ops, evaluate, describe = _srctables.make_module(PROPERTY, NAMES, "type / measure / dispatch tables")
