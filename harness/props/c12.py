"""C12 — residual z-scores and p-values are adjusted standardized residuals.

Per partition: `_Slice.zscores`, `.pvals`, `.residual_test_stats` (public API) vs
  Lean Spec  (respondent level: adjusted standardized residual from the cell's own bases, NaN for
              tables lacking two independent rows/columns)                                   -> kind "spec"
  Lean Model (`_calculate_zscores` / `_is_defective` / `_calculate_pval` on the primitives computed
              here from the survey, block by block)                                           -> kind "model"
plus, on the implementation directly: z^2 == Pearson chi-square for 2x2 CAT x CAT tables,
p in [0, 1], and scipy's Phi sampled against the assumptions of `p_range`.
"""
from fractions import Fraction
import math

import gen
import common
from props import stats_util as su

PROPERTY = "C12"
LEAN_MODULE = "CrCube.Props.C12"
THEOREMS = []  # filled at the bottom
RULE = ("2-D / 3-D cubes over cat/cat_date/mr (+ text/binned/datetime), weighted (dyadic incl. 0) or not, optional "
        "subtotal and difference insertions on categorical dimensions; besides random surveys (0-40 respondents, "
        "uneven missingness, restricted supports => empty margins) the generator forces degenerate tables: single "
        "row / single column, exactly proportional rows (rank 1), all-selected MR items (table base == row base), "
        "2x2 CAT x CAT, large samples (the survey replicated K = 1e4 / 1e5 / 3e6 times, integer payload when unweighted), rank-2 tables with an inserted rows / columns / intersection block whose z are all exactly 0 "
        "(p must be 1); non-trivial = non-defective table with >= 2 distinct finite non-zero z; "
        "distinct = (kinds, insertion shapes, raw weighted counts)")
ASSUMPTIONS = ["numpy.linalg.matrix_rank(counts) < 2  <=>  all 2x2 minors vanish, on the generated dyadic data "
               "(SVD tolerance not modelled; compared per case)",
               "Phi (scipy.stats.norm.cdf) is monotone, Phi(0) = 1/2, 0 <= Phi <= 1 (sampled per case)"]
TRUSTED_EXTRA = ["scipy.stats.norm.cdf evaluates the symbolic normal-tail terms"]

KINDS = ["cat", "cat", "cat", "cat", "cat_date", "cat_date", "mr", "mr", "mr", "text", "binned", "datetime"]


def _product_survey(rng, vars_, weighted):
    """exactly proportional rows: W(i, j) = a_i * b_j (rank <= 1) for two categorical variables"""
    vr, vc = vars_[-2], vars_[-1]
    ws = [Fraction(1, 2), Fraction(1), Fraction(2), Fraction(3)]
    a = {p: (rng.choice(ws) if weighted else rng.randint(0, 3)) for p in range(len(vr.cats))}
    b = {p: (rng.choice(ws) if weighted else rng.randint(0, 3)) for p in range(len(vc.cats))}
    survey = []
    for i in range(len(vr.cats)):
        for jx in range(len(vc.cats)):
            if weighted:
                pre = [[0]] if len(vars_) == 3 else []
                survey.append((a[i] * b[jx], pre + [[i], [jx]]))
            else:
                for _ in range(int(a[i] * b[jx])):
                    pre = [[0]] if len(vars_) == 3 else []
                    survey.append((Fraction(1), pre + [[i], [jx]]))
    return survey


ZBOTH = [(1, 2, 1, 3, 2), (2, 1, 1, 3, 2), (1, 3, 1, 2, 1), (1, 3, 2, 1, 1), (2, 4, 3, 1, 1), (1, 2, 3, 1, 2)]


def _zero_block_case(rng):
    """a rank-2 CAT x CAT table one of whose INSERTED blocks has z == 0 exactly in every cell:
    the subtotal of rows S is exactly proportional to the column margin (rows r1 = alpha*m + delta,
    r2 = beta*m - delta, remaining rows multiples of m), transposed for a column subtotal, and a
    symmetric 3x3 table [[a,b,e],[b,a,e],[c,c,f]] with (a+b) f = 2 e c for rows + columns +
    intersection.  p must be 2(1 - Phi(0)) = 1 there."""
    which = rng.choice(["rows", "cols", "both"])
    if which == "both":
        a, b, e, c, f = rng.choice(ZBOTH)
        table = [[a, b, e], [b, a, e], [c, c, f]]
    else:
        n_other = rng.choice([2, 2, 3])
        m = [rng.randint(1, 3) for _ in range(n_other)]
        delta = [1, -1] + [0] * (n_other - 2)
        rng.shuffle(delta)
        al, be = rng.randint(1, 2), rng.randint(1, 2)
        table = [[al * x + dl for x, dl in zip(m, delta)], [be * x - dl for x, dl in zip(m, delta)]]
        for _ in range(rng.choice([0, 1, 1, 2])):
            table.append([rng.randint(0, 2) * x for x in m])
        if which == "cols":
            table = [list(r) for r in zip(*table)]
    nr, nc = len(table), len(table[0])
    kinds = [rng.choice(["cat", "cat_date"]), rng.choice(["cat", "cat_date"])]
    vr = su.gen_dim_var(rng, kinds[0], "v0", n_valid=nr, n_missing=rng.choice([0, 1]), missing_first=rng.random() < 0.4)
    vc = su.gen_dim_var(rng, kinds[1], "v1", n_valid=nc, n_missing=rng.choice([0, 1]), missing_first=rng.random() < 0.4)
    weighted = rng.random() < 0.5
    scale = rng.choice([Fraction(1, 2), Fraction(1), Fraction(3, 2), Fraction(2)]) if weighted else Fraction(1)
    survey = []
    for i, pi in enumerate(vr.valid_cat_pos):
        for jx, pj in enumerate(vc.valid_cat_pos):
            if weighted:
                if table[i][jx]:
                    survey.append((table[i][jx] * scale, [[pi], [pj]]))
            else:
                survey.extend([(Fraction(1), [[pi], [pj]])] * table[i][jx])
    # respondents with a missing answer do not enter the table
    for v, other, first in ((vr, vc, True), (vc, vr, False)):
        for mp in [k for k, cc in enumerate(v.cats) if cc["missing"]]:
            o = rng.randrange(len(other.cats))
            survey.append((scale, [[mp], [o]] if first else [[o], [mp]]))
    rng.shuffle(survey)

    def ins(v, k):
        ids = [v.cats[p]["id"] for p in v.valid_cat_pos[:2]]
        return [{"function": "subtotal", "args": ids, "anchor": rng.choice(["top", "bottom", ids[0]]),
                 "name": "zero%d" % k}]
    row_ins = ins(vr, 0) if which in ("rows", "both") else []
    col_ins = ins(vc, 1) if which in ("cols", "both") else []
    return {"vars": [vr.to_json(), vc.to_json()], "survey": gen.survey_to_json(survey), "weighted": weighted,
            "row_ins": row_ins, "col_ins": col_ins, "mode": "zeroblock-" + which}


CONSTRUCTED = ("rank1", "zeroblock-rows", "zeroblock-cols", "zeroblock-both")


def gen_case(rng):
    case = _gen_case(rng)
    case["scale"] = su.pick_scale(rng, 0.2)
    # weight regimes; tables built from chosen weights keep their structure only under a uniform scale
    # (no mixed scales here: count - expected cancels to ~1e-6 relative when a row weighs 2^-34 of the table)
    allowed = ("tiny",) if case["mode"] in CONSTRUCTED else ("tiny", "small")
    regime = su.pick_regime(rng, case["weighted"], p_each=0.1, allowed=allowed)
    if regime:
        vars_, survey = su.load_case(case)
        case["survey"] = gen.survey_to_json(su.apply_regime(rng, vars_, survey, regime))
    case["wregime"] = regime
    return case


def _gen_case(rng):
    mode = rng.choice(["random"] * 6 + ["single", "rank1", "allsel", "2x2", "2x2", "tiny", "zeroblock", "zeroblock"])
    if mode == "zeroblock":
        return _zero_block_case(rng)
    nd = rng.choice([2, 2, 2, 3])
    if mode in ("rank1", "2x2"):
        nd = 2
        kinds = [rng.choice(["cat", "cat_date"]), rng.choice(["cat", "cat_date"])]
    elif mode == "allsel":
        kinds = ["mr", rng.choice(["cat", "mr", "cat_date"])]
        if rng.random() < 0.5:
            kinds.reverse()
        nd = 2
    else:
        kinds = [rng.choice(KINDS) for _ in range(2)]
    if nd == 3:
        kinds = [rng.choice(["cat", "mr", "cat_date"])] + kinds
    vars_ = []
    for i, kd in enumerate(kinds):
        nv = rng.choice([1, 2, 2, 3, 3, 4]) if (nd == 2 or i) else rng.randint(1, 2)
        nm = rng.choice([0, 0, 1, 2])
        if mode == "single" and i == len(kinds) - 1 - rng.randint(0, 1):
            nv = 1
        if mode == "2x2" and kd != "mr":
            nv, nm = 2, rng.choice([0, 1])
        if mode == "rank1":
            nv = rng.randint(2, 4)
        vars_.append(su.gen_dim_var(rng, kd, "v%d" % i, n_valid=nv, n_missing=nm, missing_first=rng.random() < 0.4))
    weighted = rng.random() < 0.55
    n_resp = rng.choice([0, 1, 2, 3]) if mode == "tiny" else rng.choice([8, 15, 20, 30, 40])
    if mode == "rank1":
        survey = _product_survey(rng, vars_, weighted)
    else:
        survey = su.gen_survey(rng, vars_, n_resp, weighted)
    if mode == "allsel":
        # nobody answers "other" on the MR items: table base == row (or column) base everywhere
        new = []
        for w, ans in survey:
            ans2 = []
            for v, a in zip(vars_, ans):
                ans2.append([0 if (v.kind == "mr" and x == 1) else x for x in a])
            new.append((w, ans2))
        survey = new
    row_ins = col_ins = []
    if vars_[-2].kind in ("cat", "cat_date") and rng.random() < 0.5:
        row_ins = su.gen_insertions(rng, vars_[-2], rng.randint(1, 2), p_diff=0.3)
    if vars_[-1].kind in ("cat", "cat_date") and rng.random() < 0.5:
        col_ins = su.gen_insertions(rng, vars_[-1], rng.randint(1, 2), p_diff=0.3)
    return {"vars": [v.to_json() for v in vars_], "survey": gen.survey_to_json(survey), "weighted": weighted,
            "row_ins": row_ins, "col_ins": col_ins, "mode": mode}


def generate(ctx):
    return [gen_case(ctx.rng) for _ in range(ctx.n(300, 15000))]


def _wsurvey(case, survey):
    ws = survey if case["weighted"] else [(Fraction(1), a) for _, a in survey]
    return su.scaled_survey(ws, case.get("scale", 1))


def _sides(case, vars_):
    rb, rs = su.sides_of(vars_[-2], case["row_ins"])
    cb, cs = su.sides_of(vars_[-1], case["col_ins"])
    return rb + rs, cb + cs


def lean_ops(case):
    vars_, survey = su.load_case(case)
    lv = su.lean_vars(vars_)
    ws = _wsurvey(case, survey)
    ls = gen.survey_lean(vars_, ws)
    rows, cols = _sides(case, vars_)
    nr, nc = su.n_valid_elems(vars_[-2]), su.n_valid_elems(vars_[-1])
    ops = []
    for k in range(su.n_partitions(vars_)):
        cx = su.SliceCtx(vars_, ws, k)
        cells = []
        for R in rows:
            row = []
            for C in cols:
                row.append({"np": su.fs(cx.W(cx.pos_pred(R, C))), "nn": su.fs(cx.W(cx.neg_pred(R, C))),
                            "tb": su.fs(cx.W(cx.base_pred("table", R, C))),
                            "rb": su.fs(cx.W(cx.base_pred("row", R, C))),
                            "cb": su.fs(cx.W(cx.base_pred("col", R, C)))})
            cells.append(row)
        counts = [[cells[i][j]["np"] for j in range(nc)] for i in range(nr)]
        ops.append({"op": "c12_model", "rows": rows, "cols": cols, "nr": nr, "nc": nc, "counts": counts,
                    "cells": cells})
        ops.append({"op": "c12_spec", "vars": lv, "survey": ls, "k": k, "rows": rows, "cols": cols,
                    "nr": nr, "nc": nc})
    return ops


def transforms_for(case):
    """insertions + the optional DISPLAY transforms of a case (`case["display"]` = {"rows": d, "cols": d}, each d with
    optional "hide" (element ids), "prune" (bool), "order" (an order dict)); z / p of a cell do not depend on them"""
    tr = su.transforms_of(case["row_ins"], case["col_ins"])
    disp = case.get("display") or {}
    for side, dk in (("rows", "rows_dimension"), ("cols", "columns_dimension")):
        d = disp.get(side) or {}
        if d.get("hide"):
            tr.setdefault(dk, {})["elements"] = {str(i): {"hide": True} for i in d["hide"]}
        if d.get("prune"):
            tr.setdefault(dk, {})["prune"] = True
        if d.get("order"):
            tr.setdefault(dk, {})["order"] = d["order"]
    return tr


def _shape_ok(m, a, b):
    if not isinstance(m, list) or len(m) != a:
        return False
    return all(isinstance(r_, list) and len(r_) == b for r_ in m)


def _display_fault(case, vars_, ro, co, rows, cols, nr, nc):
    """the displayed signed indexes must name existing rows / columns once each, leave out every hidden element and
    (without prune) nothing else; returns a message or None"""
    disp = case.get("display") or {}
    for nm, order, sides, nbase, v, d in (("rows", ro, rows, nr, vars_[-2], disp.get("rows") or {}),
                                          ("cols", co, cols, nc, vars_[-1], disp.get("cols") or {})):
        nins = len(sides) - nbase
        if any((not isinstance(i, int)) or i >= nbase or i < -nins for i in order) or len(set(order)) != len(order):
            return "%s order %r out of range / repeated (base %d, inserted %d)" % (nm, order, nbase, nins)
        ids = su.valid_element_ids(v)
        hidden = {e for e, i in enumerate(ids) if i in (d.get("hide") or [])}
        shown = {i for i in order if i >= 0}
        if shown & hidden:
            return "%s: hidden elements %r displayed (%r)" % (nm, sorted(shown & hidden), order)
        if not d.get("prune") and not disp.get("rows", {}).get("prune") and not disp.get("cols", {}).get("prune"):
            if shown != set(range(nbase)) - hidden or len(order) != len(sides) - len(hidden):
                return "%s: displayed %r, expected all of %d base + %d inserted but hidden %r" % (
                    nm, order, nbase, nins, sorted(hidden))
    return None


def _pairing_fault(P, Z, norm):
    if not isinstance(P, list) or not isinstance(Z, list):
        return None
    if len(P) != len(Z) or any(len(a) != len(b) for a, b in zip(P, Z)):
        return "shapes differ: p %r z %r" % (P, Z)
    for i, (pr, zr) in enumerate(zip(P, Z)):
        for j, (p_, z_) in enumerate(zip(pr, zr)):
            if su.isnan(p_) != su.isnan(z_):
                return "cell (%d,%d): p=%r z=%r (NaN on one side only)" % (i, j, p_, z_)
            if su.isnan(z_) or not isinstance(z_, float):
                continue
            want = 2.0 * (1.0 - float(norm.cdf(abs(z_))))
            if not common.num_close(p_, want, rel=1e-9):
                return "cell (%d,%d): p=%r but 2(1-Phi(|z|))=%r for its z=%r" % (i, j, p_, want, z_)
    return None


def _blockkind(R, C):
    def one(S):
        if not S["inserted"]:
            return "base"
        return "diff" if S["sub"] else "subtotal"
    r, c = one(R), one(C)
    if r == "base" and c == "base":
        return "base"
    if r != "base" and c != "base":
        return "intersection.%s-x-%s" % (r, c)
    return "%s-row" % r if r != "base" else "%s-col" % c


def _typekey(vars_):
    return "%sx%s" % ("mr" if vars_[-2].kind == "mr" else "cat", "mr" if vars_[-1].kind == "mr" else "cat")


def evaluate(case, louts, ctx):
    from cr.cube.cube import Cube
    from scipy.stats import norm
    vars_, survey = su.load_case(case)
    findings = []
    ctx.count("kinds:" + su.kinds_key(vars_))
    ctx.count("mode:" + case.get("mode", "?"))
    if case.get("wregime"):
        ctx.count("weight_regime:" + case["wregime"])
    resp = su.scale_response(gen.cube_response(vars_, survey, case["weighted"]), case.get("scale", 1))
    if case.get("scale", 1) > 1:
        ctx.count("large_sample_cases:%s" % ("weighted" if case["weighted"] else "unweighted"))
    cube = Cube(resp, transforms=transforms_for(case))
    disp = case.get("display") or {}
    if disp:
        ctx.count("display_transform_cases")
    nparts = su.n_partitions(vars_)
    parts = common.call_impl(lambda: len(cube.partitions))
    if parts != nparts:
        if nparts == 0:
            return findings, None
        findings.append({"kind": "model", "locus": "npartitions", "detail": "%r != %r" % (parts, nparts)})
        return findings, None
    rows, cols = _sides(case, vars_)
    nr, nc = su.n_valid_elems(vars_[-2]), su.n_valid_elems(vars_[-1])
    tk = _typekey(vars_)
    nontrivial = False
    for k in range(nparts):
        model, spec = louts[2 * k], louts[2 * k + 1]
        sl = cube.partitions[k]
        ro = common.call_impl(lambda: sl.row_order().tolist())
        co = common.call_impl(lambda: sl.column_order().tolist())
        if isinstance(ro, dict) or isinstance(co, dict):
            findings.append({"kind": "model", "locus": "slice.shape", "detail": "orders %r %r" % (ro, co)})
            continue
        if not disp and (len(ro) != len(rows) or len(co) != len(cols)):
            findings.append({"kind": "model", "locus": "slice.shape", "detail": "orders %r %r" % (ro, co)})
            continue
        if disp:
            bad = _display_fault(case, vars_, ro, co, rows, cols, nr, nc)
            if bad:
                findings.append({"kind": "model", "locus": "slice.display-order", "detail": "partition %d: %s" % (k, bad)})
                continue
            ctx.count("displayed_shape:%s" % "x".join("1" if n_ == 1 else ("0" if n_ == 0 else "n") for n_ in (len(ro), len(co))))
        if model["defective"] != spec["defective"]:
            raise common.HarnessFault("model/spec defective flags differ (python primitives vs lean survey) on %r" % case)
        dfct = spec["defective"]
        ctx.count("defective_partitions" if dfct else "regular_partitions")
        # numpy's rank on the very table (assumption check, reported as model-kind)
        import numpy as np
        cnt = np.array(common.model_to_float(spec["counts"]), dtype=float).reshape(nr, nc)
        np_def = (not all(cnt.shape)) or np.linalg.matrix_rank(cnt) < 2
        if bool(np_def) != bool(dfct):
            findings.append({"kind": "model", "locus": "assumption.matrix_rank-vs-minors",
                             "detail": "numpy rank test %r, minors test %r on %r" % (np_def, dfct, cnt.tolist())})
        for name, key in (("zscores", "z"), ("pvals", "p")):
            impl = common.call_impl(lambda: getattr(sl, name))
            if isinstance(impl, dict):
                findings.append({"kind": "spec", "locus": "%s.raises.%s" % (name, tk),
                                 "detail": "partition %d: %s raises %r" % (k, name, impl)})
                continue
            if not _shape_ok(impl, len(ro), len(co)):
                findings.append({"kind": "spec", "locus": "%s.shape.%s" % (name, tk),
                                 "detail": "partition %d: %s has not the displayed shape %d x %d: %r"
                                           % (k, name, len(ro), len(co), impl)})
                continue
            sp = common.model_to_float(su.block_pick(spec[key], ro, co))
            md = common.model_to_float(su.block_pick(model[key], ro, co))
            done = False
            for ii, ri in enumerate(ro):
                for jj, cj in enumerate(co):
                    bk = _blockkind(rows[ri], cols[cj])
                    iv = impl[ii][jj]
                    if dfct and not su.isnan(iv):
                        findings.append({"kind": "spec", "locus": "%s.defective-table-not-nan" % name,
                                         "detail": "partition %d cell (%d,%d): %r in a table lacking two independent rows/columns"
                                                   % (k, ii, jj, iv)})
                        done = True
                    elif not common.num_close(iv, sp[ii][jj]):
                        findings.append({"kind": "spec", "locus": "%s.%s.%s" % (name, bk, tk),
                                         "detail": "partition %d cell (%d,%d): impl=%r spec=%r model=%r"
                                                   % (k, ii, jj, iv, sp[ii][jj], md[ii][jj])})
                        done = True
                    elif not common.num_close(iv, md[ii][jj]):
                        findings.append({"kind": "model", "locus": "seam.%s.%s.%s" % (name, bk, tk),
                                         "detail": "partition %d cell (%d,%d): impl=%r model=%r" % (k, ii, jj, iv, md[ii][jj])})
                        done = True
                    if name == "pvals" and isinstance(iv, float) and iv == iv and not (0.0 <= iv <= 1.0):
                        findings.append({"kind": "spec", "locus": "pvals.range",
                                         "detail": "partition %d cell (%d,%d): p=%r outside [0,1]" % (k, ii, jj, iv)})
                        done = True
                    if done:
                        break
                if done:
                    break
        # distribution: inserted blocks whose z-scores are all exactly 0 (p must be 1 there)
        zs0 = common.call_impl(lambda: sl.zscores)
        if isinstance(zs0, list):
            for nm, sel in (("rows", lambda R, C: R["inserted"] and not C["inserted"]),
                            ("cols", lambda R, C: not R["inserted"] and C["inserted"]),
                            ("intersections", lambda R, C: R["inserted"] and C["inserted"])):
                blk = [zs0[ii][jj] for ii, ri in enumerate(ro) for jj, cj in enumerate(co) if sel(rows[ri], cols[cj])]
                if blk and all(x == 0.0 for x in blk):
                    ctx.count("all_zero_inserted_%s_block" % nm)
        # residual_test_stats = [pvals, zscores]
        rts = common.call_impl(lambda: sl.residual_test_stats)
        pv = common.call_impl(lambda: sl.pvals)
        zs = common.call_impl(lambda: sl.zscores)
        if isinstance(rts, list) and isinstance(pv, list) and isinstance(zs, list):
            ok, where = common.deep_close(rts, [pv, zs])
            if not ok:
                findings.append({"kind": "spec", "locus": "residual_test_stats", "detail": "!= [pvals, zscores]%s" % where})
            # every displayed z pairs with ITS OWN p: p = 2(1 - Phi(|z|)), NaN iff NaN (in both readings of the
            # accessor pair: pvals / zscores and the two planes of residual_test_stats)
            for pname, P, Z in (("pvals-vs-zscores", pv, zs),
                                ("residual_test_stats", rts[0] if len(rts) == 2 else None, rts[1] if len(rts) == 2 else None)):
                bad = _pairing_fault(P, Z, norm)
                if bad:
                    findings.append({"kind": "spec", "locus": "p-z-pairing.%s" % pname,
                                     "detail": "partition %d (displayed %d x %d): %s" % (k, len(ro), len(co), bad)})
        # 2x2 CAT x CAT: z^2 == Pearson chi-square (directly on the implementation)
        if isinstance(zs, list) and nr == 2 and nc == 2 and tk == "catxcat" and not dfct:
            a, b = cnt[0]
            c, d = cnt[1]
            t = a + b + c + d
            exp = [[(a + b) * (a + c) / t, (a + b) * (b + d) / t], [(c + d) * (a + c) / t, (c + d) * (b + d) / t]]
            if all(e > 0 for r_ in exp for e in r_):
                chi2 = sum((o - e) ** 2 / e for o, e in zip([a, b, c, d], [exp[0][0], exp[0][1], exp[1][0], exp[1][1]]))
                base_cells = [(ii, jj) for ii, ri in enumerate(ro) for jj, cj in enumerate(co)
                              if not rows[ri]["inserted"] and not cols[cj]["inserted"]]
                for ii, jj in base_cells:
                    if not common.num_close(zs[ii][jj] ** 2, chi2, rel=1e-8):
                        findings.append({"kind": "spec", "locus": "zscores.chi2-2x2",
                                         "detail": "partition %d: z^2=%r chi2=%r" % (k, zs[ii][jj] ** 2, chi2)})
                        break
                ctx.count("chi2_2x2_checked")
        # Phi assumptions sampled on the observed z
        if isinstance(zs, list):
            vals = sorted({abs(x) for r_ in zs for x in r_ if isinstance(x, float) and math.isfinite(x)})
            cd = [float(norm.cdf(x)) for x in vals]
            if float(norm.cdf(0.0)) != 0.5 or any(not (0.0 <= y <= 1.0) for y in cd) \
                    or any(cd[i] > cd[i + 1] + 1e-12 for i in range(len(cd) - 1)):
                findings.append({"kind": "model", "locus": "assumption.phi", "detail": "scipy norm.cdf violates the Phi assumptions on %r" % vals})
            fin = {round(x, 9) for r_ in zs for x in r_ if isinstance(x, float) and math.isfinite(x) and abs(x) > 1e-9}
            if not dfct and len(fin) >= 2:
                nontrivial = True
    key = None
    if nontrivial:
        shapes = tuple((len(d_.get("args", [])), len(d_.get("kwargs", {}).get("negative", [])))
                       for d_ in case["row_ins"] + case["col_ins"])
        key = (su.kinds_key(vars_), shapes, tuple(gen.frac_str(x) for x in gen.tabulate(vars_, survey, True)))
    return findings, key


def describe(case):
    vars_, survey = su.load_case(case)
    return {"kinds": [v.kind for v in vars_], "mode": case.get("mode"), "missing_flags": [v.cat_missing for v in vars_],
            "n_respondents": len(survey), "weighted": case["weighted"], "scale": case.get("scale", 1),
            "row_ins": case["row_ins"], "col_ins": case["col_ins"], "first_respondents": case["survey"][:3]}


def shrink_candidates(case):
    for c in su.shrink_survey(case):
        yield c
    for key in ("row_ins", "col_ins"):
        ins = case[key]
        for i in range(len(ins)):
            yield dict(case, **{key: ins[:i] + ins[i + 1:]})
    if case["weighted"]:
        yield dict(case, survey=[["1", a] for _, a in case["survey"]])
    if case.get("scale", 1) > 1:
        yield dict(case, scale=1)
        yield dict(case, scale=su.SCALES[0])


THEOREMS = [
    "CrCube.C12.z_def",
    "CrCube.C12.z_formula",
    "CrCube.C12.z_guarded",
    "CrCube.C12.z_eq_spec",
    "CrCube.C12.z_diff_nan",
    "CrCube.C12.defective_nan",
    "CrCube.C12.defective_nan_spec",
    "CrCube.C12.defective_eq_spec",
    "CrCube.C12.defective_iff_rows_dependent",
    "CrCube.C12.defective_of_single",
    "CrCube.C12.guard_row_full_spec_nan",
    "CrCube.C12.guard_col_full_spec_nan",
    "CrCube.C12.p_def",
    "CrCube.C12.p_range",
    "CrCube.C12.p_symm",
    "CrCube.C12.pearsonChi2_closed",
    "CrCube.C12.z_sq_is_chi2",
]
